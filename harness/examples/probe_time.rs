use std::time::Instant;
fn main() {
    let a: Vec<String> = std::env::args().collect();
    let hexs = std::fs::read_to_string(&a[2]).unwrap();
    let b = hex::decode(hexs.trim()).unwrap();
    for n in [b.len() / 4, b.len() / 2, b.len()] {
        let t = Instant::now();
        let p = mls_rs::group::verif_hooks::codec_probe(&a[1], &b[..n]).unwrap();
        println!("{} bytes: decoded={} consumed={} err={:?} in {:?}", n, p.decoded, p.consumed, p.error, t.elapsed());
    }
}
