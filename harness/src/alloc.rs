//! Counting global allocator (monitor for the memory clause of C12).
//!
//! Wraps `std::alloc::System`; keeps three lock-free numbers: bytes currently live, the highest
//! value "live" reached since the last `reset_peak()`, and the largest single request since the
//! last `reset_peak()`. Install in the binary with
//!
//! ```ignore
//! #[global_allocator]
//! static GLOBAL: mlsverif::alloc::CountingAlloc = mlsverif::alloc::CountingAlloc;
//! ```
//!
//! Nothing is ever refused: an absurd request is only recorded (the bound check of the engine
//! reports it); if the system allocator itself fails, the process aborts as usual.

use std::alloc::{GlobalAlloc, Layout, System};
use std::sync::atomic::{AtomicUsize, Ordering::Relaxed};

pub struct CountingAlloc;

static LIVE: AtomicUsize = AtomicUsize::new(0);
static PEAK: AtomicUsize = AtomicUsize::new(0);
static MAX_REQ: AtomicUsize = AtomicUsize::new(0);

#[inline(always)]
fn note_request(size: usize) {
    if size > MAX_REQ.load(Relaxed) {
        MAX_REQ.fetch_max(size, Relaxed);
    }
}

#[inline(always)]
fn note_grow(size: usize) {
    let cur = LIVE.fetch_add(size, Relaxed).wrapping_add(size);
    if cur > PEAK.load(Relaxed) {
        PEAK.fetch_max(cur, Relaxed);
    }
}

#[inline(always)]
fn note_shrink(size: usize) {
    LIVE.fetch_sub(size, Relaxed);
}

unsafe impl GlobalAlloc for CountingAlloc {
    #[inline]
    unsafe fn alloc(&self, l: Layout) -> *mut u8 {
        note_request(l.size());
        let p = System.alloc(l);
        if !p.is_null() {
            note_grow(l.size());
        }
        p
    }

    #[inline]
    unsafe fn alloc_zeroed(&self, l: Layout) -> *mut u8 {
        note_request(l.size());
        let p = System.alloc_zeroed(l);
        if !p.is_null() {
            note_grow(l.size());
        }
        p
    }

    #[inline]
    unsafe fn dealloc(&self, p: *mut u8, l: Layout) {
        System.dealloc(p, l);
        note_shrink(l.size());
    }

    #[inline]
    unsafe fn realloc(&self, p: *mut u8, l: Layout, new_size: usize) -> *mut u8 {
        note_request(new_size);
        let q = System.realloc(p, l, new_size);
        if !q.is_null() {
            if new_size >= l.size() {
                note_grow(new_size - l.size());
            } else {
                note_shrink(l.size() - new_size);
            }
        }
        q
    }
}

/// Bytes live right now.
pub fn live() -> usize {
    LIVE.load(Relaxed)
}

/// Forget the peak and the largest request; returns the baseline (bytes live now).
pub fn reset_peak() -> usize {
    let cur = LIVE.load(Relaxed);
    PEAK.store(cur, Relaxed);
    MAX_REQ.store(0, Relaxed);
    cur
}

/// Highest number of live bytes since the last `reset_peak()`.
pub fn peak() -> usize {
    PEAK.load(Relaxed)
}

/// Largest single request (alloc / alloc_zeroed / realloc target size) since the last
/// `reset_peak()`, whether or not it succeeded.
pub fn max_request() -> usize {
    MAX_REQ.load(Relaxed)
}

/// True when this allocator is the process' global allocator (observed, not assumed).
pub fn installed() -> bool {
    let base = reset_peak();
    let v: Vec<u8> = std::hint::black_box(Vec::with_capacity(12_345));
    // only the request size is looked at: the live/peak counters can move under our feet when
    // another thread (rayon worker, watchdog) frees memory between the reset and this line
    let _ = base;
    let seen = max_request() >= 12_345;
    drop(std::hint::black_box(v));
    seen
}
