pub mod anycrypto;
pub mod driver;
pub mod store;
pub mod util;
pub mod world;
pub mod engines;
