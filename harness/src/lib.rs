pub mod alloc;
pub mod anycrypto;
pub mod driver;
pub mod store;
pub mod util;
pub mod wire;
pub mod world;
pub mod engines;
