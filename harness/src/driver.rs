//! The honest random history driver: rounds of (application traffic, by-reference proposals in
//! permuted delivery order, racing commits, winner selection, joins, maintenance), with hook
//! points at which the per-property monitors observe.

use mls_rs::group::proposal::Proposal;
use mls_rs::group::{CommitEffect, CommitOutput, ExportedTree, ReceivedMessage};
use mls_rs::identity::basic::BasicCredential;
use mls_rs::identity::SigningIdentity;
use mls_rs::psk::ExternalPskId;
use mls_rs::{CipherSuiteProvider, MlsMessage};
use serde_json::{json, Value};

use crate::util::*;
use crate::world::*;

/// What happened in one accepted commit.
pub struct RoundInfo {
    pub epoch_before: u64,
    pub committer: usize,
    pub committer_leaf: u32,
    pub external: bool,
    pub has_path: bool,
    pub commit_msg: MlsMessage,
    pub welcomes: Vec<MlsMessage>,
    pub applied: Vec<String>,
    pub joiners: Vec<usize>,
    pub removed: Vec<usize>,
    pub receivers: Vec<usize>,
    pub racers: usize,
    pub old_tree: Vec<u8>,
    pub new_tree: Vec<u8>,
    /// leaf indices added by this commit, and the key package bytes of each
    pub added_leaves: Vec<u32>,
    pub added_kps: Vec<Vec<u8>>,
    /// identities of the applied adds, in the order the commit applied them
    pub added_names: Vec<Vec<u8>>,
    /// leaf indices removed by the applied Remove proposals
    pub removed_leaves: Vec<u32>,
    pub op_window: (u64, u64),
    pub committer_new_leaf: u32,
    /// op number during which the winning commit was built (for the crypto event log)
    pub build_op: u64,
    /// encoded PreSharedKeyID of every applied PSK proposal, in the order of the commit
    pub applied_psk_ids: Vec<Vec<u8>>,
}

#[allow(unused_variables)]
pub trait Hooks {
    /// once, before the group is created
    fn init(&mut self, w: &mut World) {}
    /// once per round, before anything is sent
    fn epoch_start(&mut self, w: &mut World) {}
    /// after all honest proposals of the round were delivered, before commits are built
    fn before_commit(&mut self, w: &mut World) {}
    /// after a member built a commit (pending), before anybody received it
    fn after_build(&mut self, w: &mut World, who: usize, out: &CommitOutput) {}
    /// just before `to` processes the winning commit
    fn before_receive(&mut self, w: &mut World, to: usize, msg: &MlsMessage) {}
    /// after the delivery service has delivered the winning commit to everybody and joiners joined
    fn after_commit(&mut self, w: &mut World, info: &RoundInfo) {}
    /// a party left the group through this commit (its object is in `former`)
    fn on_removed(&mut self, w: &mut World, who: usize) {}
    /// every message the group produced (for harvesting)
    fn on_message(&mut self, w: &mut World, kind: &'static str, from: usize, msg: &MlsMessage) {}
    /// whether the driver may do write/reload maintenance by itself
    fn allow_reload(&self) -> bool {
        true
    }
}

pub struct NoHooks;
impl Hooks for NoHooks {}

#[derive(Clone, Debug)]
pub struct DriveCfg {
    pub p_external_commit: (u32, u32),
    pub p_race: (u32, u32),
    pub max_props: usize,
    pub max_by_value: usize,
    pub p_apps: (u32, u32),
    pub bias_remove: u32,
    pub bias_add: u32,
    pub p_identity_change: (u32, u32),
    pub p_reload: (u32, u32),
    pub p_psk: (u32, u32),
}

impl Default for DriveCfg {
    fn default() -> Self {
        DriveCfg {
            p_external_commit: (1, 8),
            p_race: (1, 4),
            max_props: 4,
            max_by_value: 2,
            p_apps: (2, 3),
            bias_remove: 2,
            bias_add: 3,
            p_identity_change: (1, 12),
            p_reload: (1, 6),
            p_psk: (1, 6),
        }
    }
}

fn name_of(si: &SigningIdentity) -> Vec<u8> {
    si.credential
        .as_basic()
        .map(|b| b.identifier.clone())
        .unwrap_or_default()
}

impl World {
    /// Bootstrap: creator + `n-1` members added in one or several commits.
    pub fn bootstrap(&mut self, n: usize, hooks: &mut dyn Hooks) -> Result<(), String> {
        let c = self.new_party();
        let gce = if self.rng.chance(1, 2) {
            self.random_gce()
        } else {
            self.base_gce()
        };
        self.create_group(c, gce)?;
        self.export_probes = vec![
            (b"verif".to_vec(), b"ctx".to_vec(), 32),
            (self.rng.bytes(3), self.rng.bytes(7), self.rng.range(1, 80)),
            (vec![], vec![], 16),
        ];
        let mut left = n.saturating_sub(1);
        while left > 0 {
            let k = self.rng.range(1, left.min(4));
            let mut kps = vec![];
            for _ in 0..k {
                let p = self.new_party();
                kps.push(self.key_package(p)?);
            }
            let committer = *self.rng.pick(&self.active()).unwrap();
            let plan = CommitPlan {
                committer,
                by_value: kps.into_iter().map(ByValue::Add).collect(),
                ..Default::default()
            };
            if self.commit_round(vec![plan], hooks)?.is_none() {
                return Err("bootstrap commit failed".into());
            }
            left -= k;
        }
        Ok(())
    }

    pub fn send_app(&mut self, from: usize, hooks: &mut dyn Hooks) -> Result<Option<SentApp>, String> {
        let pt = {
            let n = self.rng.range(0, 120);
            self.rng.bytes(n)
        };
        let aad = {
            let n = self.rng.below(12);
            self.rng.bytes(n)
        };
        let epoch = self.g(from).current_epoch();
        let leaf = self.leaf_of(from);
        self.log(json!({"op":"app","from":from,"len":pt.len()}));
        let r = {
            let (p, a) = (pt.clone(), aad.clone());
            let g = self.gm(from);
            guarded(|| g.encrypt_application_message(&p, a))
        };
        match r {
            Ok(Ok(msg)) => {
                hooks.on_message(self, "application", from, &msg);
                Ok(Some(SentApp {
                    msg,
                    sender: from,
                    sender_leaf: leaf,
                    epoch,
                    plaintext: pt,
                    aad,
                }))
            }
            Ok(Err(e)) => {
                if format!("{e:?}").starts_with("CommitRequired") {
                    Ok(None)
                } else {
                    Err(format!("encrypt_application_message: {e:?}"))
                }
            }
            Err(p) => Err(format!("PANIC in encrypt_application_message: {p}")),
        }
    }

    /// Deliver an application message and compare with ground truth.
    pub fn recv_app(&mut self, to: usize, m: &SentApp) -> Result<(), String> {
        match self.deliver(to, &m.msg) {
            Ok(ReceivedMessage::ApplicationMessage(d)) => {
                if d.data() != m.plaintext.as_slice()
                    || d.sender_index != m.sender_leaf
                    || d.authenticated_data != m.aad
                {
                    return Err(format!(
                        "wrong description: sender {} vs {}, data eq {}, aad eq {}",
                        d.sender_index,
                        m.sender_leaf,
                        d.data() == m.plaintext.as_slice(),
                        d.authenticated_data == m.aad
                    ));
                }
                Ok(())
            }
            Ok(other) => Err(format!("unexpected event {:?}", kind_of(&other))),
            Err(e) => Err(format!("rejected: {e}")),
        }
    }

    /// One honest by-reference proposal by `by`; returns the message.
    pub fn propose(&mut self, by: usize, what: &PropKind) -> Result<MlsMessage, String> {
        let aad = {
            let n = self.rng.below(6);
            self.rng.bytes(n)
        };
        self.log(json!({"op":"propose","by":by,"what":what.describe()}));
        self.last_aad = aad.clone();
        let r = match what {
            PropKind::Add(kp) => {
                let kp = kp.clone();
                let g = self.gm(by);
                guarded(|| g.propose_add(kp, aad))
            }
            PropKind::Update => {
                let g = self.gm(by);
                guarded(|| g.propose_update(aad))
            }
            PropKind::UpdateIdentity(sk, si) => {
                let (sk, si) = (sk.clone(), si.clone());
                let g = self.gm(by);
                guarded(|| g.propose_update_with_identity(sk, si, aad))
            }
            PropKind::Remove(leaf) => {
                let leaf = *leaf;
                let g = self.gm(by);
                guarded(|| g.propose_remove(leaf, aad))
            }
            PropKind::ExternalPsk(id) => {
                let id = ExternalPskId::new(id.clone());
                let g = self.gm(by);
                guarded(|| g.propose_external_psk(id, aad))
            }
            PropKind::ResumptionPsk(e) => {
                let e = *e;
                let g = self.gm(by);
                guarded(|| g.propose_resumption_psk(e, aad))
            }
            PropKind::Gce(l) => {
                let l = l.clone();
                let g = self.gm(by);
                guarded(|| g.propose_group_context_extensions(l, aad))
            }
            PropKind::Custom(c) => {
                let c = c.clone();
                let g = self.gm(by);
                guarded(|| g.propose_custom(c, aad))
            }
        };
        match r {
            Ok(Ok(m)) => Ok(m),
            Ok(Err(e)) => Err(format!("propose {}: {e:?}", what.describe())),
            Err(p) => Err(format!("PANIC in propose {}: {p}", what.describe())),
        }
    }

    pub fn draw_prop(&mut self, by: usize, dc: &DriveCfg) -> Option<PropKind> {
        let act = self.active();
        let total = dc.bias_add + dc.bias_remove + 6;
        let x = self.rng.below(total as usize) as u32;
        if x < dc.bias_add {
            if act.len() >= self.cfg.max_members {
                return Some(PropKind::Update);
            }
            // sometimes bring back a former member
            let outs = self.outside();
            let c = if !outs.is_empty() && self.rng.chance(1, 3) {
                *self.rng.pick(&outs).unwrap()
            } else {
                self.new_party()
            };
            let kp = self.key_package(c).ok()?;
            Some(PropKind::Add(kp))
        } else if x < dc.bias_add + dc.bias_remove {
            if act.len() <= 2 {
                return Some(PropKind::Update);
            }
            let others: Vec<_> = act.iter().copied().filter(|i| *i != by).collect();
            let t = *self.rng.pick(&others)?;
            Some(PropKind::Remove(self.leaf_of(t)))
        } else {
            match x - dc.bias_add - dc.bias_remove {
                0 | 1 => {
                    if self.rng.chance(dc.p_identity_change.0, dc.p_identity_change.1) {
                        let cs = self.suite_of(self.parties[by].prov);
                        let (sk, pk) = cs.signature_key_generate().ok()?;
                        let si = SigningIdentity::new(
                            BasicCredential::new(self.parties[by].name.clone()).into_credential(),
                            pk,
                        );
                        Some(PropKind::UpdateIdentity(sk, si))
                    } else {
                        Some(PropKind::Update)
                    }
                }
                2 => {
                    if self.rng.chance(dc.p_psk.0 * 3, dc.p_psk.1) {
                        let id = if self.psks.is_empty() || self.rng.chance(1, 2) {
                            self.new_external_psk()
                        } else {
                            let keys: Vec<_> = self.psks.keys().cloned().collect();
                            keys[self.rng.below(keys.len())].clone()
                        };
                        Some(PropKind::ExternalPsk(id))
                    } else {
                        Some(PropKind::Update)
                    }
                }
                3 => {
                    // resumption PSK of an epoch every member certainly holds
                    let cur = self.epoch();
                    let min_join = act
                        .iter()
                        .map(|i| self.parties[*i].joined_epoch)
                        .max()
                        .unwrap_or(cur);
                    let e = if cur > 0 && min_join < cur && self.rng.chance(1, 2) {
                        cur - 1
                    } else {
                        cur
                    };
                    if self.rng.chance(dc.p_psk.0 * 2, dc.p_psk.1) {
                        Some(PropKind::ResumptionPsk(e))
                    } else {
                        Some(PropKind::Update)
                    }
                }
                4 => Some(PropKind::Gce(self.random_gce())),
                _ => {
                    let np = self.rng.chance(1, 3);
                    Some(PropKind::Custom(self.custom_proposal(np)))
                }
            }
        }
    }

    /// Build commits for all plans (racers), pick the winner, deliver, join, retire.
    /// Returns None when no commit could be built.
    pub fn commit_round(
        &mut self,
        plans: Vec<CommitPlan>,
        hooks: &mut dyn Hooks,
    ) -> Result<Option<RoundInfo>, String> {
        use mls_rs::mls_rs_codec::MlsEncode;
        let epoch_before = self.epoch();
        let op0 = self.op_no + 1;
        let old_tree = {
            let a = self.active();
            self.g(a[0]).export_tree().to_bytes().unwrap_or_default()
        };
        let mut built: Vec<(usize, CommitOutput, CommitPlan)> = vec![];
        let mut build_ops: std::collections::BTreeMap<usize, u64> = Default::default();
        for plan in plans {
            let who = plan.committer;
            if built.iter().any(|b| b.0 == who) {
                continue;
            }
            self.log(json!({"op":"commit","by":who,"by_value":plan.by_value.iter().map(|b| b.describe()).collect::<Vec<_>>(),"identity_change":plan.new_identity.is_some()}));
            build_ops.insert(who, self.op_no);
            let r = {
                let plan2 = plan.clone();
                let g = self.gm(who);
                guarded(move || {
                    let mut b = g.commit_builder();
                    for bv in plan2.by_value {
                        b = match bv {
                            ByValue::Add(kp) => b.add_member(kp)?,
                            ByValue::Remove(l) => b.remove_member(l)?,
                            ByValue::ExternalPsk(id) => b.add_external_psk(ExternalPskId::new(id))?,
                            ByValue::ResumptionPsk(e) => b.add_resumption_psk(e)?,
                            ByValue::Gce(l) => b.set_group_context_ext(l)?,
                            ByValue::Custom(c) => b.custom_proposal(c),
                        };
                    }
                    if let Some((sk, si)) = plan2.new_identity {
                        b = b.set_new_signing_identity(sk, si);
                    }
                    b = b.authenticated_data(plan2.aad);
                    b.build()
                })
            };
            match r {
                Ok(Ok(out)) => {
                    self.out.cov.bump("commit_built");
                    hooks.after_build(self, who, &out);
                    built.push((who, out, plan));
                }
                Ok(Err(e)) => {
                    self.out.cov.bump(&format!("commit_build_err:{}", err_kind(&e)));
                    self.log(json!({"op":"commit_build_failed","by":who,"err":format!("{e:?}").chars().take(120).collect::<String>()}));
                }
                Err(p) => return Err(format!("PANIC in commit build: {p}")),
            }
        }
        if built.is_empty() {
            return Ok(None);
        }
        let racers = built.len();
        let widx = self.rng.below(built.len());
        let (winner, out, plan) = built.swap_remove(widx);
        let losers: Vec<usize> = built.iter().map(|b| b.0).collect();
        self.log(json!({"op":"winner","who":winner,"racers":racers}));
        self.cur_commit = Some((winner, plan.aad.clone()));
        hooks.on_message(self, "commit", winner, &out.commit_message);
        for w in &out.welcome_messages {
            hooks.on_message(self, "welcome", winner, w);
        }
        if let Some(gi) = &out.external_commit_group_info {
            hooks.on_message(self, "group_info", winner, gi);
        }
        // losers: half of them clear explicitly, the others learn by receiving
        for l in &losers {
            if self.rng.chance(1, 2) {
                self.gm(*l).clear_pending_commit();
            }
        }
        // winner applies (directly or through the echo of its own message)
        let committer_leaf_before = self.leaf_of(winner);
        let via_echo = self.rng.chance(1, 2);
        let desc = if via_echo {
            match self.deliver(winner, &out.commit_message) {
                Ok(ReceivedMessage::Commit(d)) => d,
                Ok(o) => return Err(format!("own commit echo gave {}", kind_of(&o))),
                Err(e) => return Err(format!("own commit echo rejected: {e}")),
            }
        } else {
            let g = self.gm(winner);
            match guarded(|| g.apply_pending_alt()) {
                Ok(Ok(d)) => d,
                Ok(Err(e)) => return Err(format!("apply_pending_commit: {e:?}")),
                Err(p) => return Err(format!("PANIC in apply_pending_commit: {p}")),
            }
        };
        if let Some((sk, si)) = &plan.new_identity {
            let p = &mut self.parties[winner];
            p.sk = sk.clone();
            p.pk = si.signature_key.clone();
            p.signing_identity = si.clone();
        }
        let (applied_props, _unused): (Vec<Proposal>, usize) = match &desc.effect {
            CommitEffect::NewEpoch(ne) => (
                ne.applied_proposals.iter().map(|p| p.proposal.clone()).collect(),
                ne.unused_proposals.len(),
            ),
            CommitEffect::ReInit(r) => (vec![Proposal::ReInit(r.proposal.clone())], 0),
            CommitEffect::Removed { new_epoch, .. } => (
                new_epoch
                    .applied_proposals
                    .iter()
                    .map(|p| p.proposal.clone())
                    .collect(),
                0,
            ),
        };
        let mut applied = vec![];
        let mut added_kps: Vec<Vec<u8>> = vec![];
        let mut added_names: Vec<Vec<u8>> = vec![];
        let mut removed_leaves: Vec<u32> = vec![];
        let mut has_resumption_psk = false;
        let mut applied_psk_ids: Vec<Vec<u8>> = vec![];
        for p in &applied_props {
            applied.push(proposal_kind(p).to_string());
            match p {
                Proposal::Add(a) => {
                    added_kps.push(a.key_package().mls_encode_to_vec().unwrap_or_default());
                    added_names.push(name_of(a.signing_identity()));
                }
                Proposal::Remove(r) => removed_leaves.push(r.to_remove()),
                Proposal::Psk(p) => {
                    if p.external_psk_id().is_none() {
                        has_resumption_psk = true;
                    }
                    applied_psk_ids.push(p.mls_encode_to_vec().unwrap_or_default());
                }
                _ => {}
            }
        }
        // everybody else processes the winning commit
        let receivers: Vec<usize> = self
            .active()
            .into_iter()
            .filter(|i| *i != winner)
            .collect();
        let mut removed = vec![];
        let mut order = receivers.clone();
        self.rng.shuffle(&mut order);
        for r in order {
            hooks.before_receive(self, r, &out.commit_message);
            match self.deliver(r, &out.commit_message) {
                Ok(ReceivedMessage::Commit(d)) => match d.effect {
                    CommitEffect::Removed { .. } => {
                        removed.push(r);
                    }
                    CommitEffect::NewEpoch(_) => {}
                    CommitEffect::ReInit(_) => {}
                },
                Ok(o) => {
                    self.violate(
                        "commit_receipt_wrong_event",
                        format!("receiver {r} got {}", kind_of(&o)),
                    );
                }
                Err(e) => {
                    // an honest commit rejected by an honest member holding all proposals
                    self.out.cov.bump("honest_commit_rejected");
                    self.honest_commit_rejected(r, winner, &e);
                    self.retire(r, Status::Stuck);
                }
            }
        }
        for r in &removed {
            self.retire(*r, Status::Outside);
            hooks.on_removed(self, *r);
        }
        // cross-check: who the driver believes was removed vs who reported Removed
        // (leaf -> party mapping taken before the commit)
        // joiners
        let mut joiners = vec![];
        let new_epoch = epoch_before + 1;
        let tree_oob = out.ratchet_tree.clone();
        let candidates: Vec<usize> = self
            .parties
            .iter()
            .filter(|p| p.status == Status::Outside && !p.key_packages.is_empty())
            .map(|p| p.id)
            .collect();
        for pid in candidates {
            if !self.addressed_by(pid, &out.welcome_messages) {
                continue;
            }
            match self.join_from_welcomes(pid, &out.welcome_messages, tree_oob.clone()) {
                Ok(()) => {
                    self.parties[pid].joined_epoch = new_epoch;
                    self.parties[pid].key_packages.clear();
                    joiners.push(pid);
                }
                Err(e) if has_resumption_psk && e.starts_with("OldGroupStateNotFound") => {
                    // a Welcome that carries a resumption PSK of this group can only be used by
                    // somebody who holds that old epoch: a newcomer legitimately cannot join
                    self.out.cov.bump("joiner_lacks_resumption_psk");
                    self.parties[pid].key_packages.clear();
                    self.parties[pid].status = Status::Ghost;
                }
                Err(e) => {
                    self.violate(
                        format!("{}|joiner_cannot_join|{}", self.prop, e.split('(').next().unwrap_or("")),
                        format!("party {pid}: {e}"),
                    );
                }
            }
        }
        let new_tree = self
            .g(winner)
            .export_tree()
            .to_bytes()
            .unwrap_or_default();
        let added_leaves = joiners.iter().map(|j| self.leaf_of(*j)).collect();
        self.apps.clear();
        let info = RoundInfo {
            epoch_before,
            committer: winner,
            committer_leaf: committer_leaf_before,
            external: false,
            has_path: out.contains_update_path,
            commit_msg: out.commit_message.clone(),
            welcomes: out.welcome_messages.clone(),
            applied,
            joiners,
            removed,
            receivers,
            racers,
            old_tree,
            new_tree,
            added_leaves,
            added_kps,
            added_names,
            removed_leaves,
            op_window: (op0, self.op_no),
            committer_new_leaf: self.leaf_of(winner),
            build_op: build_ops.get(&winner).copied().unwrap_or(0),
            applied_psk_ids,
        };
        self.out.cov.bump("commit_accepted");
        if info.has_path {
            self.out.cov.bump("commit_with_path");
        } else {
            self.out.cov.bump("commit_without_path");
        }
        if racers > 1 {
            self.out.cov.bump("commit_raced");
        }
        for a in &info.applied {
            self.out.cov.bump(&format!("applied:{a}"));
        }
        hooks.after_commit(self, &info);
        Ok(Some(info))
    }

    fn honest_commit_rejected(&mut self, r: usize, committer: usize, e: &str) {
        // reported under the property that is being checked only when that property owns the
        // event (C10); other checks count it and go on without the stuck member
        let kind = e.split('(').next().unwrap_or(e).to_string();
        if self.prop == "C10" || self.prop == "C01" {
            // C10 (E1) and C01 ("every receiver holds the same state") both own this event
            self.violate(
                format!("{}|honest_commit_rejected|{kind}", self.prop),
                format!("receiver {r} rejected the commit of {committer}: {e}"),
            );
        } else if self.prop == "C07" && self.rejoined_same_storage.contains(&r) {
            self.violate(
                format!("C07|rejoined_member_with_same_storage_cannot_advance|{kind}"),
                format!("party {r} was a member before, was removed, came back through a Welcome with the same storage (which still holds prior epochs of its earlier membership) and now rejects the next honest commit (of {committer}): {e}"),
            );
        } else {
            self.log(json!({"op":"stuck","who":r,"err":kind}));
            self.out.cov.bump(&format!("stuck:{}", e.chars().take(100).collect::<String>()));
        }
    }

    pub fn addressed_by(&self, pid: usize, welcomes: &[MlsMessage]) -> bool {
        let cs = self.suite_of(self.parties[pid].prov);
        let mut refs = vec![];
        for kp in &self.parties[pid].key_packages {
            if let Ok(Some(r)) = kp.key_package_reference(&cs) {
                refs.push(r);
            }
        }
        welcomes.iter().any(|w| {
            w.welcome_key_package_references()
                .iter()
                .any(|r| refs.iter().any(|x| x == *r))
        })
    }

    pub fn join_from_welcomes(
        &mut self,
        pid: usize,
        welcomes: &[MlsMessage],
        tree: Option<ExportedTree<'static>>,
    ) -> Result<(), String> {
        self.log(json!({"op":"join","who":pid}));
        if self.rejoin_hygiene {
            let gid = self.group_id.clone();
            self.parties[pid].stores.gs.delete_group(&gid);
        } else {
            let gid = self.group_id.clone();
            if self.parties[pid].stores.gs.dump(&gid, 0).max_epoch_id.is_some() {
                self.rejoined_same_storage.insert(pid);
            }
        }
        let mut last = String::from("no welcome");
        // a joiner may hold several outstanding key packages: any of the welcomes that names one
        // of them is "its" welcome; try those addressed to it first, by reference
        let cs = self.suite_of(self.parties[pid].prov);
        let mut refs = vec![];
        for kp in &self.parties[pid].key_packages {
            if let Ok(Some(r)) = kp.key_package_reference(&cs) {
                refs.push(r);
            }
        }
        for w in welcomes {
            let addressed = w
                .welcome_key_package_references()
                .iter()
                .any(|r| refs.iter().any(|x| x == *r));
            if !addressed {
                continue;
            }
            // which of the party's key packages the Welcome names
            let used_last_resort = self.parties[pid].key_packages.iter().any(|kp| {
                kp.key_package_reference(&cs).ok().flatten().map(|r| w.welcome_key_package_references().iter().any(|x| **x == r)).unwrap_or(false)
                    && self.parties[pid].last_resort_kps.contains(&kp.to_bytes().unwrap_or_default())
            });
            let c = &self.parties[pid].client;
            let t = tree.clone();
            match guarded(|| c.join_group(t, w, None)) {
                Ok(Ok((g, _info))) => {
                    let p = &mut self.parties[pid];
                    p.group = Some(g);
                    p.status = Status::Active;
                    p.joined_with_last_resort = used_last_resort;
                    return Ok(());
                }
                Ok(Err(e)) => last = format!("{e:?}"),
                Err(p) => last = format!("PANIC {p}"),
            }
        }
        Err(last)
    }

    /// External commit by an outside party (optionally replacing member `replace`).
    pub fn external_commit_round(
        &mut self,
        joiner: usize,
        replace: Option<usize>,
        hooks: &mut dyn Hooks,
    ) -> Result<Option<RoundInfo>, String> {
        let act = self.active();
        let epoch_before = self.epoch();
        let op0 = self.op_no + 1;
        let src = *self.rng.pick(&act).unwrap();
        let with_tree = self.rng.chance(1, 2);
        let old_tree = self.g(src).export_tree().to_bytes().unwrap_or_default();
        self.log(json!({"op":"external_commit","joiner":joiner,"gi_from":src,"with_tree":with_tree,"replace":replace}));
        let ext_build_op = self.op_no;
        let gi = self
            .g(src)
            .group_info_message_allowing_ext_commit(with_tree)
            .map_err(|e| format!("group_info_message_allowing_ext_commit: {e:?}"))?;
        hooks.on_message(self, "group_info", src, &gi);
        let tree = (!with_tree).then(|| self.g(src).export_tree().into_owned());
        let replace_leaf = replace.map(|r| self.leaf_of(r));
        let r = {
            let c = &self.parties[joiner].client;
            let gi2 = gi.clone();
            guarded(move || {
                let mut b = c.external_commit_builder()?;
                if let Some(t) = tree {
                    b = b.with_tree_data(t);
                }
                if let Some(l) = replace_leaf {
                    b = b.with_removal(l);
                }
                b.build(gi2)
            })
        };
        let (g, commit) = match r {
            Ok(Ok(x)) => x,
            Ok(Err(e)) => {
                self.out.cov.bump(&format!("external_commit_err:{}", err_kind(&e)));
                return Err(format!("external commit build: {e:?}"));
            }
            Err(p) => return Err(format!("PANIC in external commit build: {p}")),
        };
        hooks.on_message(self, "external_commit", joiner, &commit);
        let receivers: Vec<usize> = act.clone();
        let mut removed = vec![];
        let mut order = receivers.clone();
        self.rng.shuffle(&mut order);
        for r in order {
            hooks.before_receive(self, r, &commit);
            match self.deliver(r, &commit) {
                Ok(ReceivedMessage::Commit(d)) => {
                    if let CommitEffect::Removed { .. } = d.effect {
                        removed.push(r);
                    }
                }
                Ok(o) => self.violate(
                    "commit_receipt_wrong_event",
                    format!("receiver {r} got {}", kind_of(&o)),
                ),
                Err(e) => {
                    self.out.cov.bump("honest_commit_rejected");
                    self.honest_commit_rejected(r, joiner, &e);
                    self.retire(r, Status::Stuck);
                }
            }
        }
        for r in &removed {
            self.retire(*r, Status::Outside);
            hooks.on_removed(self, *r);
        }
        {
            let p = &mut self.parties[joiner];
            p.group = Some(g);
            p.status = Status::Active;
            p.joined_epoch = epoch_before + 1;
        }
        let new_tree = self.g(joiner).export_tree().to_bytes().unwrap_or_default();
        self.apps.clear();
        let info = RoundInfo {
            epoch_before,
            committer: joiner,
            committer_leaf: self.leaf_of(joiner),
            external: true,
            has_path: true,
            commit_msg: commit,
            welcomes: vec![],
            applied: vec!["external_init".into()],
            joiners: vec![],
            removed,
            receivers,
            racers: 1,
            old_tree,
            new_tree,
            added_leaves: vec![],
            added_kps: vec![],
            added_names: vec![],
            removed_leaves: replace_leaf.into_iter().collect(),
            op_window: (op0, self.op_no),
            committer_new_leaf: self.leaf_of(joiner),
            build_op: ext_build_op,
            applied_psk_ids: vec![],
        };
        self.out.cov.bump("commit_accepted");
        self.out.cov.bump("commit_external");
        hooks.after_commit(self, &info);
        Ok(Some(info))
    }

    /// write_to_storage + load from a fresh client over the same stores; replaces the object.
    pub fn write_and_reload(&mut self, who: usize) -> Result<(), String> {
        self.log(json!({"op":"write_reload","who":who}));
        let gid = self.group_id.clone();
        {
            let g = self.gm(who);
            match guarded(|| g.write_to_storage()) {
                Ok(Ok(())) => {}
                Ok(Err(e)) => return Err(format!("write_to_storage: {e:?}")),
                Err(p) => return Err(format!("PANIC in write_to_storage: {p}")),
            }
        }
        let p = &self.parties[who];
        let rec = self.cfg.record.then(|| self.rec.clone());
        let (client, _) = make_client(
            &p.name,
            p.prov,
            p.id as u32,
            self.cfg.suite,
            p.sk.clone(),
            p.pk.clone(),
            &p.stores,
            &p.ident,
            p.rules.clone(),
            rec,
        );
        let loaded = match guarded(|| client.load_group(&gid)) {
            Ok(Ok(g)) => g,
            Ok(Err(e)) => return Err(format!("load_group: {e:?}")),
            Err(p) => return Err(format!("PANIC in load_group: {p}")),
        };
        let p = &mut self.parties[who];
        p.group = Some(loaded);
        p.client = client;
        Ok(())
    }

    /// One full honest round. Returns the accepted commit's info, if any.
    pub fn round(&mut self, dc: &DriveCfg, hooks: &mut dyn Hooks) -> Result<Option<RoundInfo>, String> {
        hooks.epoch_start(self);
        let act = self.active();
        if act.len() < 2 {
            // regrow from a singleton
            if act.is_empty() {
                return Err("group died".into());
            }
        }
        // application traffic at the start of the epoch
        if self.rng.chance(dc.p_apps.0, dc.p_apps.1) && act.len() >= 2 {
            let n = self.rng.range(1, 3);
            let mut sent = vec![];
            for _ in 0..n {
                let from = *self.rng.pick(&act).unwrap();
                if let Some(m) = self.send_app(from, hooks)? {
                    sent.push(m);
                }
            }
            for to in act.clone() {
                let mut mine: Vec<&SentApp> = sent.iter().filter(|m| m.sender != to).collect();
                self.rng.shuffle(&mut mine);
                let mine: Vec<SentApp> = mine.into_iter().cloned().collect();
                for m in mine {
                    self.out.cov.bump("app_delivered");
                    if let Err(e) = self.recv_app(to, &m) {
                        self.violate(
                            format!("{}|app_message|{}", self.prop, e.split(':').next().unwrap_or("")),
                            format!("member {to} could not read the message of {} in epoch {}: {e}", m.sender, m.epoch),
                        );
                    }
                }
            }
            self.apps = sent;
        }
        // external commit round instead of a normal one
        if self.cfg.allow_external_commit
            && self.rng.chance(dc.p_external_commit.0, dc.p_external_commit.1)
            && act.len() < self.cfg.max_members
        {
            // resync of an existing member (replace) or a brand new party
            if act.len() >= 3 && self.rng.chance(1, 3) {
                let victim = *self.rng.pick(&act).unwrap();
                let (name, prov, sk, pk) = {
                    let p = &self.parties[victim];
                    (p.name.clone(), p.prov, p.sk.clone(), p.pk.clone())
                };
                let id = self.parties.len();
                let j = self.new_party_with(id, name, prov, Some((sk, pk)));
                return self.external_commit_round(j, Some(victim), hooks);
            } else {
                let j = self.new_party();
                return self.external_commit_round(j, None, hooks);
            }
        }
        // by-reference proposals, each receiver gets its own delivery order
        let nprops = self.rng.below(dc.max_props + 1);
        let mut props: Vec<(usize, MlsMessage)> = vec![];
        for _ in 0..nprops {
            let act = self.active();
            let by = *self.rng.pick(&act).unwrap();
            let Some(k) = self.draw_prop(by, dc) else { continue };
            match self.propose(by, &k) {
                Ok(m) => {
                    self.out.cov.bump(&format!("proposed:{}", k.tag()));
                    hooks.on_message(self, "proposal", by, &m);
                    props.push((by, m));
                }
                Err(e) => {
                    if e.contains("PANIC") {
                        return Err(e);
                    }
                    self.out.cov.bump("propose_refused");
                }
            }
        }
        for to in self.active() {
            let mut mine: Vec<MlsMessage> = props
                .iter()
                .filter(|(by, _)| *by != to)
                .map(|(_, m)| m.clone())
                .collect();
            self.rng.shuffle(&mut mine);
            for m in mine {
                match self.deliver(to, &m) {
                    Ok(ReceivedMessage::Proposal(_)) => {}
                    Ok(o) => self.violate(
                        "proposal_receipt_wrong_event",
                        format!("receiver {to} got {}", kind_of(&o)),
                    ),
                    Err(e) => self.violate(
                        format!("{}|honest_proposal_rejected|{}", self.prop, e.split('(').next().unwrap_or("")),
                        format!("receiver {to}: {e}"),
                    ),
                }
            }
        }
        hooks.before_commit(self);
        // racing commits
        let act = self.active();
        let nr = if self.rng.chance(dc.p_race.0, dc.p_race.1) && act.len() >= 3 {
            self.rng.range(2, 3.min(act.len()))
        } else {
            1
        };
        let mut committers = act.clone();
        self.rng.shuffle(&mut committers);
        committers.truncate(nr);
        let mut plans = vec![];
        for c in committers {
            let mut by_value = vec![];
            let nbv = self.rng.below(dc.max_by_value + 1);
            for _ in 0..nbv {
                if let Some(k) = self.draw_prop(c, dc) {
                    if let Some(b) = ByValue::from_prop(k) {
                        by_value.push(b);
                    }
                }
            }
            let new_identity = if self.rng.chance(dc.p_identity_change.0, dc.p_identity_change.1) {
                let cs = self.suite_of(self.parties[c].prov);
                cs.signature_key_generate().ok().map(|(sk, pk)| {
                    (
                        sk,
                        SigningIdentity::new(
                            BasicCredential::new(self.parties[c].name.clone()).into_credential(),
                            pk,
                        ),
                    )
                })
            } else {
                None
            };
            let aad = {
                let n = self.rng.below(5);
                self.rng.bytes(n)
            };
            plans.push(CommitPlan {
                committer: c,
                by_value,
                new_identity,
                aad,
            });
        }
        let mut info = self.commit_round(plans.clone(), hooks)?;
        if info.is_none() {
            // by-value content refused: fall back to committing the cached proposals only
            let c = plans[0].committer;
            info = self.commit_round(
                vec![CommitPlan {
                    committer: c,
                    ..Default::default()
                }],
                hooks,
            )?;
            if info.is_none() {
                self.out.cov.bump("empty_commit_refused");
                for i in self.active() {
                    self.gm(i).clear_proposal_cache();
                }
            }
        }
        // identity updates that were committed: the proposer now signs with the new key; the
        // world keeps the party's signer in step by asking the group object itself
        for i in self.active() {
            if let Ok(si) = self.g(i).current_member_signing_identity() {
                if si.signature_key != self.parties[i].pk {
                    let si = si.clone();
                    let sk = mls_rs::group::verif_hooks::own_signer_bytes(self.g(i));
                    let p = &mut self.parties[i];
                    p.pk = si.signature_key.clone();
                    p.signing_identity = si;
                    p.sk = sk.into();
                }
            }
        }
        // maintenance
        if hooks.allow_reload() {
            for i in self.active() {
                if self.rng.chance(dc.p_reload.0, dc.p_reload.1) {
                    if let Err(e) = self.write_and_reload(i) {
                        self.violate(
                            format!("{}|reload_failed|{}", self.prop, e.split(':').next().unwrap_or("")),
                            format!("member {i}: {e}"),
                        );
                    } else {
                        self.out.cov.bump("reloaded");
                    }
                } else if self.rng.chance(1, 3) {
                    let g = self.gm(i);
                    let _ = guarded(|| g.write_to_storage());
                }
            }
        }
        Ok(info)
    }
}

pub fn kind_of(r: &ReceivedMessage) -> &'static str {
    match r {
        ReceivedMessage::ApplicationMessage(_) => "application",
        ReceivedMessage::Commit(_) => "commit",
        ReceivedMessage::Proposal(_) => "proposal",
        ReceivedMessage::GroupInfo(_) => "group_info",
        ReceivedMessage::Welcome => "welcome",
        ReceivedMessage::KeyPackage(_) => "key_package",
    }
}

#[derive(Clone)]
pub enum PropKind {
    Add(MlsMessage),
    Update,
    UpdateIdentity(mls_rs_core::crypto::SignatureSecretKey, SigningIdentity),
    Remove(u32),
    ExternalPsk(Vec<u8>),
    ResumptionPsk(u64),
    Gce(mls_rs::ExtensionList),
    Custom(mls_rs::group::proposal::CustomProposal),
}

impl PropKind {
    pub fn tag(&self) -> &'static str {
        match self {
            PropKind::Add(_) => "add",
            PropKind::Update => "update",
            PropKind::UpdateIdentity(..) => "update_identity",
            PropKind::Remove(_) => "remove",
            PropKind::ExternalPsk(_) => "external_psk",
            PropKind::ResumptionPsk(_) => "resumption_psk",
            PropKind::Gce(_) => "gce",
            PropKind::Custom(_) => "custom",
        }
    }
    pub fn describe(&self) -> Value {
        match self {
            PropKind::Remove(l) => json!({"remove": l}),
            PropKind::ResumptionPsk(e) => json!({"resumption_psk": e}),
            PropKind::ExternalPsk(id) => json!({"external_psk": hx(id)}),
            o => json!(o.tag()),
        }
    }
}

#[derive(Clone)]
pub enum ByValue {
    Add(MlsMessage),
    Remove(u32),
    ExternalPsk(Vec<u8>),
    ResumptionPsk(u64),
    Gce(mls_rs::ExtensionList),
    Custom(mls_rs::group::proposal::CustomProposal),
}

impl ByValue {
    pub fn from_prop(p: PropKind) -> Option<Self> {
        Some(match p {
            PropKind::Add(k) => ByValue::Add(k),
            PropKind::Remove(l) => ByValue::Remove(l),
            PropKind::ExternalPsk(i) => ByValue::ExternalPsk(i),
            PropKind::ResumptionPsk(e) => ByValue::ResumptionPsk(e),
            PropKind::Gce(l) => ByValue::Gce(l),
            PropKind::Custom(c) => ByValue::Custom(c),
            PropKind::Update | PropKind::UpdateIdentity(..) => return None,
        })
    }
    pub fn describe(&self) -> Value {
        match self {
            ByValue::Add(_) => json!("add"),
            ByValue::Remove(l) => json!({"remove": l}),
            ByValue::ExternalPsk(i) => json!({"external_psk": hx(i)}),
            ByValue::ResumptionPsk(e) => json!({"resumption_psk": e}),
            ByValue::Gce(_) => json!("gce"),
            ByValue::Custom(_) => json!("custom"),
        }
    }
}

#[derive(Clone, Default)]
pub struct CommitPlan {
    pub committer: usize,
    pub by_value: Vec<ByValue>,
    pub new_identity: Option<(mls_rs_core::crypto::SignatureSecretKey, SigningIdentity)>,
    pub aad: Vec<u8>,
}
