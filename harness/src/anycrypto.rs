//! AnyCrypto: one `CryptoProvider` type over the three shipped providers, so that a single
//! `Client` type can form mixed-provider groups, plus a recording layer that logs every
//! primitive call (thread-safe: rayon workers call into it).

use std::sync::atomic::{AtomicBool, AtomicU64, Ordering};
use std::sync::{Arc, Mutex};

use mls_rs_core::crypto::{
    CipherSuite, CipherSuiteProvider, CryptoProvider, HpkeCiphertext, HpkeContextR, HpkeContextS,
    HpkePsk, HpkePublicKey, HpkeSecretKey, SignaturePublicKey, SignatureSecretKey,
};
use mls_rs_core::error::IntoAnyError;
use mls_rs_crypto_awslc::AwsLcCryptoProvider;
use mls_rs_crypto_openssl::OpensslCryptoProvider;
use mls_rs_crypto_rustcrypto::RustCryptoProvider;
use zeroize::Zeroizing;

#[derive(Clone, Copy, Debug, PartialEq, Eq, Hash, PartialOrd, Ord)]
pub enum Prov {
    Openssl,
    AwsLc,
    RustCrypto,
}

impl Prov {
    pub const ALL: [Prov; 3] = [Prov::Openssl, Prov::AwsLc, Prov::RustCrypto];
    pub fn name(&self) -> &'static str {
        match self {
            Prov::Openssl => "openssl",
            Prov::AwsLc => "awslc",
            Prov::RustCrypto => "rustcrypto",
        }
    }
    pub fn suites(&self) -> Vec<u16> {
        match self {
            Prov::Openssl => vec![1, 2, 3, 4, 5, 6, 7],
            Prov::AwsLc => vec![1, 2, 3, 5, 7],
            Prov::RustCrypto => vec![1, 2, 3],
        }
    }
}

#[derive(Debug, Clone)]
pub struct AnyErr(pub String);
impl std::fmt::Display for AnyErr {
    fn fmt(&self, f: &mut std::fmt::Formatter<'_>) -> std::fmt::Result {
        write!(f, "{}", self.0)
    }
}
impl std::error::Error for AnyErr {}
impl IntoAnyError for AnyErr {
    fn into_dyn_error(self) -> Result<Box<dyn std::error::Error + Send + Sync>, Self> {
        Ok(Box::new(self))
    }
}
fn e<E: std::fmt::Debug>(x: E) -> AnyErr {
    AnyErr(format!("{x:?}"))
}

type OS = <OpensslCryptoProvider as CryptoProvider>::CipherSuiteProvider;
type AS = <AwsLcCryptoProvider as CryptoProvider>::CipherSuiteProvider;
type RS = <RustCryptoProvider as CryptoProvider>::CipherSuiteProvider;

#[derive(Clone)]
pub enum Inner {
    O(OS),
    A(AS),
    R(RS),
}

/// One recorded primitive call.
#[derive(Clone, Debug)]
pub struct CryptoEvent {
    pub seq: u64,
    pub op: u64,
    pub who: u32,
    pub kind: &'static str,
    /// hex-free raw fields, meaning depends on `kind`
    pub a: Vec<u8>,
    pub b: Vec<u8>,
    pub c: Vec<u8>,
    pub out: Vec<u8>,
    pub n: usize,
}

#[derive(Default)]
pub struct Recorder {
    pub enabled: AtomicBool,
    pub op: AtomicU64,
    pub seq: AtomicU64,
    pub events: Mutex<Vec<CryptoEvent>>,
    /// which kinds to record (empty = all)
    pub kinds: Mutex<Vec<&'static str>>,
}

impl Recorder {
    pub fn new() -> Arc<Self> {
        Arc::new(Self::default())
    }
    pub fn enable(&self, kinds: &[&'static str]) {
        *self.kinds.lock().unwrap() = kinds.to_vec();
        self.enabled.store(true, Ordering::SeqCst);
    }
    pub fn disable(&self) {
        self.enabled.store(false, Ordering::SeqCst);
    }
    pub fn set_op(&self, op: u64) {
        self.op.store(op, Ordering::SeqCst);
    }
    pub fn take(&self) -> Vec<CryptoEvent> {
        std::mem::take(&mut *self.events.lock().unwrap())
    }
    fn rec(
        &self,
        who: u32,
        kind: &'static str,
        a: &[u8],
        b: &[u8],
        c: &[u8],
        out: &[u8],
        n: usize,
    ) {
        if !self.enabled.load(Ordering::Relaxed) {
            return;
        }
        {
            let k = self.kinds.lock().unwrap();
            if !k.is_empty() && !k.contains(&kind) {
                return;
            }
        }
        let ev = CryptoEvent {
            seq: self.seq.fetch_add(1, Ordering::SeqCst),
            op: self.op.load(Ordering::SeqCst),
            who,
            kind,
            a: a.to_vec(),
            b: b.to_vec(),
            c: c.to_vec(),
            out: out.to_vec(),
            n,
        };
        self.events.lock().unwrap().push(ev);
    }
}

#[derive(Clone)]
pub struct AnySuite {
    pub inner: Inner,
    pub prov: Prov,
    pub who: u32,
    pub rec: Option<Arc<Recorder>>,
}

#[derive(Clone)]
pub struct AnyCrypto {
    pub prov: Prov,
    pub who: u32,
    pub rec: Option<Arc<Recorder>>,
}

impl AnyCrypto {
    pub fn new(prov: Prov) -> Self {
        AnyCrypto {
            prov,
            who: u32::MAX,
            rec: None,
        }
    }
    pub fn recorded(prov: Prov, who: u32, rec: Arc<Recorder>) -> Self {
        AnyCrypto {
            prov,
            who,
            rec: Some(rec),
        }
    }
    pub fn suite(&self, cs: u16) -> Option<AnySuite> {
        self.cipher_suite_provider(CipherSuite::from(cs))
    }
}

impl CryptoProvider for AnyCrypto {
    type CipherSuiteProvider = AnySuite;

    fn supported_cipher_suites(&self) -> Vec<CipherSuite> {
        match self.prov {
            Prov::Openssl => OpensslCryptoProvider::default().supported_cipher_suites(),
            Prov::AwsLc => AwsLcCryptoProvider::new().supported_cipher_suites(),
            Prov::RustCrypto => RustCryptoProvider::new().supported_cipher_suites(),
        }
    }

    fn cipher_suite_provider(&self, cs: CipherSuite) -> Option<AnySuite> {
        let inner = match self.prov {
            Prov::Openssl => Inner::O(OpensslCryptoProvider::default().cipher_suite_provider(cs)?),
            Prov::AwsLc => Inner::A(AwsLcCryptoProvider::new().cipher_suite_provider(cs)?),
            Prov::RustCrypto => Inner::R(RustCryptoProvider::new().cipher_suite_provider(cs)?),
        };
        Some(AnySuite {
            inner,
            prov: self.prov,
            who: self.who,
            rec: self.rec.clone(),
        })
    }
}

pub enum CtxS {
    O(<OS as CipherSuiteProvider>::HpkeContextS),
    A(<AS as CipherSuiteProvider>::HpkeContextS),
    R(<RS as CipherSuiteProvider>::HpkeContextS),
}
pub enum CtxR {
    O(<OS as CipherSuiteProvider>::HpkeContextR),
    A(<AS as CipherSuiteProvider>::HpkeContextR),
    R(<RS as CipherSuiteProvider>::HpkeContextR),
}

impl HpkeContextS for CtxS {
    type Error = AnyErr;
    fn seal(&mut self, aad: Option<&[u8]>, data: &[u8]) -> Result<Vec<u8>, AnyErr> {
        match self {
            CtxS::O(c) => c.seal(aad, data).map_err(e),
            CtxS::A(c) => c.seal(aad, data).map_err(e),
            CtxS::R(c) => c.seal(aad, data).map_err(e),
        }
    }
    fn export(&self, ctx: &[u8], len: usize) -> Result<Zeroizing<Vec<u8>>, AnyErr> {
        match self {
            CtxS::O(c) => c.export(ctx, len).map_err(e),
            CtxS::A(c) => c.export(ctx, len).map_err(e),
            CtxS::R(c) => c.export(ctx, len).map_err(e),
        }
    }
}
impl HpkeContextR for CtxR {
    type Error = AnyErr;
    fn open(&mut self, aad: Option<&[u8]>, ct: &[u8]) -> Result<Zeroizing<Vec<u8>>, AnyErr> {
        match self {
            CtxR::O(c) => c.open(aad, ct).map_err(e),
            CtxR::A(c) => c.open(aad, ct).map_err(e),
            CtxR::R(c) => c.open(aad, ct).map_err(e),
        }
    }
    fn export(&self, ctx: &[u8], len: usize) -> Result<Zeroizing<Vec<u8>>, AnyErr> {
        match self {
            CtxR::O(c) => c.export(ctx, len).map_err(e),
            CtxR::A(c) => c.export(ctx, len).map_err(e),
            CtxR::R(c) => c.export(ctx, len).map_err(e),
        }
    }
}

macro_rules! disp {
    ($self:ident, $c:ident => $body:expr) => {
        match &$self.inner {
            Inner::O($c) => $body.map_err(e),
            Inner::A($c) => $body.map_err(e),
            Inner::R($c) => $body.map_err(e),
        }
    };
}

impl AnySuite {
    fn r(&self, kind: &'static str, a: &[u8], b: &[u8], c: &[u8], out: &[u8], n: usize) {
        if let Some(r) = &self.rec {
            r.rec(self.who, kind, a, b, c, out, n);
        }
    }
}

impl CipherSuiteProvider for AnySuite {
    type Error = AnyErr;
    type HpkeContextS = CtxS;
    type HpkeContextR = CtxR;

    fn cipher_suite(&self) -> CipherSuite {
        match &self.inner {
            Inner::O(c) => c.cipher_suite(),
            Inner::A(c) => c.cipher_suite(),
            Inner::R(c) => c.cipher_suite(),
        }
    }

    fn hash(&self, data: &[u8]) -> Result<Vec<u8>, AnyErr> {
        let r = disp!(self, c => c.hash(data))?;
        self.r("hash", data, &[], &[], &r, 0);
        Ok(r)
    }

    fn mac(&self, key: &[u8], data: &[u8]) -> Result<Vec<u8>, AnyErr> {
        let r = disp!(self, c => c.mac(key, data))?;
        self.r("mac", key, data, &[], &r, 0);
        Ok(r)
    }

    fn aead_seal(
        &self,
        key: &[u8],
        data: &[u8],
        aad: Option<&[u8]>,
        nonce: &[u8],
    ) -> Result<Vec<u8>, AnyErr> {
        let r = disp!(self, c => c.aead_seal(key, data, aad, nonce))?;
        self.r("aead_seal", key, nonce, aad.unwrap_or(&[]), &[], data.len());
        Ok(r)
    }

    fn aead_open(
        &self,
        key: &[u8],
        ciphertext: &[u8],
        aad: Option<&[u8]>,
        nonce: &[u8],
    ) -> Result<Zeroizing<Vec<u8>>, AnyErr> {
        let r = disp!(self, c => c.aead_open(key, ciphertext, aad, nonce));
        self.r(
            "aead_open",
            key,
            nonce,
            aad.unwrap_or(&[]),
            &[],
            r.is_ok() as usize,
        );
        r
    }

    fn aead_key_size(&self) -> usize {
        match &self.inner {
            Inner::O(c) => c.aead_key_size(),
            Inner::A(c) => c.aead_key_size(),
            Inner::R(c) => c.aead_key_size(),
        }
    }

    fn aead_nonce_size(&self) -> usize {
        match &self.inner {
            Inner::O(c) => c.aead_nonce_size(),
            Inner::A(c) => c.aead_nonce_size(),
            Inner::R(c) => c.aead_nonce_size(),
        }
    }

    fn kdf_extract(&self, salt: &[u8], ikm: &[u8]) -> Result<Zeroizing<Vec<u8>>, AnyErr> {
        let r = disp!(self, c => c.kdf_extract(salt, ikm))?;
        self.r("kdf_extract", salt, ikm, &[], &r, 0);
        Ok(r)
    }

    fn kdf_expand(&self, prk: &[u8], info: &[u8], len: usize) -> Result<Zeroizing<Vec<u8>>, AnyErr> {
        let r = disp!(self, c => c.kdf_expand(prk, info, len))?;
        self.r("kdf_expand", prk, info, &[], &r, len);
        Ok(r)
    }

    fn kdf_extract_size(&self) -> usize {
        match &self.inner {
            Inner::O(c) => c.kdf_extract_size(),
            Inner::A(c) => c.kdf_extract_size(),
            Inner::R(c) => c.kdf_extract_size(),
        }
    }

    fn hpke_seal(
        &self,
        remote_key: &HpkePublicKey,
        info: &[u8],
        aad: Option<&[u8]>,
        pt: &[u8],
    ) -> Result<HpkeCiphertext, AnyErr> {
        let r = disp!(self, c => c.hpke_seal(remote_key, info, aad, pt))?;
        self.r(
            "hpke_seal",
            remote_key.as_ref(),
            info,
            &r.kem_output,
            &r.ciphertext,
            pt.len(),
        );
        Ok(r)
    }

    fn hpke_seal_psk(
        &self,
        remote_key: &HpkePublicKey,
        info: &[u8],
        aad: Option<&[u8]>,
        pt: &[u8],
        psk: HpkePsk<'_>,
    ) -> Result<HpkeCiphertext, AnyErr> {
        let r = match &self.inner {
            Inner::O(c) => c.hpke_seal_psk(remote_key, info, aad, pt, psk).map_err(e),
            Inner::A(c) => c.hpke_seal_psk(remote_key, info, aad, pt, psk).map_err(e),
            Inner::R(c) => c.hpke_seal_psk(remote_key, info, aad, pt, psk).map_err(e),
        }?;
        self.r(
            "hpke_seal_psk",
            remote_key.as_ref(),
            info,
            &r.kem_output,
            &r.ciphertext,
            pt.len(),
        );
        Ok(r)
    }

    fn hpke_open(
        &self,
        ciphertext: &HpkeCiphertext,
        local_secret: &HpkeSecretKey,
        local_public: &HpkePublicKey,
        info: &[u8],
        aad: Option<&[u8]>,
    ) -> Result<Zeroizing<Vec<u8>>, AnyErr> {
        let r = disp!(self, c => c.hpke_open(ciphertext, local_secret, local_public, info, aad));
        self.r(
            "hpke_open",
            local_public.as_ref(),
            info,
            &ciphertext.kem_output,
            &[],
            r.is_ok() as usize,
        );
        r
    }

    fn hpke_open_psk(
        &self,
        ciphertext: &HpkeCiphertext,
        local_secret: &HpkeSecretKey,
        local_public: &HpkePublicKey,
        info: &[u8],
        aad: Option<&[u8]>,
        psk: HpkePsk<'_>,
    ) -> Result<Zeroizing<Vec<u8>>, AnyErr> {
        match &self.inner {
            Inner::O(c) => c
                .hpke_open_psk(ciphertext, local_secret, local_public, info, aad, psk)
                .map_err(e),
            Inner::A(c) => c
                .hpke_open_psk(ciphertext, local_secret, local_public, info, aad, psk)
                .map_err(e),
            Inner::R(c) => c
                .hpke_open_psk(ciphertext, local_secret, local_public, info, aad, psk)
                .map_err(e),
        }
    }

    fn hpke_setup_s(
        &self,
        remote_key: &HpkePublicKey,
        info: &[u8],
    ) -> Result<(Vec<u8>, CtxS), AnyErr> {
        let r = match &self.inner {
            Inner::O(c) => c
                .hpke_setup_s(remote_key, info)
                .map(|(k, c)| (k, CtxS::O(c)))
                .map_err(e),
            Inner::A(c) => c
                .hpke_setup_s(remote_key, info)
                .map(|(k, c)| (k, CtxS::A(c)))
                .map_err(e),
            Inner::R(c) => c
                .hpke_setup_s(remote_key, info)
                .map(|(k, c)| (k, CtxS::R(c)))
                .map_err(e),
        }?;
        self.r("hpke_setup_s", remote_key.as_ref(), info, &r.0, &[], 0);
        Ok(r)
    }

    fn hpke_setup_r(
        &self,
        kem_output: &[u8],
        local_secret: &HpkeSecretKey,
        local_public: &HpkePublicKey,
        info: &[u8],
    ) -> Result<CtxR, AnyErr> {
        match &self.inner {
            Inner::O(c) => c
                .hpke_setup_r(kem_output, local_secret, local_public, info)
                .map(CtxR::O)
                .map_err(e),
            Inner::A(c) => c
                .hpke_setup_r(kem_output, local_secret, local_public, info)
                .map(CtxR::A)
                .map_err(e),
            Inner::R(c) => c
                .hpke_setup_r(kem_output, local_secret, local_public, info)
                .map(CtxR::R)
                .map_err(e),
        }
    }

    fn kem_derive(&self, ikm: &[u8]) -> Result<(HpkeSecretKey, HpkePublicKey), AnyErr> {
        disp!(self, c => c.kem_derive(ikm))
    }

    fn kem_generate(&self) -> Result<(HpkeSecretKey, HpkePublicKey), AnyErr> {
        disp!(self, c => c.kem_generate())
    }

    fn kem_public_key_validate(&self, key: &HpkePublicKey) -> Result<(), AnyErr> {
        disp!(self, c => c.kem_public_key_validate(key))
    }

    fn random_bytes(&self, out: &mut [u8]) -> Result<(), AnyErr> {
        disp!(self, c => c.random_bytes(out))
    }

    fn signature_key_generate(&self) -> Result<(SignatureSecretKey, SignaturePublicKey), AnyErr> {
        disp!(self, c => c.signature_key_generate())
    }

    fn signature_key_derive_public(
        &self,
        secret_key: &SignatureSecretKey,
    ) -> Result<SignaturePublicKey, AnyErr> {
        disp!(self, c => c.signature_key_derive_public(secret_key))
    }

    fn sign(&self, secret_key: &SignatureSecretKey, data: &[u8]) -> Result<Vec<u8>, AnyErr> {
        disp!(self, c => c.sign(secret_key, data))
    }

    fn verify(
        &self,
        public_key: &SignaturePublicKey,
        signature: &[u8],
        data: &[u8],
    ) -> Result<(), AnyErr> {
        disp!(self, c => c.verify(public_key, signature, data))
    }
}
