use mlsverif::engines::{run, Args};
use mlsverif::util::install_panic_hook;

#[global_allocator]
static GLOBAL: mlsverif::alloc::CountingAlloc = mlsverif::alloc::CountingAlloc;

fn main() {
    install_panic_hook();
    let argv: Vec<String> = std::env::args().collect();
    // diagnosis: `mlsverif PROBE <kind> <hex file>` decodes one input and prints the time it took
    if argv.get(1).map(|s| s.as_str()) == Some("PROBE") {
        let kind = argv[2].clone();
        let bytes = hex::decode(std::fs::read_to_string(&argv[3]).expect("hex file").trim()).expect("hex");
        for round in 0..3 {
            let t = std::time::Instant::now();
            let r = mls_rs::group::verif_hooks::codec_probe(&kind, &bytes);
            println!(
                "round {round}: {} bytes as {kind}: {:.3} s, decoded={}",
                bytes.len(),
                t.elapsed().as_secs_f64(),
                r.map(|p| p.decoded).unwrap_or(false)
            );
        }
        return;
    }
    let mut a = Args {
        prop: argv.get(1).cloned().unwrap_or_default(),
        thorough: false,
        seed: 1,
        shard: 0,
        nshards: 1,
        out: String::new(),
        extra: vec![],
    };
    let mut i = 2;
    while i < argv.len() {
        match argv[i].as_str() {
            "--tier" => {
                a.thorough = argv[i + 1] == "thorough";
                i += 1;
            }
            "--seed" => {
                a.seed = argv[i + 1].parse().expect("seed");
                i += 1;
            }
            "--shard" => {
                a.shard = argv[i + 1].parse().expect("shard");
                i += 1;
            }
            "--nshards" => {
                a.nshards = argv[i + 1].parse().expect("nshards");
                i += 1;
            }
            "--out" => {
                a.out = argv[i + 1].clone();
                i += 1;
            }
            x => a.extra.push(x.to_string()),
        }
        i += 1;
    }
    match run(&a) {
        Ok(out) => {
            let j = serde_json::to_string(&out.to_json()).unwrap();
            if a.out.is_empty() {
                println!("{j}");
            } else {
                std::fs::write(&a.out, j).expect("write out");
            }
        }
        Err(e) => {
            eprintln!("harness error: {e}");
            std::process::exit(3);
        }
    }
}
