//! C12 — the wire codec round-trips, reports exact lengths and never panics on any bytes.
//!
//! Four monitors, all online:
//!  1. harvest: every message / state blob honest histories produce is decoded again through
//!     `codec_probe` (decode from a slice => exact "consumed"); rules per kind below;
//!  2. hostile bytes for every probe kind: random, mutated-valid, truncated, oversized and
//!     non-minimal length prefixes, out-of-range discriminants, amplification fills; plus two
//!     targeted must-fail oracles on length prefixes at *known* offsets (non-minimal re-encoding of
//!     a valid prefix, prefix reaching beyond the input);
//!  3. memory / time: counting global allocator (`crate::alloc`) and wall clock around each decode;
//!  4. `arbitrary` values: reported length == bytes written; whatever decodes re-encodes to the
//!     consumed prefix.
//!
//! Rules (measured facts of this code base, see DESIGN.md §5 C12):
//!  * STRICT kinds (RFC wire types and state types without maps/bools): whatever decodes must
//!    re-encode to exactly `input[..consumed]` and `mls_encoded_len == reencoded.len()`.
//!  * STATE kinds (contain hash maps / a bool / order-dependent ratchet history): byte equality is
//!    NOT required; required are `value_roundtrip` (decode(encode(decode(b))) == decode(b)) and
//!    `mls_encoded_len == reencoded.len()`.
//!  * "decodes and consumes everything" is required only of library-produced (harvested) values.
//!
//! Coverage: `evaluations` = judged decode/encode calls. `distinct` = distinct
//! (kind, input class, outcome, error kind) cells among NON-TRIVIAL evaluations. An evaluation is
//! counted trivial when the input is pure random bytes and decoding failed (most such inputs die
//! in the first field); everything that decoded, and every input derived from a valid blob
//! (mutated, truncated, prefix attacks, discriminants, fills, targeted) or from the library
//! (harvest, arbitrary) is counted non-trivial. This is an approximation of "got past the first
//! field" and is stated as such.

use std::collections::{BTreeMap, BTreeSet};
use std::sync::{Mutex, OnceLock};
use std::time::{Duration, Instant};

use mls_rs::group::verif_hooks::{self as vh, codec_probe, PROBE_KINDS};
use mls_rs::mls_rs_codec::{MlsDecode, MlsEncode, MlsSize};
use mls_rs::MlsMessage;
use serde_json::json;

use super::Args;
use crate::driver::*;
use crate::util::*;
use crate::world::*;

const EXT_SNAP: &str = "ExternalSnapshot";
const COMMIT_SECRETS: &str = "CommitSecrets";

/// Kinds for which "re-encoding == consumed input prefix" is required of anything that decodes.
const STRICT: &[&str] = &[
    "MlsMessage",
    "PublicMessage",
    "PrivateMessage",
    "Welcome",
    "GroupInfo",
    "KeyPackage",
    "Commit",
    "UpdatePath",
    "Proposal",
    "ProposalOrRef",
    "LeafNode",
    "NodeVec",
    "GroupContext",
    "AuthenticatedContent",
    "ExtensionList",
    "Sender",
    "PreSharedKeyID",
    // not in the RFC list but made only of integers, byte strings, options and vectors
    "GroupSecrets",
    "KeySchedule",
    "TreeKemPrivate",
    "CachedProposal",
];

fn strict(kind: &str) -> bool {
    STRICT.contains(&kind)
}

fn all_kinds() -> Vec<&'static str> {
    let mut v: Vec<&'static str> = PROBE_KINDS.to_vec();
    v.push(EXT_SNAP);
    v.push(COMMIT_SECRETS);
    v
}

const ARBITRARY_KINDS: &[&str] = &[
    "MlsMessage",
    "PublicMessage",
    "PrivateMessage",
    "Welcome",
    "GroupInfo",
    "KeyPackage",
    "Commit",
    "UpdatePath",
    "ProposalOrRef",
    "LeafNode",
    "GroupContext",
    "ExtensionList",
    "PreSharedKeyID",
];

const SAMPLE_CLASSES: &[&str] = &["harvest", "mutated", "targeted_nonminimal", "len_oversize"];
const MIB: usize = 1 << 20;
const SLOW: Duration = Duration::from_secs(2);
const MAX_INPUT: usize = 256 * 1024;

// ---------------------------------------------------------------------------------------------
// uniform probe result
// ---------------------------------------------------------------------------------------------

struct PR {
    decoded: bool,
    /// None when the decoder does not expose it (CommitSecrets)
    consumed: Option<usize>,
    reencoded: Option<Vec<u8>>,
    encoded_len: Option<usize>,
    value_roundtrip: bool,
    error: Option<String>,
}

fn probe_pub<T: MlsDecode + MlsEncode + MlsSize + PartialEq>(bytes: &[u8]) -> PR {
    let mut r = bytes;
    match T::mls_decode(&mut r) {
        Err(e) => PR {
            decoded: false,
            consumed: Some(0),
            reencoded: None,
            encoded_len: None,
            value_roundtrip: false,
            error: Some(format!("{e:?}")),
        },
        Ok(v) => {
            let consumed = bytes.len() - r.len();
            let encoded_len = v.mls_encoded_len();
            let re = v.mls_encode_to_vec().ok();
            let vrt = re
                .as_ref()
                .and_then(|b| {
                    let mut s = b.as_slice();
                    let v2 = T::mls_decode(&mut s).ok()?;
                    Some(v2 == v && s.is_empty())
                })
                .unwrap_or(false);
            PR {
                decoded: true,
                consumed: Some(consumed),
                reencoded: re,
                encoded_len: Some(encoded_len),
                value_roundtrip: vrt,
                error: None,
            }
        }
    }
}

/// `CommitSecrets` exposes only from_bytes / to_bytes (no PartialEq, no size): the value round
/// trip is judged by idempotence of decode→encode.
fn probe_commit_secrets(bytes: &[u8]) -> PR {
    use mls_rs::group::CommitSecrets;
    match CommitSecrets::from_bytes(bytes) {
        Err(e) => PR {
            decoded: false,
            consumed: None,
            reencoded: None,
            encoded_len: None,
            value_roundtrip: false,
            error: Some(format!("{e:?}")),
        },
        Ok(v) => {
            let re = v.to_bytes().ok();
            let vrt = re
                .as_ref()
                .and_then(|b| {
                    let v2 = CommitSecrets::from_bytes(b).ok()?;
                    Some(v2.to_bytes().ok()?.as_slice() == b.as_slice())
                })
                .unwrap_or(false);
            PR {
                decoded: true,
                consumed: None,
                reencoded: re,
                encoded_len: None,
                value_roundtrip: vrt,
                error: None,
            }
        }
    }
}

/// user+system CPU seconds of this process (fields 14 and 15 of /proc/self/stat, clock ticks
/// of 1/100 s); the engine is single-threaded apart from the idle watchdog thread
fn process_cpu_seconds() -> f64 {
    let Ok(s) = std::fs::read_to_string("/proc/self/stat") else { return 0.0 };
    let Some(rest) = s.rsplit(')').next() else { return 0.0 };
    let f: Vec<&str> = rest.split_whitespace().collect();
    // after the closing paren: state is f[0], utime is f[11], stime is f[12]
    let u: f64 = f.get(11).and_then(|x| x.parse().ok()).unwrap_or(0.0);
    let k: f64 = f.get(12).and_then(|x| x.parse().ok()).unwrap_or(0.0);
    (u + k) / 100.0
}

fn run_probe(kind: &str, bytes: &[u8]) -> PR {
    match kind {
        EXT_SNAP => probe_pub::<mls_rs::external_client::ExternalSnapshot>(bytes),
        COMMIT_SECRETS => probe_commit_secrets(bytes),
        _ => {
            let p = codec_probe(kind, bytes).expect("probe kind");
            PR {
                decoded: p.decoded,
                consumed: Some(p.consumed),
                reencoded: p.reencoded,
                encoded_len: p.decoded.then_some(p.encoded_len),
                value_roundtrip: p.value_roundtrip,
                error: p.error,
            }
        }
    }
}

/// `UnexpectedEOF`, `Custom`, `OptionOutOfRange`, … (identifier before any payload); errors that
/// come wrapped (`MlsError::SerializationError(..)`) keep both identifiers.
fn short_err(e: &Option<String>) -> String {
    match e {
        None => String::new(),
        Some(s) => {
            let k = err_kind(s);
            if k.is_empty() {
                s.chars().take(24).collect()
            } else {
                k
            }
        }
    }
}

// ---------------------------------------------------------------------------------------------
// hang watchdog: a decode that never returns cannot be observed from the calling thread, so a
// side thread reports the input on stderr and ends the process (exit 4: the runner records the
// shard as crashed => inconclusive, with the input in the stderr tail and in `<out>.hang`).
// ---------------------------------------------------------------------------------------------

struct Armed {
    since: Instant,
    label: String,
    input: Vec<u8>,
}

static WATCH: OnceLock<Mutex<Option<Armed>>> = OnceLock::new();

fn watch_start(out_path: String) {
    if WATCH.set(Mutex::new(None)).is_err() {
        return;
    }
    let limit = std::env::var("MLSVERIF_C12_HANG_S")
        .ok()
        .and_then(|s| s.parse().ok())
        .unwrap_or(180u64);
    std::thread::spawn(move || loop {
        std::thread::sleep(Duration::from_millis(500));
        let g = WATCH.get().unwrap().lock().unwrap_or_else(|p| p.into_inner());
        if let Some(a) = g.as_ref() {
            if a.since.elapsed() > Duration::from_secs(limit) {
                let h = hx(&a.input[..a.input.len().min(200)]);
                if !out_path.is_empty() {
                    let _ = std::fs::write(
                        format!("{out_path}.hang"),
                        format!("{}\n{}\n", a.label, hx(&a.input)),
                    );
                }
                eprintln!(
                    "C12 WATCHDOG: decode did not return within {limit} s: {} len={} input[..200]={h}",
                    a.label,
                    a.input.len()
                );
                std::process::exit(4);
            }
        }
    });
}

fn watch_arm(kind: &str, class: &str, input: &[u8]) {
    if let Some(m) = WATCH.get() {
        *m.lock().unwrap_or_else(|p| p.into_inner()) = Some(Armed {
            since: Instant::now(),
            label: format!("kind={kind} class={class}"),
            input: input.to_vec(),
        });
    }
}

fn watch_disarm() {
    if let Some(m) = WATCH.get() {
        *m.lock().unwrap_or_else(|p| p.into_inner()) = None;
    }
}

// ---------------------------------------------------------------------------------------------
// varint helpers (RFC 9420 §2.1.2) — the harness' own, independent of mls-rs-codec
// ---------------------------------------------------------------------------------------------

/// (value, prefix length) of a *minimal* varint at `o`.
fn varint_at(b: &[u8], o: usize) -> Option<(usize, usize)> {
    let f = *b.get(o)?;
    match f >> 6 {
        0 => Some(((f & 0x3f) as usize, 1)),
        1 => {
            let v = (((f & 0x3f) as usize) << 8) | *b.get(o + 1)? as usize;
            (v >= 64).then_some((v, 2))
        }
        2 => {
            let v = (((f & 0x3f) as usize) << 24)
                | (*b.get(o + 1)? as usize) << 16
                | (*b.get(o + 2)? as usize) << 8
                | *b.get(o + 3)? as usize;
            (v >= 16384).then_some((v, 4))
        }
        _ => None,
    }
}

fn varint_enc(v: usize, width: usize) -> Vec<u8> {
    match width {
        1 => vec![v as u8 & 0x3f],
        2 => vec![0x40 | ((v >> 8) as u8 & 0x3f), v as u8],
        _ => vec![0x80 | ((v >> 24) as u8 & 0x3f), (v >> 16) as u8, (v >> 8) as u8, v as u8],
    }
}

fn varint_min(v: usize) -> Vec<u8> {
    varint_enc(v, if v < 64 { 1 } else if v < 16384 { 2 } else { 4 })
}

/// All wider-than-necessary encodings of `v`.
fn varint_nonminimal(v: usize) -> Vec<Vec<u8>> {
    let mut out = vec![];
    if v < 64 {
        out.push(varint_enc(v, 2));
    }
    if v < 16384 {
        out.push(varint_enc(v, 4));
    }
    out
}

/// Replace the `plen` prefix bytes at `o` by `with`.
fn splice_prefix(b: &[u8], o: usize, plen: usize, with: &[u8]) -> Vec<u8> {
    let mut v = Vec::with_capacity(b.len() + 4);
    v.extend_from_slice(&b[..o]);
    v.extend_from_slice(with);
    v.extend_from_slice(&b[o + plen..]);
    v
}

/// `n` consecutive `opaque<V>` / `vector<V>` fields starting at `o`: offsets of their prefixes.
fn walk(b: &[u8], mut o: usize, n: usize, out: &mut Vec<usize>) -> Option<usize> {
    for _ in 0..n {
        let (v, p) = varint_at(b, o)?;
        if o + p + v > b.len() {
            return None;
        }
        out.push(o);
        o += p + v;
    }
    Some(o)
}

/// GroupContext { version u16, cipher_suite u16, group_id<V>, epoch u64, tree_hash<V>,
/// confirmed_transcript_hash<V>, extensions<V> } at `base`.
fn walk_group_context(b: &[u8], base: usize, out: &mut Vec<usize>) -> Option<usize> {
    let o = walk(b, base + 4, 1, out)?;
    walk(b, o + 8, 3, out)
}

/// Offsets of length prefixes that are certainly length prefixes of mandatory top-level fields
/// (not nested inside another length-prefixed container) of a VALID blob of `kind`. Derived from
/// the struct definitions; every entry was confirmed silent on the unmodified tree.
fn prefix_offsets(kind: &str, b: &[u8]) -> Vec<usize> {
    let mut out = vec![];
    let _ = match kind {
        // the value is one vector
        "NodeVec" | "ExtensionList" => walk(b, 0, 1, &mut out),
        // proposals<V>
        "Commit" => walk(b, 0, 1, &mut out),
        // LeafNode { encryption_key<V>, signature_key<V>, .. }; UpdatePath { leaf_node, .. }
        "LeafNode" | "UpdatePath" => walk(b, 0, 2, &mut out),
        // FramedContent { group_id<V>, epoch, .. }
        "PublicMessage" => walk(b, 0, 1, &mut out),
        // { group_id<V>, epoch u64, content_type u8, authenticated_data<V>,
        //   encrypted_sender_data<V>, ciphertext<V> }
        "PrivateMessage" => walk(b, 0, 1, &mut out).and_then(|o| walk(b, o + 9, 3, &mut out)),
        // { cipher_suite u16, secrets<V>, encrypted_group_info<V> }
        "Welcome" => walk(b, 2, 2, &mut out),
        "GroupContext" | "GroupInfo" | "PriorEpoch" => walk_group_context(b, 0, &mut out),
        // { version u16, RawGroupState { context, .. }, .. }
        "Snapshot" | EXT_SNAP => walk_group_context(b, 2, &mut out),
        // { version u16, cipher_suite u16, hpke_init_key<V>, leaf_node { enc_key<V>, sig_key<V> .. } }
        "KeyPackage" => walk(b, 4, 3, &mut out),
        // wire_format u16, FramedContent
        "AuthenticatedContent" => walk(b, 2, 1, &mut out),
        // five secrets
        "KeySchedule" => walk(b, 0, 5, &mut out),
        // joiner_secret<V>
        "GroupSecrets" => walk(b, 0, 1, &mut out),
        // resumption_secret<V>, sender_data_secret<V>, secret_tree { known_secrets<V>, .. }
        "EpochSecrets" => walk(b, 0, 3, &mut out),
        // known_secrets<V>
        "SecretTree" => walk(b, 0, 1, &mut out),
        // self_index u32, secret_keys<V>
        "TreeKemPrivate" => walk(b, 4, 1, &mut out),
        // TreeIndex: five maps, then nodes<V>
        "TreeKemPublic" => walk(b, 0, 6, &mut out),
        // ProposalCache { protocol_version u16, group_id<V>, proposals<V>, own_proposals<V> },
        // GroupContext ..
        "GroupState" | "PendingCommit" => {
            walk(b, 2, 3, &mut out).and_then(|o| walk_group_context(b, o, &mut out))
        }
        // tag 2, bytes<V>
        COMMIT_SECRETS if b.first() == Some(&2) => walk(b, 1, 1, &mut out),
        "PreSharedKeyID" => match b.first() {
            // external: psk_id<V>, nonce<V>
            Some(1) => walk(b, 1, 2, &mut out),
            // resumption: usage u8, psk_group_id<V>, psk_epoch u64, nonce<V>
            Some(2) => walk(b, 2, 1, &mut out).and_then(|o| walk(b, o + 8, 1, &mut out)),
            _ => None,
        },
        "MlsMessage" if b.len() > 4 && b[0] == 0 && b[1] == 1 && b[2] == 0 => match b[3] {
            1 => walk(b, 4, 1, &mut out),
            2 => walk(b, 4, 1, &mut out).and_then(|o| walk(b, o + 9, 3, &mut out)),
            3 => walk(b, 6, 2, &mut out),
            4 => walk_group_context(b, 4, &mut out),
            5 => walk(b, 8, 3, &mut out),
            _ => None,
        },
        _ => None,
    };
    out
}

// ---------------------------------------------------------------------------------------------
// engine state
// ---------------------------------------------------------------------------------------------

#[derive(Clone, Copy, PartialEq)]
enum Expect {
    /// no expectation on success/failure
    Any,
    /// library-produced: must decode and consume everything
    Harvested,
    /// derived from library-produced bytes by the harness' own offset arithmetic: a decode
    /// failure is not held against the library
    SubHarvest,
    /// a non-minimal varint was planted at a known length-prefix offset: must fail
    MustFailNonMinimal,
    /// a length prefix at a known offset reaches beyond the input: must fail
    MustFailOverreach,
}

struct St {
    out: ShardOut,
    rng: Rng,
    harv: BTreeMap<&'static str, Vec<Vec<u8>>>,
    seeds: BTreeMap<&'static str, Vec<Vec<u8>>>,
    seen: BTreeSet<u64>,
    alloc_on: bool,
    sample_classes: BTreeSet<String>,
    worst_ratio: f64,
    worst_ratio_at: String,
}

const CAP_PER_KIND: usize = 256;

impl St {
    fn new(rng: Rng) -> Self {
        St {
            out: ShardOut::default(),
            rng,
            harv: BTreeMap::new(),
            seeds: BTreeMap::new(),
            seen: BTreeSet::new(),
            alloc_on: crate::alloc::installed(),
            sample_classes: BTreeSet::new(),
            worst_ratio: 0.0,
            worst_ratio_at: String::new(),
        }
    }

    fn keep(&mut self, kind: &'static str, bytes: &[u8], harvested: bool) {
        if bytes.len() > MAX_INPUT {
            return;
        }
        let pos = self.rng.below(CAP_PER_KIND * 4);
        let m = if harvested { &mut self.harv } else { &mut self.seeds };
        let v = m.entry(kind).or_default();
        if v.len() < CAP_PER_KIND {
            v.push(bytes.to_vec());
        } else if pos < CAP_PER_KIND {
            v[pos] = bytes.to_vec();
        }
    }

    fn pick_seed(&mut self, kind: &str) -> Option<Vec<u8>> {
        let nh = self.harv.get(kind).map(|v| v.len()).unwrap_or(0);
        let ns = self.seeds.get(kind).map(|v| v.len()).unwrap_or(0);
        if nh + ns == 0 {
            return None;
        }
        // prefer library-produced seeds
        let i = if nh > 0 && (ns == 0 || self.rng.chance(3, 4)) {
            self.rng.below(nh)
        } else {
            nh + self.rng.below(ns)
        };
        Some(if i < nh { self.harv[kind][i].clone() } else { self.seeds[kind][i - nh].clone() })
    }

    /// One monitored decode: panic guard, CPU-time bound, allocation bound. Returns the probe result
    /// unless the decoder panicked.
    fn measured(&mut self, kind: &str, class: &str, bytes: &[u8]) -> Option<PR> {
        let mut attempt = 0;
        loop {
            watch_arm(kind, class, bytes);
            let base = crate::alloc::reset_peak();
            let t0 = Instant::now();
            let c0 = process_cpu_seconds();
            let r = guarded(|| run_probe(kind, bytes));
            let wall_clock = t0.elapsed();
            // The verdict is about work done, not about how loaded the machine is: a slow wall
            // clock only counts when this process also burned the CPU time (user+system).
            let wall = if wall_clock > SLOW {
                let cpu = process_cpu_seconds() - c0;
                if cpu > SLOW.as_secs_f64() {
                    wall_clock
                } else {
                    self.out.cov.bump("slow_wall_clock_but_not_cpu");
                    std::time::Duration::from_secs_f64(cpu.max(0.0))
                }
            } else {
                wall_clock
            };
            let peak = crate::alloc::peak().saturating_sub(base);
            let maxreq = crate::alloc::max_request();
            watch_disarm();
            if wall > SLOW && bytes.len() <= 64 * 1024 {
                if attempt == 0 {
                    attempt = 1;
                    self.out.cov.bump("slow_rerun");
                    continue;
                }
                // CPU time of a process is still inflated many times over when 32 shards compete
                // for memory bandwidth and page faults: the input becomes a candidate that the
                // runner re-measures alone, after all shards have finished (c12_post.py)
                self.out.cov.bump("slow_candidates");
                let e = self.out.extra.entry("c12_slow_candidates".to_string()).or_insert_with(|| serde_json::Value::Array(vec![]));
                if let serde_json::Value::Array(a) = e {
                    if a.len() < 8 {
                        a.push(serde_json::json!({"kind": kind, "class": class, "secs": wall.as_secs_f64(), "input": hx(bytes)}));
                    }
                }
            }
            if self.alloc_on {
                // single request: 1024·len + 1 MiB. Peak: the probe keeps the decoded value, its
                // re-encoding and a second decoded value alive at the same time, so the bound on
                // what ONE decode may hold (1024·len) is counted twice for the peak; without this
                // a vector of blank tree nodes (1 input byte -> 288 B in memory, x2 by capacity
                // doubling) would alarm on correct code for lengths just above a power of two.
                let bound = 1024usize.saturating_mul(bytes.len()).saturating_add(MIB);
                let peak_bound = 2048usize.saturating_mul(bytes.len()).saturating_add(MIB);
                let ratio = peak.max(maxreq) as f64 / (bytes.len().max(1) as f64);
                if peak.max(maxreq) > 64 * 1024 && ratio > self.worst_ratio {
                    self.worst_ratio = ratio;
                    self.worst_ratio_at = format!("{kind}/{class} len={} peak={peak} maxreq={maxreq}", bytes.len());
                }
                if peak > peak_bound || maxreq > bound {
                    self.out.violate(
                        "C12",
                        format!("C12|alloc|{kind}"),
                        format!(
                            "decoding {} bytes as {kind} ({class}): peak live +{peak} B, largest request {maxreq} B, bounds {peak_bound} / {bound} B; input={}",
                            bytes.len(),
                            hx(&bytes[..bytes.len().min(4096)])
                        ),
                    );
                }
            }
            return match r {
                Ok(pr) => Some(pr),
                Err(p) => {
                    let loc = p.split(": ").next().unwrap_or("").to_string();
                    if panic_in_repo(&p) {
                        self.out.violate(
                            "C12",
                            format!("C12|panic|{kind}|{loc}"),
                            format!("decoding {} bytes as {kind} ({class}) panicked: {p}; input={}", bytes.len(), hx(bytes)),
                        );
                    } else {
                        self.out.inconclusive.push(format!("harness panic in probe {kind}/{class}: {p}"));
                    }
                    self.out.cov.bump(&format!("panic:{kind}"));
                    None
                }
            };
        }
    }

    /// Decode `bytes` as `kind` under all monitors and judge the outcome.
    /// Returns (decoded, consumed).
    fn judge(&mut self, kind: &str, class: &str, bytes: &[u8], expect: Expect) -> (bool, usize) {
        let Some(pr) = self.measured(kind, class, bytes) else {
            self.out.cov.eval(Some(fnv(format!("{kind}|{class}|panic").as_bytes())));
            return (false, 0);
        };
        let ek = short_err(&pr.error);
        let key = fnv(format!("{kind}|{class}|{}|{ek}", pr.decoded).as_bytes());
        let trivial = !pr.decoded && class.starts_with("random");
        self.out.cov.eval((!trivial).then_some(key));
        self.out.cov.bump(if trivial { "trivial" } else { "nontrivial" });
        if !matches!(expect, Expect::Harvested | Expect::SubHarvest)
            && !matches!(class, "arbitrary" | "synthetic_seed" | "targeted_base")
        {
            self.out.cov.bump(&format!("hostile:{kind}:{class}"));
        }
        if SAMPLE_CLASSES.contains(&class) && self.sample_classes.insert(class.to_string()) {
            self.out.cov.sample(json!({"kind": kind, "class": class, "len": bytes.len(), "decoded": pr.decoded,
                "consumed": pr.consumed, "error": pr.error, "hex48": hx(&bytes[..bytes.len().min(48)])}));
        }
        let show = |b: &[u8]| -> String {
            if b.len() <= 1500 {
                hx(b)
            } else {
                format!("{}…(+{} bytes)", hx(&b[..1500]), b.len() - 1500)
            }
        };
        if !pr.decoded {
            self.out.cov.bump(&format!("decode_err:{kind}"));
            self.out.cov.bump(&format!("err:{ek}"));
            if expect == Expect::Harvested {
                self.out.violate(
                    "C12",
                    format!("C12|harvest_undecodable|{kind}|{ek}"),
                    format!("library-produced {kind} ({class}, {} bytes) does not decode: {:?}; bytes={}", bytes.len(), pr.error, show(bytes)),
                );
            }
            if expect == Expect::SubHarvest {
                self.out.cov.bump(&format!("subharvest_skip:{kind}"));
            }
            return (false, 0);
        }
        self.out.cov.bump(&format!("decoded_ok:{kind}"));
        let consumed = pr.consumed.unwrap_or(bytes.len());
        match expect {
            Expect::MustFailNonMinimal => self.out.violate(
                "C12",
                format!("C12|nonminimal_accepted|{kind}"),
                format!("{kind}: a length prefix in non-minimal varint form was accepted ({class}); input={}", show(bytes)),
            ),
            Expect::MustFailOverreach => self.out.violate(
                "C12",
                format!("C12|overreach_accepted|{kind}"),
                format!("{kind}: a length prefix reaching beyond the input was accepted ({class}); input={}", show(bytes)),
            ),
            Expect::Harvested => {
                if consumed != bytes.len() {
                    self.out.violate(
                        "C12",
                        format!("C12|harvest_consumed|{kind}"),
                        format!("library-produced {kind} of {} bytes: decoder consumed {consumed}; bytes={}", bytes.len(), show(bytes)),
                    );
                }
            }
            _ => {}
        }
        if consumed > bytes.len() {
            self.out.violate("C12", format!("C12|consumed_beyond_input|{kind}"), format!("consumed {consumed} of {}; input={}", bytes.len(), show(bytes)));
            return (true, consumed);
        }
        let Some(re) = pr.reencoded.as_ref() else {
            // Root-cause attribution by counterfactual: the decoder maps proposal type 0x0000 to
            // `Proposal::Custom`, which the encoder refuses (types 0..=7). If rewriting ONE
            // 00 00 pair to a registered custom type makes the same input decode and re-encode,
            // that pair was the proposal type and the only reason of the failure.
            let mut cause = None;
            let mut tried = 0;
            for o in 0..bytes.len().saturating_sub(1).min(16_384) {
                if bytes[o] != 0 || bytes[o + 1] != 0 {
                    continue;
                }
                // cheap pre-filter: a Proposal that starts here decodes but does not encode
                match guarded(|| codec_probe("Proposal", &bytes[o..])) {
                    Ok(Some(pp)) if pp.decoded && pp.reencoded.is_none() => {}
                    _ => continue,
                }
                tried += 1;
                if tried > 200 {
                    break;
                }
                let mut m = bytes.to_vec();
                m[o] = (CUSTOM_PROP >> 8) as u8;
                m[o + 1] = CUSTOM_PROP as u8;
                if let Ok(p2) = guarded(|| run_probe(kind, &m)) {
                    if p2.decoded && p2.reencoded.is_some() && p2.consumed == pr.consumed {
                        cause = Some(o);
                        break;
                    }
                }
            }
            match cause {
                Some(o) => self.out.violate(
                    "C12",
                    "C12|reencode_failed|custom_proposal_type_0",
                    format!(
                        "{kind} ({class}): the decoder accepts proposal type 0x0000 (at offset {o}) as a custom proposal, \
                         the encoder refuses custom types 0..=7, so the decoded value cannot be encoded; input={}",
                        show(bytes)
                    ),
                ),
                None => self.out.violate(
                    "C12",
                    format!("C12|reencode_failed|{kind}"),
                    format!("{kind} ({class}): decoded value cannot be encoded; input={}", show(bytes)),
                ),
            }
            return (true, consumed);
        };
        if let Some(el) = pr.encoded_len {
            if el != re.len() {
                self.out.violate(
                    "C12",
                    format!("C12|encoded_len|{kind}"),
                    format!("{kind} ({class}): mls_encoded_len reports {el}, encoder wrote {}; input={}", re.len(), show(bytes)),
                );
            }
        }
        let harvested = matches!(expect, Expect::Harvested | Expect::SubHarvest);
        if strict(kind) || (kind == COMMIT_SECRETS && harvested) {
            if re.as_slice() != &bytes[..consumed] {
                let first = re.iter().zip(bytes.iter()).position(|(a, b)| a != b).unwrap_or(re.len().min(consumed));
                self.out.violate(
                    "C12",
                    format!("C12|reencode_mismatch|{kind}|{}", if harvested { "harvest" } else { "hostile" }),
                    format!(
                        "{kind} ({class}): decoded value re-encodes to {} bytes, consumed {consumed}; first difference at offset {first}; input={} reencoded={}",
                        re.len(),
                        show(bytes),
                        show(re)
                    ),
                );
            }
        }
        // value round trip: required of every state kind (hostile too: a decoded value must
        // survive its own encoding) and of everything harvested
        if (!strict(kind) || harvested) && !pr.value_roundtrip {
            self.out.violate(
                "C12",
                format!("C12|value_roundtrip|{kind}|{}", if harvested { "harvest" } else { "hostile" }),
                format!("{kind} ({class}): decode(encode(decode(b))) differs from decode(b) or leaves bytes; input={}", show(bytes)),
            );
        }
        (true, consumed)
    }

    // -----------------------------------------------------------------------------------------
    // harvest
    // -----------------------------------------------------------------------------------------

    /// A library-produced blob of `kind`.
    fn harvest(&mut self, kind: &'static str, bytes: &[u8]) -> bool {
        self.harvest_as(kind, bytes, Expect::Harvested)
    }

    fn harvest_as(&mut self, kind: &'static str, bytes: &[u8], e: Expect) -> bool {
        let h = fnv(bytes) ^ fnv(kind.as_bytes()).rotate_left(17);
        if !self.seen.insert(h) {
            return false;
        }
        self.out.cov.bump(&format!("harvest:{kind}"));
        let (ok, _) = self.judge(kind, if e == Expect::Harvested { "harvest" } else { "subharvest" }, bytes, e);
        if ok {
            self.keep(kind, bytes, true);
        }
        ok
    }

    /// Take the leading `kind` value out of `bytes` (length decided by the library's own decoder).
    fn carve(&mut self, kind: &'static str, bytes: &[u8]) -> Option<usize> {
        // monitored like every other decode (panic, time, allocation); the value is judged on
        // the exact slice afterwards
        let c = self.measured(kind, "carve", bytes)?;
        let n = c.consumed.unwrap_or(0);
        if !c.decoded || n == 0 || n > bytes.len() {
            self.out.cov.bump(&format!("subharvest_skip:{kind}"));
            return None;
        }
        self.harvest_as(kind, &bytes[..n], Expect::SubHarvest);
        Some(n)
    }

    fn harvest_message(&mut self, msg: &MlsMessage) {
        let Ok(b) = msg.to_bytes() else { return };
        if !self.harvest("MlsMessage", &b) || b.len() < 5 {
            return;
        }
        // MlsMessage = version u16 || wire_format u16 || payload
        let inner = &b[4..];
        match (b[2], b[3]) {
            (0, 1) => {
                self.harvest("PublicMessage", inner);
                self.sub_public_message(inner);
            }
            (0, 2) => {
                self.harvest("PrivateMessage", inner);
            }
            (0, 3) => {
                self.harvest("Welcome", inner);
            }
            (0, 4) => {
                self.harvest("GroupInfo", inner);
                self.sub_group_info(inner);
            }
            (0, 5) => {
                self.harvest("KeyPackage", inner);
                self.sub_key_package(inner);
            }
            _ => {}
        }
    }

    fn sub_group_context(&mut self, gc: &[u8]) {
        let mut offs = vec![];
        if walk_group_context(gc, 0, &mut offs).is_some() {
            if let Some(o) = offs.last() {
                self.carve("ExtensionList", &gc[*o..]);
            }
        }
    }

    fn sub_group_info(&mut self, gi: &[u8]) {
        // GroupInfo { group_context, extensions<V>, .. }
        if let Some(c) = self.carve("GroupContext", gi) {
            self.sub_group_context(&gi[..c]);
            self.carve("ExtensionList", &gi[c..]);
        }
    }

    fn sub_key_package(&mut self, kp: &[u8]) {
        // { version u16, cipher_suite u16, hpke_init_key<V>, leaf_node, extensions<V>, signature<V> }
        let mut o = vec![];
        if let Some(after_key) = walk(kp, 4, 1, &mut o) {
            if let Some(c) = self.carve("LeafNode", &kp[after_key..]) {
                self.carve("ExtensionList", &kp[after_key + c..]);
            }
        }
    }

    fn sub_public_message(&mut self, pm: &[u8]) {
        // AuthenticatedContent = wire_format(1) || FramedContent || auth   (no membership tag)
        let mut ac = vec![0u8, 1];
        ac.extend_from_slice(pm);
        self.carve("AuthenticatedContent", &ac);
        // FramedContent { group_id<V>, epoch u64, sender, authenticated_data<V>, content_type u8, content }
        let mut offs = vec![];
        let Some(o) = walk(pm, 0, 1, &mut offs) else { return };
        let so = o + 8;
        let Some(c) = self.carve("Sender", pm.get(so..).unwrap_or(&[])) else { return };
        let Some(o) = walk(pm, so + c, 1, &mut offs) else { return };
        let Some(ct) = pm.get(o) else { return };
        let body = &pm[o + 1..];
        match ct {
            2 => {
                if let Some(c) = self.carve("Proposal", body) {
                    self.sub_proposal(&body[..c]);
                }
            }
            3 => {
                if let Some(c) = self.carve("Commit", body) {
                    let commit = body[..c].to_vec();
                    self.sub_commit(&commit);
                }
            }
            _ => {}
        }
    }

    fn sub_proposal(&mut self, p: &[u8]) {
        // psk proposal: type 0x0004 || PreSharedKeyID; gce: 0x0007 || ExtensionList;
        // add: 0x0001 || KeyPackage; update: 0x0002 || LeafNode
        match (p.first(), p.get(1)) {
            (Some(0), Some(4)) => {
                self.carve("PreSharedKeyID", &p[2..]);
            }
            (Some(0), Some(7)) => {
                self.carve("ExtensionList", &p[2..]);
            }
            (Some(0), Some(1)) => {
                self.carve("KeyPackage", &p[2..]);
            }
            (Some(0), Some(2)) => {
                self.carve("LeafNode", &p[2..]);
            }
            _ => {}
        }
    }

    fn sub_commit(&mut self, commit: &[u8]) {
        // Commit { proposals<V> (ProposalOrRef each), optional<UpdatePath> }
        let Some((v, p)) = varint_at(commit, 0) else { return };
        if p + v > commit.len() {
            return;
        }
        let mut rest = &commit[p..p + v];
        let mut n = 0;
        while !rest.is_empty() && n < 16 {
            let Some(c) = self.carve("ProposalOrRef", rest) else { break };
            if rest[0] == 1 {
                if let Some(c2) = self.carve("Proposal", &rest[1..c]) {
                    let pr = rest[1..1 + c2].to_vec();
                    self.sub_proposal(&pr);
                }
            }
            rest = &rest[c..];
            n += 1;
        }
        if commit.get(p + v) == Some(&1) {
            let up = &commit[p + v + 1..];
            if self.carve("UpdatePath", up).is_some() {
                self.carve("LeafNode", up);
            }
        }
    }

    /// CommitSecrets = tag 2 || opaque<V>(PendingCommit); PendingCommit = GroupState ||
    /// EpochSecrets || TreeKemPrivate || KeySchedule || signer<V> || CommitMessageDescription || ..
    fn sub_commit_secrets(&mut self, cs: &[u8]) {
        if cs.first() != Some(&2) {
            return;
        }
        let Some((v, p)) = varint_at(cs, 1) else { return };
        let Some(pc) = cs.get(1 + p..1 + p + v) else { return };
        let pc = pc.to_vec();
        self.harvest_as("PendingCommit", &pc, Expect::SubHarvest);
        let Some(c1) = self.carve("GroupState", &pc) else { return };
        {
            // GroupState = ProposalCache { version u16, group_id<V>, proposals<V>,
            //              own_proposals<V> } || GroupContext || TreeKemPublic || ..
            let gs = pc[..c1].to_vec();
            let mut offs = vec![];
            if let Some(o) = walk(&gs, 2, 3, &mut offs) {
                if let Some(c) = self.carve("GroupContext", &gs[o..]) {
                    self.carve("TreeKemPublic", &gs[o + c..]);
                }
            }
        }
        let mut o = c1;
        let Some(c) = self.carve("EpochSecrets", &pc[o..]) else { return };
        {
            // EpochSecrets = resumption<V> || sender_data<V> || SecretTree
            let es = pc[o..o + c].to_vec();
            let mut offs = vec![];
            if let Some(st) = walk(&es, 0, 2, &mut offs) {
                self.carve("SecretTree", &es[st..]);
            }
        }
        o += c;
        let Some(c) = self.carve("TreeKemPrivate", &pc[o..]) else { return };
        o += c;
        let Some(c) = self.carve("KeySchedule", &pc[o..]) else { return };
        o += c;
        let mut offs = vec![];
        let Some(o) = walk(&pc, o, 1, &mut offs) else { return };
        self.carve("CommitMessageDescription", &pc[o..]);
    }

    fn sub_prior_epoch(&mut self, pe: &[u8]) {
        // PriorEpoch = GroupContext || self_index u32 || EpochSecrets || ..
        if let Some(c) = self.carve("GroupContext", pe) {
            if pe.len() > c + 4 {
                self.carve("EpochSecrets", &pe[c + 4..]);
            }
        }
    }
}

// ---------------------------------------------------------------------------------------------
// harvest hooks over honest histories
// ---------------------------------------------------------------------------------------------

struct Harvest<'a> {
    st: &'a mut St,
    round_props: Vec<MlsMessage>,
}

fn ext_snapshot(w: &World, member: usize, props: &[MlsMessage]) -> Option<Vec<u8>> {
    use mls_rs::external_client::ExternalClient;
    use mls_rs_core::extension::ExtensionType;
    use mls_rs_core::group::ProposalType;
    let gi = w.g(member).group_info_message(true).ok()?;
    let crypto = crate::anycrypto::AnyCrypto::new(w.parties[member].prov);
    let client = ExternalClient::builder()
        .crypto_provider(crypto)
        .identity_provider(w.parties[member].ident.clone())
        .extension_types([ExtensionType::new(EXT_A), ExtensionType::new(EXT_B)])
        .custom_proposal_types([ProposalType::new(CUSTOM_PROP), ProposalType::new(CUSTOM_PROP_PATH)])
        .build();
    let mut g = client.observe_group(gi, None, None).ok()?;
    for p in props {
        let _ = g.process_incoming_message(p.clone());
    }
    g.snapshot().to_bytes().ok()
}

impl<'a> Harvest<'a> {
    fn member_state(&mut self, w: &mut World, i: usize) {
        let st = &mut *self.st;
        if let Ok(b) = w.g(i).export_tree().to_bytes() {
            st.harvest("NodeVec", &b);
        }
        if let Ok(b) = vh::snapshot_bytes(w.g(i)) {
            st.harvest("Snapshot", &b);
        }
        if let Ok(b) = w.g(i).context().mls_encode_to_vec() {
            if st.harvest("GroupContext", &b) {
                st.sub_group_context(&b);
            }
        }
        for cp in w.g(i).get_cached_proposals() {
            if let Ok(b) = cp.to_bytes() {
                st.harvest("CachedProposal", &b);
            }
        }
        let rv = vh::repo_view(w.g(i));
        for r in rv.inserts.iter().chain(rv.updates.iter()) {
            if let Ok(b) = r.to_bytes() {
                if st.harvest("PriorEpoch", &b) {
                    st.sub_prior_epoch(&b);
                }
            }
        }
        if let Ok(ev) = vh::epoch_view(w.g(i)) {
            st.harvest("SecretTree", &ev.secret_tree_bytes);
        }
    }
}

impl<'a> Hooks for Harvest<'a> {
    fn epoch_start(&mut self, _w: &mut World) {
        self.round_props.clear();
    }

    fn on_message(&mut self, _w: &mut World, kind: &'static str, _from: usize, msg: &MlsMessage) {
        self.st.out.cov.bump(&format!("msg:{kind}"));
        self.st.harvest_message(msg);
        if kind == "proposal" {
            self.round_props.push(msg.clone());
        }
    }

    fn after_build(&mut self, _w: &mut World, _who: usize, out: &mls_rs::group::CommitOutput) {
        // racers' outputs, including those that will lose
        self.st.harvest_message(&out.commit_message);
        for m in &out.welcome_messages {
            self.st.harvest_message(m);
        }
        if let Some(gi) = &out.external_commit_group_info {
            self.st.harvest_message(gi);
        }
        if let Some(t) = &out.ratchet_tree {
            if let Ok(b) = t.to_bytes() {
                self.st.harvest("NodeVec", &b);
            }
        }
    }

    fn before_commit(&mut self, w: &mut World) {
        // proposal caches are full here: member state with cached proposals, a detached commit
        // (PendingCommit with applied proposals), an external observer's snapshot
        let act = w.active();
        if act.is_empty() {
            return;
        }
        for i in act.clone() {
            for cp in w.g(i).get_cached_proposals() {
                if let Ok(b) = cp.to_bytes() {
                    self.st.harvest("CachedProposal", &b);
                }
            }
        }
        let i = act[w.rng.below(act.len())];
        if let Ok(b) = vh::snapshot_bytes(w.g(i)) {
            self.st.harvest("Snapshot", &b);
        }
        if w.rng.chance(2, 3) {
            let g = w.gm(i);
            match guarded(|| g.commit_builder().build_detached()) {
                Ok(Ok((out, secrets))) => {
                    self.st.out.cov.bump("detached_commit");
                    self.st.harvest_message(&out.commit_message);
                    for m in &out.welcome_messages {
                        self.st.harvest_message(m);
                    }
                    if let Ok(b) = secrets.to_bytes() {
                        if self.st.harvest(COMMIT_SECRETS, &b) {
                            self.st.sub_commit_secrets(&b);
                        }
                    }
                }
                Ok(Err(e)) => self.st.out.cov.bump(&format!("detached_commit_err:{}", err_kind(&e))),
                Err(p) => self.st.out.cov.bump(&format!("detached_commit_panic:{}", p.chars().take(60).collect::<String>())),
            }
        }
        if w.rng.chance(1, 2) {
            let props = self.round_props.clone();
            match guarded(|| ext_snapshot(w, i, &props)) {
                Ok(Some(b)) => {
                    self.st.harvest(EXT_SNAP, &b);
                }
                Ok(None) => self.st.out.cov.bump("ext_snapshot_unavailable"),
                Err(_) => self.st.out.cov.bump("ext_snapshot_panic"),
            }
        }
    }

    fn after_commit(&mut self, w: &mut World, info: &RoundInfo) {
        for i in w.active() {
            self.member_state(w, i);
        }
        self.st.harvest("NodeVec", &info.old_tree);
        self.st.harvest("NodeVec", &info.new_tree);
        for kp in &info.added_kps {
            if self.st.harvest("KeyPackage", kp) {
                self.st.sub_key_package(kp);
            }
        }
        let kps: Vec<MlsMessage> = w.parties.iter().flat_map(|p| p.key_packages.iter().cloned()).collect();
        for kp in &kps {
            self.st.harvest_message(kp);
        }
        // a GroupInfo per epoch, with and without the tree extension
        let act = w.active();
        if let Some(i) = act.first().copied() {
            let with_tree = w.rng.chance(1, 2);
            if let Ok(gi) = w.g(i).group_info_message(with_tree) {
                self.st.harvest_message(&gi);
            }
        }
    }
}

fn harvest_histories(st: &mut St, a: &Args, histories: u64, rounds: usize) {
    for h in 0..histories {
        if let Some(only) = super::only_history() {
            if only != h {
                continue;
            }
        }
        let mut rng = Rng::derive(a.seed, "C12", a.shard * 10_000 + h);
        let mut cfg = WorldCfg::draw(&mut rng, a.thorough);
        if h == 0 {
            // at least one history per shard with readable handshake messages, so that Commit,
            // Proposal, UpdatePath, … can be carved out of PublicMessages
            cfg.encrypt_controls = false;
        }
        let mut w = World::new(cfg.clone(), rng, "C12");
        let n0 = w.rng.range(2, cfg.max_members.min(8));
        let dc = DriveCfg::default();
        let res = {
            let mut hooks = Harvest { st, round_props: vec![] };
            let mut res = w.bootstrap(n0, &mut hooks);
            if res.is_ok() {
                for _ in 0..rounds {
                    if let Err(e) = w.round(&dc, &mut hooks) {
                        res = Err(e);
                        break;
                    }
                }
            }
            res
        };
        if let Err(e) = res {
            // not a codec event: other properties own what goes wrong in a history
            st.out.cov.bump("history_aborted");
            st.out.cov.bump(&format!("history_aborted:{}", e.chars().take(60).collect::<String>()));
        }
        st.out.cov.bump("histories");
        st.out.cov.add("commit_accepted", w.out.cov.get("commit_accepted"));
        // events the world driver files under its current property name are protocol-level and
        // belong to other properties; only counted here
        for v in w.out.violations.drain(..) {
            st.out.cov.bump(&format!("world_event:{}", v.sig.chars().take(60).collect::<String>()));
        }
        st.out.cov.bump(&format!("suite:{}", cfg.suite));
    }
}

// ---------------------------------------------------------------------------------------------
// hostile byte strings
// ---------------------------------------------------------------------------------------------

const INTERESTING: &[u8] = &[0x00, 0x01, 0x02, 0x03, 0x3f, 0x40, 0x7f, 0x80, 0xbf, 0xc0, 0xff];

fn mutate(rng: &mut Rng, seed: &[u8], other: &[u8]) -> Vec<u8> {
    let mut b = seed.to_vec();
    for _ in 0..rng.range(1, 3) {
        if b.is_empty() {
            b.push(rng.next() as u8);
            continue;
        }
        let n = b.len();
        // bias towards the head of the blob, where the structure is densest
        let pos = |rng: &mut Rng| if rng.chance(1, 2) { rng.below(n.min(96)) } else { rng.below(n) };
        match rng.below(8) {
            0 => {
                let p = pos(rng);
                b[p] ^= 1 << rng.below(8);
            }
            1 => {
                let p = pos(rng);
                b[p] = if rng.chance(1, 2) { INTERESTING[rng.below(INTERESTING.len())] } else { rng.next() as u8 };
            }
            2 => {
                let p = pos(rng);
                let l = rng.range(1, (n - p).min(40));
                b.drain(p..p + l);
            }
            3 => {
                let p = pos(rng);
                let l = rng.range(1, (n - p).min(64));
                let dup = b[p..p + l].to_vec();
                let at = pos(rng);
                b.splice(at..at, dup);
            }
            4 if !other.is_empty() => {
                let p = rng.below(other.len());
                let l = rng.range(1, (other.len() - p).min(96));
                let at = pos(rng);
                if rng.chance(1, 2) {
                    b.splice(at..at, other[p..p + l].iter().copied());
                } else {
                    let end = (at + l).min(n);
                    b.splice(at..end, other[p..p + l].iter().copied());
                }
            }
            5 => {
                let k = rng.below(n);
                b.truncate(k);
            }
            6 => {
                let at = pos(rng);
                let l = rng.range(1, 8);
                let ins = rng.bytes(l);
                b.splice(at..at, ins);
            }
            _ => {
                // 16-bit field stomp
                let p = pos(rng);
                if p + 1 < n {
                    let v: u16 = match rng.below(4) {
                        0 => 0,
                        1 => 0xffff,
                        2 => 0x0a0a,
                        _ => rng.next() as u16,
                    };
                    b[p] = (v >> 8) as u8;
                    b[p + 1] = v as u8;
                }
            }
        }
        if b.len() > MAX_INPUT {
            b.truncate(MAX_INPUT);
        }
    }
    b
}

/// A plausible seed for kinds that no history produced (hand-built from the struct layouts).
fn synthetic_seeds(kind: &str, rng: &mut Rng) -> Vec<Vec<u8>> {
    let bv = |rng: &mut Rng, n: usize| {
        let mut v = varint_min(n);
        v.extend(rng.bytes(n));
        v
    };
    match kind {
        "Sender" => vec![vec![1, 0, 0, 0, 5], vec![2, 0, 0, 0, 1], vec![3], vec![4]],
        "KeySchedule" => {
            let mut v = vec![];
            for _ in 0..5 {
                v.extend(bv(rng, 32));
            }
            vec![v]
        }
        "GroupSecrets" => {
            let mut a = bv(rng, 32);
            a.extend([0u8, 0]);
            let mut b = bv(rng, 32);
            b.push(1);
            b.extend(bv(rng, 32));
            // one external psk id
            let mut psk = vec![1u8];
            psk.extend(bv(rng, 8));
            psk.extend(bv(rng, 32));
            b.extend(varint_min(psk.len()));
            b.extend(psk);
            vec![a, b]
        }
        "PreSharedKeyID" => {
            let mut e = vec![1u8];
            e.extend(bv(rng, 8));
            e.extend(bv(rng, 32));
            let mut r = vec![2u8, 1];
            r.extend(bv(rng, 16));
            r.extend(7u64.to_be_bytes());
            r.extend(bv(rng, 32));
            vec![e, r]
        }
        "TreeKemPrivate" => {
            let mut v = vec![0, 0, 0, 1];
            let mut body = vec![1u8];
            body.extend(bv(rng, 32));
            body.push(0);
            body.push(1);
            body.extend(bv(rng, 32));
            v.extend(varint_min(body.len()));
            v.extend(body);
            vec![v]
        }
        _ => vec![],
    }
}

struct Budget {
    random_short: usize,
    random_long: usize,
    mutated: usize,
    truncated: usize,
    len_oversize: usize,
    len_nonminimal: usize,
    discriminant: usize,
    fill: usize,
    targeted_seeds: usize,
}

fn hostile_kind(st: &mut St, kind: &'static str, b: &Budget) {
    // (a) random byte strings
    for i in 0..b.random_short + b.random_long {
        let n = if i < b.random_short { st.rng.below(65) } else { st.rng.range(65, 4096) };
        let mut bytes = st.rng.bytes(n);
        // half of the long ones get a header that lets them past the first discriminants
        if i >= b.random_short && st.rng.chance(1, 2) {
            if let Some(s) = st.pick_seed(kind) {
                let k = st.rng.range(1, s.len().min(12).max(1)).min(s.len()).min(bytes.len());
                bytes[..k].copy_from_slice(&s[..k]);
            }
        }
        st.judge(kind, if i < b.random_short { "random_short" } else { "random_long" }, &bytes, Expect::Any);
    }
    let have_seeds = st.pick_seed(kind).is_some();
    if !have_seeds {
        st.out.cov.bump(&format!("no_seed:{kind}"));
        return;
    }
    // (b) mutated-valid
    for _ in 0..b.mutated {
        let s = st.pick_seed(kind).unwrap();
        // splice donor: same kind, or any other kind
        let donor = if st.rng.chance(2, 3) {
            st.pick_seed(kind).unwrap()
        } else {
            let kinds = all_kinds();
            let k2 = kinds[st.rng.below(kinds.len())];
            st.pick_seed(k2).unwrap_or_default()
        };
        let m = mutate(&mut st.rng, &s, &donor);
        st.judge(kind, "mutated", &m, Expect::Any);
    }
    // truncations: every offset of one short seed, random offsets of others
    {
        let short = {
            let mut best: Option<Vec<u8>> = None;
            for m in [&st.harv, &st.seeds] {
                if let Some(v) = m.get(kind) {
                    for s in v {
                        if best.as_ref().map(|b| s.len() < b.len()).unwrap_or(true) {
                            best = Some(s.clone());
                        }
                    }
                }
            }
            best.unwrap()
        };
        let every = short.len().min(b.truncated);
        let step = (short.len() / every.max(1)).max(1);
        let mut k = 0;
        while k < short.len() {
            st.judge(kind, "truncated", &short[..k], Expect::Any);
            k += step;
        }
        for _ in 0..b.truncated {
            let s = st.pick_seed(kind).unwrap();
            let k = st.rng.below(s.len().max(1));
            st.judge(kind, "truncated", &s[..k], Expect::Any);
        }
    }
    // (c) length-prefix attacks at random offsets (and, half of the time, at a real prefix)
    for i in 0..b.len_oversize + b.len_nonminimal {
        let s = st.pick_seed(kind).unwrap();
        if s.is_empty() {
            continue;
        }
        let known = prefix_offsets(kind, &s);
        let o = if !known.is_empty() && st.rng.chance(1, 2) {
            known[st.rng.below(known.len())]
        } else if st.rng.chance(1, 2) {
            st.rng.below(s.len().min(64))
        } else {
            st.rng.below(s.len())
        };
        let cur = varint_at(&s, o);
        let plen = cur.map(|c| c.1).unwrap_or(1).min(s.len() - o);
        let rest = s.len() - o - plen;
        if i < b.len_oversize {
            let with: Vec<u8> = match st.rng.below(7) {
                0 => vec![0xbf, 0xff, 0xff, 0xff],
                1 => vec![0x7f, 0xff],
                2 => varint_min(rest + 1),
                3 => varint_min(rest + st.rng.range(1, 70_000)),
                4 => varint_enc(0x0100_0000 + st.rng.below(0x3e00_0000), 4),
                5 => vec![0xc0 | (st.rng.next() as u8 & 0x3f)], // reserved prefix 0b11
                _ => varint_min(rest),                          // swallows everything that follows
            };
            let m = splice_prefix(&s, o, plen, &with);
            st.judge(kind, "len_oversize", &m, Expect::Any);
        } else {
            let v = cur.map(|c| c.0).unwrap_or(st.rng.below(64));
            let forms = varint_nonminimal(v);
            if forms.is_empty() {
                continue;
            }
            let with = forms[st.rng.below(forms.len())].clone();
            let m = splice_prefix(&s, o, plen, &with);
            st.judge(kind, "len_nonminimal", &m, Expect::Any);
        }
    }
    // (d) discriminants at offsets 0..8 (one byte and two byte)
    {
        let mut done = 0;
        'outer: loop {
            let s = st.pick_seed(kind).unwrap();
            for o in 0..8.min(s.len()) {
                let vals: [u16; 6] = [0, 0xff, 0x0a, st.rng.range(2, 12) as u16, 0xffff, st.rng.next() as u16];
                let v = vals[st.rng.below(vals.len())];
                let mut m = s.clone();
                if v > 0xff && o + 1 < m.len() {
                    m[o] = (v >> 8) as u8;
                    m[o + 1] = v as u8;
                } else {
                    m[o] = v as u8;
                }
                st.judge(kind, "discriminant", &m, Expect::Any);
                done += 1;
                if done >= b.discriminant {
                    break 'outer;
                }
            }
            if s.is_empty() {
                break;
            }
        }
    }
    // amplification: a correct header followed by a long run of one byte value behind a length
    // prefix that covers it (many minimal-size elements)
    for _ in 0..b.fill {
        let s = st.pick_seed(kind).unwrap();
        let known = prefix_offsets(kind, &s);
        let o = if known.is_empty() { 0 } else { known[st.rng.below(known.len())] };
        let l = [63usize, 1000, 16383, 16384, 65_000][st.rng.below(5)];
        let fillb = [0u8, 1, 2, 0xff, 0x40][st.rng.below(5)];
        let mut m = s[..o.min(s.len())].to_vec();
        m.extend(varint_min(l));
        m.extend(std::iter::repeat(fillb).take(l));
        if st.rng.chance(1, 2) {
            if let Some((v, p)) = varint_at(&s, o) {
                m.extend_from_slice(&s[(o + p + v).min(s.len())..]);
            }
        }
        st.judge(kind, "fill", &m, Expect::Any);
    }
    // targeted must-fail oracles on library-produced blobs (and decodable seeds): length prefixes
    // at known offsets of mandatory top-level fields
    let mut done = 0;
    for attempt in 0..b.targeted_seeds * 4 {
        if done >= b.targeted_seeds {
            break;
        }
        let s = st.pick_seed(kind).unwrap();
        let offs = prefix_offsets(kind, &s);
        if offs.is_empty() {
            if attempt == 0 && prefix_offsets(kind, &[]).is_empty() && !matches!(kind, "MlsMessage" | "PreSharedKeyID" | COMMIT_SECRETS) {
                // no table entry for this kind at all
                st.out.cov.bump(&format!("targeted_no_offsets:{kind}"));
                break;
            }
            continue;
        }
        done += 1;
        // the blob itself must be valid, else "must fail" proves nothing
        let (ok, consumed) = st.judge(kind, "targeted_base", &s, Expect::Any);
        if !ok || (kind != COMMIT_SECRETS && consumed != s.len()) {
            continue;
        }
        for &o in &offs {
            let Some((v, p)) = varint_at(&s, o) else { continue };
            for form in varint_nonminimal(v) {
                let m = splice_prefix(&s, o, p, &form);
                st.judge(kind, "targeted_nonminimal", &m, Expect::MustFailNonMinimal);
                st.out.cov.bump("targeted_nonminimal");
            }
            // the prefix claims more than what is left in the input
            let rest = s.len() - o - p;
            let mut claims = vec![rest + 1, rest + 1 + st.rng.below(5000), 0x3fff_ffff];
            if rest < 16383 {
                claims.push(16383);
            }
            for claim in claims {
                let m = splice_prefix(&s, o, p, &varint_min(claim));
                st.judge(kind, "targeted_overreach", &m, Expect::MustFailOverreach);
                st.out.cov.bump("targeted_overreach");
            }
            // the input ends inside the field the prefix announces
            if v > 0 {
                let cut = o + p + st.rng.below(v);
                st.judge(kind, "targeted_overreach", &s[..cut], Expect::MustFailOverreach);
                st.out.cov.bump("targeted_overreach");
            }
        }
    }
}

// ---------------------------------------------------------------------------------------------
// structurally generated values
// ---------------------------------------------------------------------------------------------

fn arbitrary_values(st: &mut St, per_kind: usize) {
    for kind in ARBITRARY_KINDS {
        for _ in 0..per_kind {
            let n = st.rng.range(16, 2048);
            let entropy = st.rng.bytes(n);
            let r = guarded(|| vh::arbitrary_encode(kind, &entropy));
            let (bytes, reported) = match r {
                Ok(Some(x)) => x,
                Ok(None) => {
                    st.out.cov.bump(&format!("arbitrary_none:{kind}"));
                    continue;
                }
                Err(p) => {
                    if panic_in_repo(&p) {
                        let loc = p.split(": ").next().unwrap_or("").to_string();
                        st.out.violate(
                            "C12",
                            format!("C12|panic|encode:{kind}|{loc}"),
                            format!("encoding an arbitrary {kind} panicked: {p}; entropy={}", hx(&entropy)),
                        );
                    } else {
                        st.out.inconclusive.push(format!("harness panic in arbitrary_encode {kind}: {p}"));
                    }
                    continue;
                }
            };
            st.out.cov.bump(&format!("arbitrary:{kind}"));
            st.out.cov.eval(Some(fnv(format!("{kind}|arbitrary_len|{}", reported == bytes.len()).as_bytes())));
            if reported != bytes.len() {
                st.out.violate(
                    "C12",
                    format!("C12|encoded_len|{kind}|arbitrary"),
                    format!("arbitrary {kind}: mls_encoded_len reports {reported}, encoder wrote {}; bytes={} entropy={}", bytes.len(), hx(&bytes), hx(&entropy)),
                );
            }
            let (ok, consumed) = st.judge(kind, "arbitrary", &bytes, Expect::Any);
            if ok {
                st.out.cov.bump("arbitrary_decodes");
                if consumed == bytes.len() {
                    st.keep(kind, &bytes, false);
                    // a by-value proposal is a Proposal behind a one-byte tag
                    if *kind == "ProposalOrRef" && bytes.first() == Some(&1) {
                        st.keep("Proposal", &bytes[1..], false);
                    }
                }
            } else {
                st.out.cov.bump("arbitrary_does_not_decode");
            }
        }
    }
}

pub fn run(a: &Args) -> ShardOut {
    watch_start(a.out.clone());
    let rng = Rng::derive(a.seed, "C12", a.shard);
    let mut st = St::new(rng);
    if !st.alloc_on {
        st.out.inconclusive.push("counting allocator is not the global allocator: memory clause not monitored".into());
    }
    let scale = if a.thorough { 100 } else { 4 };
    let (histories, rounds) = if a.thorough { (40, 30) } else { (4, 15) };

    // 1. harvest
    let t0 = Instant::now();
    harvest_histories(&mut st, a, histories, rounds);
    let t_harvest = t0.elapsed().as_secs_f64();

    // 4. (before 2, so that decodable generated values serve as seeds for kinds without harvest)
    let t0 = Instant::now();
    arbitrary_values(&mut st, 192 * scale);
    let t_arbitrary = t0.elapsed().as_secs_f64();

    for kind in all_kinds() {
        let have = st.harv.get(kind).map(|v| !v.is_empty()).unwrap_or(false);
        if !have {
            let mut r = st.rng.clone();
            for s in synthetic_seeds(kind, &mut r) {
                let (ok, c) = st.judge(kind, "synthetic_seed", &s, Expect::Any);
                if ok && c == s.len() {
                    st.keep(kind, &s, false);
                }
            }
        }
    }

    // 2. + 3. hostile bytes under the allocation / time monitors
    let t0 = Instant::now();
    let b = Budget {
        random_short: 150 * scale,
        random_long: 24 * scale,
        mutated: 300 * scale,
        truncated: 60 * scale,
        len_oversize: 80 * scale,
        len_nonminimal: 50 * scale,
        discriminant: 48 * scale,
        fill: 16 * scale,
        targeted_seeds: 6 * scale,
    };
    for kind in all_kinds() {
        hostile_kind(&mut st, kind, &b);
    }
    let t_hostile = t0.elapsed().as_secs_f64();

    let corpus: BTreeMap<String, (usize, usize)> = all_kinds()
        .iter()
        .map(|k| {
            (
                k.to_string(),
                (
                    st.harv.get(k).map(|v| v.len()).unwrap_or(0),
                    st.seeds.get(k).map(|v| v.len()).unwrap_or(0),
                ),
            )
        })
        .collect();
    st.out.extra.insert(
        "c12".into(),
        json!({
            "alloc_monitor": st.alloc_on,
            "wall_harvest_s": t_harvest, "wall_arbitrary_s": t_arbitrary, "wall_hostile_s": t_hostile,
            "corpus_harvested_and_seeds_per_kind": corpus,
            "worst_alloc_ratio_bytes_per_input_byte": st.worst_ratio,
            "worst_alloc_ratio_at": st.worst_ratio_at,
        }),
    );
    st.out
}
