//! C17 — re-init and branch keep the membership rules and the link to the old group.
//!
//! Old-group histories end in random shapes; then a re-init or a branch is attempted with member
//! sets chosen by the harness (equal, strict subset, superset, one identity replaced, permuted
//! order) and the outcome is compared with the verdict known by construction. Successor members
//! run an agreement check and one more commit; mismatched joins must fail.

use mls_rs::group::verif_hooks as vh;
use mls_rs::group::{CommitEffect, ReceivedMessage};
use mls_rs::identity::basic::BasicCredential;
use mls_rs::identity::SigningIdentity;
use mls_rs::{CipherSuite, CipherSuiteProvider, ExtensionList, MlsMessage, ProtocolVersion};
use mls_rs_core::extension::{Extension, ExtensionType};
use serde_json::json;

use super::Args;
use crate::anycrypto::AnyCrypto;
use crate::driver::*;
use crate::util::*;
use crate::world::*;

fn ek<E: std::fmt::Debug>(e: &E) -> String {
    err_kind(e).split('/').next().unwrap_or("").to_string()
}

pub fn run(a: &Args) -> ShardOut {
    let mut total = ShardOut::default();
    let cases = if a.thorough { 600 } else { 80 };
    for h in 0..cases {
        if let Some(only) = super::only_history() {
            if only != h {
                continue;
            }
        }
        let mut rng = Rng::derive(a.seed, "C17", a.shard * 10_000 + h);
        let mut cfg = WorldCfg::draw(&mut rng, a.thorough);
        cfg.max_members = cfg.max_members.clamp(4, 9);
        cfg.allow_external_commit = false;
        let mut w = World::new(cfg.clone(), rng, "C17");
        let r = case(&mut w, h);
        if let Err(e) = r {
            if e.contains("PANIC") && panic_in_repo(&e) {
                w.violate(format!("C17|panic|{}", e.chars().take(90).collect::<String>()), e);
            } else {
                w.out.inconclusive.push(format!("case {h}: {e}"));
            }
        }
        w.out.cov.bump("cases");
        w.out.cov.sample(json!({"cfg": cfg.to_json(), "last_ops": w.script.iter().rev().take(10).rev().cloned().collect::<Vec<_>>()}));
        total.cov.merge(&w.out.cov);
        total.violations.extend(w.out.violations.drain(..));
        total.inconclusive.extend(w.out.inconclusive.drain(..));
    }
    total
}

fn agree(w: &mut World, gs: &[(usize, VGroup)], what: &str) {
    let probes = vec![(b"c17".to_vec(), b"x".to_vec(), 32usize)];
    let mut reference: Option<Obs> = None;
    for (i, g) in gs {
        match observe(g, &probes) {
            Ok(o) => match &reference {
                None => reference = Some(o),
                Some(r) => {
                    let d = obs_diff(r, &o);
                    w.out.cov.bump("successor_agreement_checked");
                    if !d.is_empty() {
                        w.violate(format!("C17|successor_members_disagree|{what}|{}", d.join("+")), format!("member {i}: {d:?}"));
                    }
                }
            },
            Err(e) => w.violate(format!("C17|observe_failed|{what}"), format!("member {i}: {e}")),
        }
    }
}

/// one more commit in the successor: everybody accepts and still agrees
fn one_more_commit(w: &mut World, gs: &mut Vec<(usize, VGroup)>, what: &str) {
    if gs.len() < 2 {
        return;
    }
    let out = {
        let g = &mut gs[0].1;
        guarded(|| g.commit(vec![]))
    };
    let out = match out {
        Ok(Ok(o)) => o,
        Ok(Err(e)) => {
            w.violate(format!("C17|successor_cannot_commit|{what}|{}", ek(&e)), format!("{e:?}"));
            return;
        }
        Err(p) => {
            w.violate(format!("C17|panic|successor_commit|{what}"), p);
            return;
        }
    };
    {
        let g = &mut gs[0].1;
        let _ = guarded(|| g.apply_pending_alt());
    }
    for (i, g) in gs.iter_mut().skip(1) {
        let m = out.commit_message.clone();
        match guarded(|| g.process_incoming_message(m)) {
            Ok(Ok(_)) => w.out.cov.bump("successor_commit_accepted"),
            Ok(Err(e)) => w.violate(format!("C17|successor_commit_rejected|{what}|{}", ek(&e)), format!("member {i}: {e:?}")),
            Err(p) => w.violate(format!("C17|panic|successor_commit_receive|{what}"), p),
        }
    }
    agree(w, gs, what);
}

fn case(w: &mut World, h: u64) -> Result<(), String> {
    let n0 = w.rng.range(3, w.cfg.max_members.min(7));
    w.bootstrap(n0, &mut NoHooks)?;
    let dc = DriveCfg {
        bias_remove: 4,
        p_identity_change: (1, 5),
        ..DriveCfg::default()
    };
    let rounds = w.rng.range(1, 7);
    for _ in 0..rounds {
        w.round(&dc, &mut NoHooks)?;
    }
    let act = w.active();
    if act.len() < 3 {
        return Ok(());
    }
    for s in super::tree_shapes(&w.g(act[0]).export_tree().to_bytes().unwrap_or_default()) {
        w.out.cov.bump(&format!("old_shape:{s}"));
    }
    for i in w.active() {
        w.gm(i).clear_proposal_cache();
        w.gm(i).clear_pending_commit();
    }
    if h % 3 == 2 {
        branch_case(w)
    } else {
        reinit_case(w)
    }
}

fn reinit_case(w: &mut World) -> Result<(), String> {
    let act = w.active();
    let c = act[w.rng.below(act.len())];
    let old_suite = w.cfg.suite;
    // parameter changes: group id always, extensions and suite sometimes (a suite with another
    // signature scheme needs new signers, which get_reinit_client takes)
    let candidates: Vec<u16> = [1u16, 2, 3, 5, 7]
        .into_iter()
        .filter(|s| w.cfg.provs.iter().all(|p| p.suites().contains(s)))
        .collect();
    let new_suite = if w.rng.chance(1, 2) { old_suite } else { candidates[w.rng.below(candidates.len())] };
    let new_gid = w.rng.bytes(12);
    let mut new_ext = ExtensionList::new();
    if w.rng.chance(1, 2) {
        new_ext.set(Extension::new(ExtensionType::new(EXT_A), w.rng.bytes(4)));
    }
    // sometimes the successor keeps suite and extensions: then only the PSK binding tells a
    // re-init Welcome from a branch Welcome of the same old epoch
    let old_ext = w.g(c).context().extensions.clone();
    if w.rng.chance(1, 3) {
        new_ext = old_ext.clone();
    }
    w.log(json!({"op":"reinit","by":c,"new_suite":new_suite}));
    let out = {
        let (gid, ext) = (new_gid.clone(), new_ext.clone());
        let g = w.gm(c);
        guarded(move || {
            g.commit_builder()
                .reinit(Some(gid), ProtocolVersion::MLS_10, CipherSuite::from(new_suite), ext)?
                .build()
        })
    };
    let out = match out {
        Ok(Ok(o)) => o,
        Ok(Err(e)) => return Err(format!("reinit commit build: {e:?}")),
        Err(p) => return Err(format!("PANIC in reinit commit build: {p}")),
    };
    // an insider copy that ignores the freeze, taken before anybody processes the re-init
    let insider_src = act.iter().copied().find(|i| *i != c);
    {
        let g = w.gm(c);
        match guarded(|| g.apply_pending_alt()) {
            Ok(Ok(d)) if matches!(d.effect, CommitEffect::ReInit(_)) => {}
            Ok(Ok(_)) => w.violate("C17|reinit_commit_effect_missing|committer", format!("member {c}")),
            Ok(Err(e)) => return Err(format!("apply reinit commit: {e:?}")),
            Err(p) => return Err(format!("PANIC applying reinit commit: {p}")),
        }
    }
    for to in act.iter().copied().filter(|i| *i != c) {
        match w.deliver(to, &out.commit_message) {
            Ok(ReceivedMessage::Commit(d)) if matches!(d.effect, CommitEffect::ReInit(_)) => {}
            Ok(_) => w.violate("C17|reinit_commit_effect_missing|receiver", format!("member {to}")),
            Err(e) => return Err(format!("honest reinit commit rejected by {to}: {e}")),
        }
    }
    // old group frozen: nobody builds or accepts a further commit
    let forged = insider_src.and_then(|i| {
        let mut ig = w.g(i).clone();
        vh::clear_pending_reinit(&mut ig);
        guarded(|| ig.commit(vec![])).ok().and_then(|r| r.ok()).map(|o| (i, o.commit_message))
    });
    for i in act.iter().copied() {
        w.out.cov.eval(Some(fnv(b"freeze_build")));
        let mut g = w.g(i).clone();
        match guarded(|| g.commit(vec![]).map(|_| ())) {
            Ok(Err(_)) => w.out.cov.bump("old_group_refuses_to_commit"),
            Ok(Ok(())) => w.violate("C17|old_group_commits_after_reinit", format!("member {i} built a commit after the re-init commit")),
            Err(p) => w.violate("C17|panic|commit_after_reinit", p),
        }
        if let Some((src, m)) = &forged {
            if *src != i {
                let mut g = w.g(i).clone();
                let mm = m.clone();
                w.out.cov.eval(Some(fnv(b"freeze_receive")));
                match guarded(|| g.process_incoming_message(mm)) {
                    Ok(Err(_)) => w.out.cov.bump("old_group_refuses_commit_after_reinit"),
                    Ok(Ok(_)) => w.violate("C17|old_group_accepts_commit_after_reinit", format!("member {i} accepted a commit of member {src} after the re-init commit")),
                    Err(p) => w.violate("C17|panic|receive_after_reinit", p),
                }
            }
        }
    }
    // successor: every old member gets a re-init client (new signer when the scheme changes)
    let scheme = |s: u16| match s {
        1 | 3 => 0,
        2 => 1,
        4 | 6 => 2,
        5 => 3,
        _ => 4,
    };
    let need_new_keys = scheme(new_suite) != scheme(old_suite);
    let mut clients = vec![];
    for &i in &act {
        let g = w.parties[i].group.take().expect("group");
        let keys = if need_new_keys {
            let cs = AnyCrypto::new(w.parties[i].prov).suite(new_suite).ok_or("suite")?;
            let (sk, pk) = cs.signature_key_generate().map_err(|e| format!("{e:?}"))?;
            let si = SigningIdentity::new(BasicCredential::new(w.parties[i].name.clone()).into_credential(), pk);
            (Some(sk), Some(si))
        } else {
            (None, None)
        };
        // keep a copy for the negative cases
        w.parties[i].former.push((0, g.clone()));
        match guarded(move || g.get_reinit_client(keys.0, keys.1)) {
            Ok(Ok(rc)) => clients.push((i, rc)),
            Ok(Err(e)) => {
                w.violate(format!("C17|member_cannot_get_reinit_client|{}", ek(&e)), format!("member {i}: {e:?}"));
                return Ok(());
            }
            Err(p) => return Err(format!("PANIC in get_reinit_client: {p}")),
        }
        w.parties[i].status = Status::Outside;
    }
    // key packages of everybody but the creator
    let creator_pos = w.rng.below(clients.len());
    let mut kps: Vec<(usize, MlsMessage)> = vec![];
    for (k, (i, rc)) in clients.iter().enumerate() {
        if k == creator_pos {
            continue;
        }
        match guarded(|| rc.generate_key_package(None)) {
            Ok(Ok(kp)) => kps.push((*i, kp)),
            Ok(Err(e)) => return Err(format!("reinit key package: {e:?}")),
            Err(p) => return Err(format!("PANIC in reinit key package: {p}")),
        }
    }
    w.rng.shuffle(&mut kps); // successor leaf order differs from the old one
    // member-set variants with the verdict known by construction
    let variant = ["equal", "equal", "strict_subset", "superset", "replaced_identity"][w.rng.below(5)];
    let mut used: Vec<MlsMessage> = kps.iter().map(|k| k.1.clone()).collect();
    let stranger_kp = |w: &mut World| -> Option<MlsMessage> {
        let id = w.parties.len();
        let name = format!("stranger{id}").into_bytes();
        let prov = w.cfg.provs[0];
        let saved = w.cfg.suite;
        w.cfg.suite = new_suite;
        let p = w.new_party_with(id, name, prov, None);
        let kp = w.key_package(p).ok();
        w.cfg.suite = saved;
        kp
    };
    let expect_ok = match variant {
        "strict_subset" => {
            if used.is_empty() {
                return Ok(());
            }
            used.pop();
            false
        }
        "superset" => {
            let Some(kp) = stranger_kp(w) else { return Ok(()) };
            used.push(kp);
            false
        }
        "replaced_identity" => {
            if used.is_empty() {
                return Ok(());
            }
            let Some(kp) = stranger_kp(w) else { return Ok(()) };
            used.pop();
            used.push(kp);
            false
        }
        _ => true,
    };
    // the verdict is computed from the identities, not from the variant's name: the old roster
    // may contain members that are not active parties of the harness (a leaf whose owner never
    // managed to join, or one that got stuck)
    let old_names: std::collections::BTreeSet<Vec<u8>> = {
        let (_, og) = w.parties[clients[creator_pos].0].former.last().expect("old group");
        og.roster()
            .members_iter()
            .filter_map(|m| m.signing_identity.credential.as_basic().map(|b| b.identifier.clone()))
            .collect()
    };
    let mut new_names: std::collections::BTreeSet<Vec<u8>> = used
        .iter()
        .filter_map(|k| k.as_key_package().and_then(|kp| kp.signing_identity().credential.as_basic().map(|b| b.identifier.clone())))
        .collect();
    new_names.insert(w.parties[clients[creator_pos].0].name.clone());
    let expect_ok = expect_ok && new_names == old_names;
    if new_names != old_names && variant == "equal" {
        w.out.cov.bump("reinit_equal_variant_degraded_by_inactive_member");
    }
    w.log(json!({"op":"reinit_successor","variant":variant,"members":used.len() + 1}));
    w.out.cov.eval(Some(fnv(format!("reinit|{variant}|{need_new_keys}|{}|{}", used.len().min(8), w.cfg.suite).as_bytes())));
    w.out.cov.bump(&format!("reinit_variant:{variant}"));
    let (ci, crc) = clients.remove(creator_pos);
    let created = guarded(move || crc.commit(used, Default::default(), None));
    let (mut g0, welcomes) = match created {
        Ok(Ok(x)) => {
            if !expect_ok {
                w.violate(format!("C17|successor_created_with_wrong_member_set|{variant}"), format!("creator {ci}"));
                return Ok(());
            }
            x
        }
        Ok(Err(e)) => {
            if expect_ok {
                w.violate(
                    format!("C17|successor_with_same_identities_refused|{}", ek(&e)),
                    format!("creator {ci}: the successor with exactly the old identities (old tree shape {:?}) was refused: {e:?}", super::tree_shapes(&w.parties[ci].former.last().unwrap().1.export_tree().to_bytes().unwrap_or_default())),
                );
            } else {
                w.out.cov.bump("wrong_member_set_refused");
            }
            return Ok(());
        }
        Err(p) => return Err(format!("PANIC in ReinitClient::commit: {p}")),
    };
    if g0.current_epoch() != 1 || g0.group_id() != new_gid.as_slice() || g0.cipher_suite() != CipherSuite::from(new_suite) || g0.context().extensions != new_ext {
        w.violate("C17|successor_parameters_differ_from_announced", format!("epoch {} suite {:?}", g0.current_epoch(), g0.cipher_suite()));
    }
    let tree = g0.export_tree().into_owned();
    // a Welcome of a later epoch (epoch 2) must not be joinable through the re-init path
    let welcome_epoch2 = {
        let mut g2 = g0.clone();
        let saved = w.cfg.suite;
        w.cfg.suite = new_suite;
        let extra = {
            let id = w.parties.len();
            let prov = w.cfg.provs[0];
            let p = w.new_party_with(id, format!("late{id}").into_bytes(), prov, None);
            w.key_package(p).ok()
        };
        w.cfg.suite = saved;
        extra.and_then(|kp| guarded(|| g2.commit_builder().add_member(kp)?.build()).ok().and_then(|r| r.ok()))
    };
    let mut members: Vec<(usize, VGroup)> = vec![];
    for (i, rc) in clients {
        // mismatches first (each consumes a clone-less client, so they are tried through the
        // ordinary client of the same party where possible)
        {
            let t = tree.clone();
            w.out.cov.eval(Some(fnv(b"plain_join")));
            for wm in &welcomes {
                let r = {
                    let c = &w.parties[i].client;
                    guarded(|| c.join_group(Some(t.clone()), wm, None).map(|_| ()))
                };
                match r {
                    Ok(Ok(())) => w.violate("C17|joined_successor_without_old_group_state", format!("party {i} joined the successor through Client::join_group, i.e. without the old group's resumption secret")),
                    Ok(Err(_)) => w.out.cov.bump("plain_join_refused"),
                    Err(p) => w.violate("C17|panic|plain_join", p),
                }
            }
        }
        let mut joined = None;
        let mut last = String::new();
        // a re-init client is consumed by join: try the welcome addressed to this member
        let cs = AnyCrypto::new(w.parties[i].prov).suite(new_suite).ok_or("suite")?;
        let my_kp = kps.iter().find(|k| k.0 == i).map(|k| k.1.clone());
        let my_ref = my_kp.as_ref().and_then(|k| k.key_package_reference(&cs).ok().flatten());
        let wm = welcomes
            .iter()
            .find(|wm| my_ref.as_ref().map(|r| wm.welcome_key_package_references().iter().any(|x| *x == r)).unwrap_or(false))
            .cloned();
        let Some(wm) = wm else { continue };
        if let (Some(w2), true) = (&welcome_epoch2, w.rng.chance(1, 4)) {
            // this member tries the epoch-2 Welcome instead: must fail (it is not addressed to
            // it, or it lacks the re-init PSK binding, or the epoch is not 1)
            let t2 = tree.clone();
            let wms = w2.welcome_messages.clone();
            w.out.cov.bump("negative:welcome_of_epoch_2");
            let r = guarded(move || {
                let mut res = Err(mls_rs::error::MlsError::WelcomeKeyPackageNotFound);
                if let Some(m) = wms.first() {
                    res = rc.join(m, Some(t2), None).map(|_| ());
                }
                res
            });
            match r {
                Ok(Ok(())) => w.violate("C17|joined_successor_from_epoch_2_welcome", format!("party {i}")),
                Ok(Err(_)) => {}
                Err(p) => w.violate("C17|panic|join_epoch_2", p),
            }
            continue;
        }
        // the genuine re-init Welcome is not a branch Welcome: the old group must refuse it there
        if let Some((_, og)) = w.parties[i].former.last() {
            let og = og.clone();
            let (t, m) = (tree.clone(), wm.clone());
            w.out.cov.bump("negative:reinit_welcome_as_subgroup");
            match guarded(move || og.join_subgroup(&m, Some(t), None).map(|_| ())) {
                Ok(Ok(())) => w.violate("C17|reinit_welcome_accepted_as_branch", format!("party {i} joined the successor through Group::join_subgroup of the old group")),
                Ok(Err(_)) => {}
                Err(p) => w.violate("C17|panic|join_subgroup_with_reinit_welcome", p),
            }
        }
        // an ordinary group with the announced id, extensions and the right identities, made by
        // somebody who never held the old group's state (no resumption PSK in its Welcome)
        if variant == "equal" && w.rng.chance(1, 4) {
            let prov = w.parties[ci].prov;
            if let Some(cs2) = AnyCrypto::new(prov).suite(new_suite) {
                if let Ok((sk, pk)) = cs2.signature_key_generate() {
                    let stores = Stores::new(crate::store::Backend::Mem, 3);
                    let saved = w.cfg.suite;
                    w.cfg.suite = new_suite;
                    let rules = w.cfg.rules();
                    w.cfg.suite = saved;
                    let (imp, _) = make_client(&w.parties[ci].name.clone(), prov, 994, new_suite, sk, pk, &stores, &VIdent::default(), rules, None);
                    let (gid, ext) = (new_gid.clone(), new_ext.clone());
                    let all_kps: Vec<MlsMessage> = kps.iter().map(|k| k.1.clone()).collect();
                    let built = guarded(move || {
                        let mut ig = imp.create_group_with_id(gid, ext, Default::default(), None)?;
                        let mut b = ig.commit_builder();
                        for k in all_kps {
                            b = b.add_member(k)?;
                        }
                        let out = b.build()?;
                        ig.apply_pending_commit()?;
                        Ok::<_, mls_rs::error::MlsError>((ig.export_tree().into_owned(), out.welcome_messages))
                    });
                    if let Ok(Ok((itree, iw))) = built {
                        w.out.cov.bump("negative:impostor_group_with_announced_id");
                        // the Welcome that names this member's key package
                        let mine = iw
                            .iter()
                            .find(|m| my_ref.as_ref().map(|r| m.welcome_key_package_references().iter().any(|x| *x == r)).unwrap_or(false))
                            .cloned();
                        let Some(mine) = mine else { continue };
                        let r = guarded(move || rc.join(&mine, Some(itree), None).map(|_| ()));
                        match r {
                            Ok(Ok(())) => w.violate(
                                "C17|joined_successor_made_without_the_old_group_state",
                                format!("party {i} joined, through its re-init client, an ordinary group that an outsider created under the announced group id (its Welcome carries no resumption PSK)"),
                            ),
                            Ok(Err(_)) => {}
                            Err(p) => w.violate("C17|panic|join_impostor_group", p),
                        }
                        continue;
                    }
                }
            }
        }
        // and a branch of the frozen old group under the announced group id is not the successor
        if new_suite == old_suite && new_ext == old_ext && w.rng.chance(1, 3) {
            if let (Some(kp), Some((_, ogc))) = (my_kp.clone(), w.parties[ci].former.last()) {
                let ogc = ogc.clone();
                let gid = new_gid.clone();
                if let Ok(Ok((bg, bw))) = guarded(move || ogc.branch(gid, vec![kp], None)) {
                    w.out.cov.bump("negative:branch_welcome_as_reinit");
                    let bt = bg.export_tree().into_owned();
                    let r = guarded(move || {
                        let mut res = Err(mls_rs::error::MlsError::WelcomeKeyPackageNotFound);
                        if let Some(m) = bw.first() {
                            res = rc.join(m, Some(bt), None).map(|_| ());
                        }
                        res
                    });
                    match r {
                        Ok(Ok(())) => w.violate("C17|branch_welcome_accepted_as_reinit", format!("party {i} joined a branch of the old group as if it were the re-initialised group")),
                        Ok(Err(_)) => {}
                        Err(p) => w.violate("C17|panic|join_reinit_with_branch_welcome", p),
                    }
                    continue;
                }
            }
        }
        let t = tree.clone();
        match guarded(move || rc.join(&wm, Some(t), None)) {
            Ok(Ok((g, _))) => joined = Some(g),
            Ok(Err(e)) => last = format!("{e:?}"),
            Err(p) => last = format!("PANIC {p}"),
        }
        match joined {
            Some(g) => {
                w.out.cov.bump("successor_joined");
                members.push((i, g));
            }
            None => w.violate(
                format!("C17|old_member_cannot_join_successor|{}", last.split('(').next().unwrap_or("")),
                format!("party {i}: {last}"),
            ),
        }
    }
    let mut all = vec![(ci, g0.clone())];
    all.extend(members);
    agree(w, &all, "reinit");
    one_more_commit(w, &mut all, "reinit");
    let _ = &mut g0;
    Ok(())
}

fn branch_case(w: &mut World) -> Result<(), String> {
    let act = w.active();
    let c = act[w.rng.below(act.len())];
    let others: Vec<usize> = act.iter().copied().filter(|i| *i != c).collect();
    let variant = ["subset", "subset", "all", "with_stranger"][w.rng.below(4)];
    let mut chosen: Vec<usize> = others.clone();
    w.rng.shuffle(&mut chosen);
    if variant == "subset" {
        let k = w.rng.range(1, chosen.len());
        chosen.truncate(k);
    }
    let mut kps = vec![];
    for &i in &chosen {
        kps.push((i, w.key_package(i)?));
    }
    let mut expect_ok = true;
    if variant == "with_stranger" {
        let p = w.new_party();
        kps.push((p, w.key_package(p)?));
        expect_ok = false;
    }
    let sub_id = w.rng.bytes(10);
    w.log(json!({"op":"branch","by":c,"variant":variant,"members":kps.len() + 1}));
    w.out.cov.eval(Some(fnv(format!("branch|{variant}|{}|{}", kps.len().min(8), w.cfg.suite).as_bytes())));
    w.out.cov.bump(&format!("branch_variant:{variant}"));
    let created = {
        let g = w.g(c);
        let list: Vec<MlsMessage> = kps.iter().map(|k| k.1.clone()).collect();
        let sid = sub_id.clone();
        guarded(|| g.branch(sid, list, None))
    };
    let (g0, welcomes) = match created {
        Ok(Ok(x)) => {
            if !expect_ok {
                w.violate("C17|branch_created_with_non_member", format!("creator {c}"));
                return Ok(());
            }
            x
        }
        Ok(Err(e)) => {
            if expect_ok {
                w.violate(format!("C17|branch_with_subset_refused|{}", ek(&e)), format!("creator {c}: {e:?}"));
            } else {
                w.out.cov.bump("wrong_member_set_refused");
            }
            return Ok(());
        }
        Err(p) => return Err(format!("PANIC in branch: {p}")),
    };
    if g0.current_epoch() != 1 || g0.group_id() != sub_id.as_slice() {
        w.violate("C17|branch_parameters_wrong", format!("epoch {}", g0.current_epoch()));
    }
    let tree = g0.export_tree().into_owned();
    let mut members = vec![(c, g0)];
    // somebody who moved on to a later epoch of the old group no longer has the right secret
    let advanced: Option<usize> = chosen.first().copied().filter(|_| w.rng.chance(1, 3));
    for (i, _) in &kps {
        let i = *i;
        if w.parties[i].status != Status::Active {
            continue;
        }
        let cs = w.suite_of(w.parties[i].prov);
        let refs: Vec<_> = w.parties[i].key_packages.iter().filter_map(|k| k.key_package_reference(&cs).ok().flatten()).collect();
        let Some(wm) = welcomes.iter().find(|wm| wm.welcome_key_package_references().iter().any(|r| refs.iter().any(|x| x == *r))).cloned() else { continue };
        // plain join without the old state
        {
            let t = tree.clone();
            let r = {
                let cl = &w.parties[i].client;
                guarded(|| cl.join_group(Some(t), &wm, None).map(|_| ()))
            };
            match r {
                Ok(Ok(())) => w.violate("C17|joined_branch_without_old_group_state", format!("party {i}")),
                Ok(Err(_)) => w.out.cov.bump("plain_join_refused"),
                Err(p) => w.violate("C17|panic|plain_join_branch", p),
            }
        }
        if Some(i) == advanced {
            // the old group moves on by one epoch for this member (on a clone)
            let mut og = w.g(i).clone();
            let mut peer = w.g(c).clone();
            if let Ok(Ok(o)) = guarded(|| peer.commit(vec![])) {
                let m = o.commit_message;
                if guarded(|| og.process_incoming_message(m)).map(|r| r.is_ok()) == Ok(true) {
                    let t = tree.clone();
                    w.out.cov.bump("negative:branch_join_from_later_epoch");
                    w.out.cov.eval(Some(fnv(b"branch_later_epoch")));
                    match guarded(|| og.join_subgroup(&wm, Some(t), None).map(|_| ())) {
                        Ok(Ok(())) => w.violate("C17|joined_branch_with_resumption_secret_of_another_epoch", format!("party {i}")),
                        Ok(Err(_)) => {}
                        Err(p) => w.violate("C17|panic|branch_join_later_epoch", p),
                    }
                }
            }
        }
        let t = tree.clone();
        let g = w.g(i);
        match guarded(|| g.join_subgroup(&wm, Some(t), None)) {
            Ok(Ok((sg, _))) => {
                w.out.cov.bump("branch_joined");
                members.push((i, sg));
            }
            Ok(Err(e)) => w.violate(format!("C17|old_member_cannot_join_branch|{}", ek(&e)), format!("party {i}: {e:?}")),
            Err(p) => w.violate("C17|panic|join_subgroup", p),
        }
        w.parties[i].key_packages.clear();
    }
    agree(w, &members, "branch");
    one_more_commit(w, &mut members, "branch");
    Ok(())
}
