//! C01 — all members that process the same commits reach the same epoch state.

use serde_json::json;

use super::{tree_shapes, Args};
use crate::driver::*;
use crate::util::*;
use crate::world::*;

pub struct Agree {
    pub last_leaves: usize,
    pub shrank: bool,
}

impl Hooks for Agree {
    fn after_commit(&mut self, w: &mut World, info: &RoundInfo) {
        agreement_check(w, info);
        let n = mls_rs::group::ExportedTree::from_bytes(&info.new_tree)
            .map(|t| t.nodes().len() / 2 + 1)
            .unwrap_or(0);
        if n > self.last_leaves && self.last_leaves > 0 {
            w.out.cov.bump("shape:tree_grew");
            if self.shrank {
                w.out.cov.bump("shape:regrew_after_shrink");
            }
        }
        if n < self.last_leaves {
            w.out.cov.bump("shape:tree_shrank");
            self.shrank = true;
        }
        self.last_leaves = n;
        for s in tree_shapes(&info.new_tree) {
            w.out.cov.bump(&format!("shape:{s}"));
        }
    }
}

/// The agreement monitor: pairwise equality of the five observables across all live members and
/// epoch == previous + 1.
pub fn agreement_check(w: &mut World, info: &RoundInfo) {
    let act = w.active();
    let probes = w.export_probes.clone();
    let mut reference: Option<(usize, Obs)> = None;
    for i in act {
        let role = if i == info.committer {
            "committer"
        } else if info.joiners.contains(&i) {
            "joiner"
        } else {
            "receiver"
        };
        let ep = w.g(i).current_epoch();
        if ep != info.epoch_before + 1 {
            w.violate(
                format!("C01|epoch_step|{role}"),
                format!("member {i} ({role}) is at epoch {ep} after the commit on epoch {}", info.epoch_before),
            );
        }
        let o = match observe(w.g(i), &probes) {
            Ok(o) => o,
            Err(e) => {
                w.violate(format!("C01|observe_failed|{role}"), format!("member {i}: {e}"));
                continue;
            }
        };
        let key = fnv(&o.ctx) ^ fnv(role.as_bytes());
        w.out.cov.eval(Some(key));
        w.out.cov.bump(&format!("agree_checked:{role}"));
        match &reference {
            None => reference = Some((i, o)),
            Some((j, r)) => {
                let d = obs_diff(r, &o);
                if !d.is_empty() {
                    w.violate(
                        format!("C01|disagree|{}|{role}{}", d.join("+"), if info.external { "|external" } else { "" }),
                        format!("member {i} ({role}) differs from member {j} in {d:?} at epoch {}", info.epoch_before + 1),
                    );
                }
            }
        }
    }
    if let Some((_, r)) = reference {
        w.epoch_obs.insert(info.epoch_before + 1, r);
    }
}

pub fn run(a: &Args) -> ShardOut {
    let mut total = ShardOut::default();
    let (histories, rounds) = if a.thorough { (60, 45) } else { (10, 25) };
    for h in 0..histories {
        if let Some(only) = super::only_history() {
            if only != h {
                continue;
            }
        }
        let mut rng = Rng::derive(a.seed, "C01", a.shard * 10_000 + h);
        let cfg = WorldCfg::draw(&mut rng, a.thorough);
        let mut w = World::new(cfg.clone(), rng, "C01");
        let mut hooks = Agree { last_leaves: 0, shrank: false };
        let n0 = w.rng.range(2, cfg.max_members.min(8));
        let dc = DriveCfg::default();
        let mut res = w.bootstrap(n0, &mut hooks);
        if res.is_ok() {
            for _ in 0..rounds {
                match w.round(&dc, &mut hooks) {
                    Ok(_) => {}
                    Err(e) => {
                        res = Err(e);
                        break;
                    }
                }
            }
        }
        if let Err(e) = res {
            if e.contains("PANIC") && panic_in_repo(&e) {
                w.violate(format!("C01|panic|{}", e.chars().take(90).collect::<String>()), e.clone());
            } else {
                w.out.inconclusive.push(format!("history {h}: {e}"));
            }
        }
        w.out.cov.bump("histories");
        w.out.cov.bump(&format!("suite:{}", cfg.suite));
        w.out.cov.bump(&format!("provs:{}", cfg.provs.iter().map(|p| p.name()).collect::<Vec<_>>().join("+")));
        w.out.cov.sample(json!({"cfg": cfg.to_json(), "first_ops": w.script.iter().take(25).cloned().collect::<Vec<_>>()}));
        total.cov.merge(&w.out.cov);
        total.violations.extend(w.out.violations.drain(..));
        total.inconclusive.extend(w.out.inconclusive.drain(..));
    }
    total
}
