//! C14 — the shipped crypto providers (OpenSSL, AWS-LC, RustCrypto) are interchangeable.
//!
//! Runtime differential monitor, four oracles:
//!  (a) byte equality of deterministic primitives across every provider pair x common suite,
//!  (b) producer x consumer interop matrix for everything randomised (sign/verify, HPKE),
//!  (c) identical accept/reject classification on malformed inputs (error types never compared),
//!  (d) X.509 validators: same verdict, and the correct one, on chains minted with the `openssl`
//!      crate directly (not through any validator under test).
//!
//! Severity: `Hard` mismatches are violations. `Soft` mismatches (malformed *secret* keys, which
//! no provider ever emits) are recorded as findings in `extra.findings` and only become violations
//! with `--strict`.  `--memcheck` selects a reduced workload for valgrind.

use std::collections::BTreeMap;
use std::time::Duration;

use mls_rs_core::crypto::{
    CipherSuiteProvider, HpkeCiphertext, HpkeContextR, HpkeContextS, HpkePsk, HpkePublicKey,
    HpkeSecretKey, SignaturePublicKey, SignatureSecretKey,
};
use mls_rs_core::time::MlsTime;
use mls_rs_identity_x509::{CertificateChain, DerCertificate, X509CredentialValidator};
use serde_json::{json, Value};

use super::Args;
use crate::anycrypto::{AnyCrypto, AnyErr, AnySuite, Prov};
use crate::util::*;

const PROP: &str = "C14";
/// Fixed X.509 validity window (never derived from the system clock).
const NB: i64 = 1_700_000_000;
const NA: i64 = NB + 86_400 * 30;
const DAY: i64 = 86_400;

#[derive(Clone, Copy, PartialEq, Eq, Debug)]
enum Tier {
    Mem,
    Quick,
    Thorough,
}

#[derive(Clone, Copy, PartialEq, Eq, Debug)]
enum Sev {
    Hard,
    Soft,
}

#[derive(Clone, Debug, PartialEq)]
enum Oc {
    Acc(Vec<u8>),
    Rej(String),
    Panic,
}

impl Oc {
    fn cls(&self) -> &'static str {
        match self {
            Oc::Acc(_) => "accept",
            Oc::Rej(_) => "reject",
            Oc::Panic => "panic",
        }
    }
    fn brief(&self) -> String {
        match self {
            Oc::Acc(v) => format!("accept({}B {})", v.len(), hxs(v)),
            Oc::Rej(e) => format!("reject({})", e.chars().take(80).collect::<String>()),
            Oc::Panic => "panic".into(),
        }
    }
}

type SS = Vec<(Prov, AnySuite)>;

/// hex, truncated
fn hxs(b: &[u8]) -> String {
    if b.len() <= 28 {
        hx(b)
    } else {
        format!("{}..{}({}B)", hx(&b[..20]), hx(&b[b.len() - 4..]), b.len())
    }
}

fn first_diff(a: &[u8], b: &[u8]) -> String {
    if a.len() != b.len() {
        return format!("lengths {} vs {}", a.len(), b.len());
    }
    match a.iter().zip(b).position(|(x, y)| x != y) {
        Some(i) => format!("first difference at byte {i}: {:02x} vs {:02x}", a[i], b[i]),
        None => "equal".into(),
    }
}

fn lp(parts: &[&[u8]]) -> Vec<u8> {
    let mut v = vec![];
    for p in parts {
        v.extend_from_slice(&(p.len() as u32).to_be_bytes());
        v.extend_from_slice(p);
    }
    v
}

fn pair_name(a: Prov, b: Prov) -> String {
    let (a, b) = if a <= b { (a, b) } else { (b, a) };
    format!("{}-{}", a.name(), b.name())
}

/// Static per-suite parameters.
#[derive(Clone, Debug)]
struct Sp {
    cs: u16,
    nh: usize,
    hblock: usize,
    nk: usize,
    nn: usize,
    /// KEM public key / secret key size
    npk: usize,
    nsk: usize,
    nist: bool,
    ed25519: bool,
    /// signature public key length
    spk: usize,
}

fn suite_params(cs: u16, s: &AnySuite) -> Sp {
    let (npk, nsk, nist, hblock, ed, spk) = match cs {
        1 | 3 => (32, 32, false, 64, true, 32),
        2 => (65, 32, true, 64, false, 65),
        4 | 6 => (56, 56, false, 128, false, 57),
        5 => (133, 66, true, 128, false, 133),
        7 => (97, 48, true, 128, false, 97),
        _ => (32, 32, false, 64, false, 32),
    };
    Sp {
        cs,
        nh: s.kdf_extract_size(),
        hblock,
        nk: s.aead_key_size(),
        nn: s.aead_nonce_size(),
        npk,
        nsk,
        nist,
        ed25519: ed,
        spk,
    }
}

struct Eng {
    out: ShardOut,
    rng: Rng,
    tier: Tier,
    strict: bool,
    shard: u64,
    findings: BTreeMap<String, (u64, String)>,
    sigclass: Option<String>,
    vsuites: BTreeMap<String, std::collections::BTreeSet<u16>>,
    x509_table: BTreeMap<String, Vec<String>>,
    ctx_seal_empty: BTreeMap<Prov, Oc>,
    sampled: BTreeMap<String, u32>,
}

impl Eng {
    // ------------------------------------------------------------------ plumbing

    fn run1(&mut self, p: Prov, op: &str, f: impl FnOnce() -> Result<Vec<u8>, AnyErr>) -> Oc {
        self.out.cov.bump("provider_calls");
        match guarded(f) {
            Ok(Ok(v)) => Oc::Acc(v),
            Ok(Err(e)) => Oc::Rej(e.0),
            Err(msg) => {
                self.out.violate(
                    PROP,
                    format!("C14|panic|{}|{op}", p.name()),
                    format!("provider {} panicked in {op}: {msg}", p.name()),
                );
                Oc::Panic
            }
        }
    }

    fn all(
        &mut self,
        ss: &SS,
        op: &str,
        f: impl Fn(&AnySuite) -> Result<Vec<u8>, AnyErr>,
    ) -> Vec<(Prov, Oc)> {
        let mut v = Vec::with_capacity(ss.len());
        for (p, s) in ss {
            let oc = self.run1(*p, op, || f(s));
            v.push((*p, oc));
        }
        v
    }

    /// One sample per operation kind, so that every oracle is represented among the six kept.
    fn sample(&mut self, v: Value) {
        let op = v.get("op").and_then(|x| x.as_str()).unwrap_or("?").to_string();
        let op = if op.starts_with("hpke_open") { "hpke_open".to_string() } else { op };
        let n = self.sampled.entry(op.clone()).or_insert(0);
        if *n < 1 {
            *n += 1;
            self.out.cov.sample(v);
        }
    }

    fn finding(&mut self, sig: String, detail: String) {
        self.out.cov.bump("findings_total");
        let e = self.findings.entry(sig).or_insert((0, detail));
        e.0 += 1;
    }

    /// Signatures carry no suite number (the same root cause shows up in every suite); the
    /// suites in which a signature fired are collected in `extra.violation_suites`.
    fn report(&mut self, sev: Sev, cs: u16, sig: String, detail: String) {
        let detail = format!("suite {cs}: {detail}");
        if sev == Sev::Hard || self.strict {
            self.vsuites.entry(sig.clone()).or_default().insert(cs);
            self.out.violate(PROP, sig, detail);
        } else {
            self.finding(sig, detail);
        }
    }

    /// Coarse class for the *signature* of the next comparison (coverage keeps the fine class).
    fn sc(&mut self, c: &str) {
        self.sigclass = Some(c.to_string());
    }

    /// Pairwise differential comparison of the outcomes of one operation on one input.
    /// `bytes`: accepted outputs must be byte-identical (otherwise only accept/reject is compared).
    /// `expect`: ground truth for accept/reject where it is unambiguous.
    #[allow(clippy::too_many_arguments)]
    fn compare(
        &mut self,
        sev: Sev,
        op: &str,
        cs: u16,
        class: &str,
        bytes: bool,
        expect: Option<bool>,
        res: &[(Prov, Oc)],
        detail: impl Fn() -> String,
    ) {
        let sc = self.sigclass.take().unwrap_or_else(|| class.to_string());
        let live: Vec<&(Prov, Oc)> = res.iter().filter(|(_, o)| *o != Oc::Panic).collect();
        let mut differing: Option<(Prov, Prov)> = None;
        let mut diff_note = String::new();
        for i in 0..live.len() {
            for j in (i + 1)..live.len() {
                let (pa, a) = live[i];
                let (pb, b) = live[j];
                let pn = pair_name(*pa, *pb);
                self.out.cov.bump(&format!("pair:{pn}:suite{cs}"));
                self.out.cov.bump(&format!("op:{op}"));
                self.out.cov.eval(Some(fnv(format!("{op}|{cs}|{pn}|{class}").as_bytes())));
                if let (Oc::Acc(x), Oc::Acc(y)) = (a, b) {
                    if bytes && x != y && differing.is_none() {
                        differing = Some((*pa, *pb));
                        diff_note = first_diff(x, y);
                    }
                }
            }
        }
        let vector = live.iter().map(|(p, o)| format!("{}={}", p.name(), o.cls())).collect::<Vec<_>>().join("|");
        let full = || live.iter().map(|(p, o)| format!("{}: {}", p.name(), o.brief())).collect::<Vec<_>>().join(" / ");
        let n_acc = live.iter().filter(|(_, o)| matches!(o, Oc::Acc(_))).count();
        if n_acc != 0 && n_acc != live.len() {
            self.report(sev, cs, format!("C14|accept_reject|{op}|{sc}|{vector}"), format!("[{class}] {} input: {}", full(), detail()));
        } else if let Some((pa, pb)) = differing {
            self.report(sev, cs, format!("C14|bytes|{op}|{sc}|{}", pair_name(pa, pb)), format!("[{class}] {diff_note}; {} input: {}", full(), detail()));
        } else if let Some(exp) = expect {
            // unanimous, but unanimously wrong
            if !live.is_empty() && ((n_acc == live.len()) != exp) {
                let kind = if exp { "valid_rejected" } else { "malformed_accepted" };
                self.report(sev, cs, format!("C14|{kind}|{op}|{sc}|{vector}"), format!("[{class}] {} input: {}", full(), detail()));
            }
        }
    }

    /// One cell of a producer x consumer interop matrix: the consumer must accept and return
    /// `want`. `P == C` cells are controls (failure there makes the row uninterpretable).
    #[allow(clippy::too_many_arguments)]
    fn interop(
        &mut self,
        op: &str,
        cs: u16,
        prod: Prov,
        cons: Prov,
        keys: Prov,
        class: &str,
        got: &Oc,
        want: &[u8],
        detail: impl Fn() -> String,
    ) {
        let sc = self.sigclass.take().unwrap_or_else(|| class.to_string());
        if *got == Oc::Panic {
            return;
        }
        let ok = matches!(got, Oc::Acc(v) if v == want);
        if prod == cons {
            self.out.cov.bump(&format!("control:{op}"));
            if !ok {
                self.report(
                    Sev::Hard,
                    cs,
                    format!("C14|self_roundtrip|{op}|{sc}|{}", prod.name()),
                    format!("[{class}] {} cannot consume its own output: {} input: {}", prod.name(), got.brief(), detail()),
                );
            }
            return;
        }
        let pn = pair_name(prod, cons);
        self.out.cov.bump(&format!("pair:{pn}:suite{cs}"));
        self.out.cov.bump(&format!("op:{op}"));
        self.out.cov.eval(Some(fnv(
            format!("{op}|{cs}|{}>{}|k={}|{class}", prod.name(), cons.name(), keys.name()).as_bytes(),
        )));
        if !ok {
            self.report(
                Sev::Hard,
                cs,
                format!("C14|interop|{op}|{sc}|producer={}|consumer={}", prod.name(), cons.name()),
                format!("[{class}] keys by {}; consumer result {} (wanted {}) input: {}", keys.name(), got.brief(), hxs(want), detail()),
            );
        }
    }

    /// Input lengths: empty and block-boundary sizes, 1 KiB, 64 KiB, plus seeded random ones.
    fn lens(&mut self, blk: usize) -> Vec<(String, usize)> {
        let mut v: Vec<(String, usize)> = match self.tier {
            Tier::Mem => vec![("len0".into(), 0), ("blk+1".into(), blk + 1)],
            _ => vec![
                ("len0".into(), 0),
                ("len1".into(), 1),
                ("blk-1".into(), blk - 1),
                ("blk".into(), blk),
                ("blk+1".into(), blk + 1),
                ("1k".into(), 1024),
                ("64k".into(), 65536),
            ],
        };
        let extra = match self.tier {
            Tier::Mem => 0,
            Tier::Quick => 2,
            Tier::Thorough => 4,
        };
        for _ in 0..extra {
            let n = match self.rng.below(3) {
                0 => self.rng.range(2, 2 * blk + 2),
                1 => self.rng.range(2, 4096),
                _ => self.rng.range(4097, 70_000),
            };
            let bucket = usize::BITS - n.leading_zeros();
            v.push((format!("rnd2^{bucket}"), n));
        }
        v
    }

    // ------------------------------------------------------------------ (a) deterministic

    fn det_hash_mac_kdf(&mut self, ss: &SS, sp: &Sp) {
        let cs = sp.cs;
        // hash
        for (cl, n) in self.lens(sp.hblock) {
            let data = self.rng.bytes(n);
            let res = self.all(ss, "hash", |s| s.hash(&data));
            self.compare(Sev::Hard, "hash", cs, &cl, true, Some(true), &res, || format!("data={}", hxs(&data)));
            if n == sp.hblock + 1 {
                if let Some((p, Oc::Acc(o))) = res.first() {
                    self.sample(json!({"op":"hash","suite":cs,"provider":p.name(),"data":hxs(&data),"out":hxs(o),
                        "all_equal": res.iter().all(|(_, x)| x == &res[0].1)}));
                }
            }
        }
        // mac: key lengths x data lengths
        let klens: Vec<(&str, usize)> = match self.tier {
            Tier::Mem => vec![("kNh", sp.nh)],
            _ => vec![
                ("k0", 0),
                ("k1", 1),
                ("kNh", sp.nh),
                ("kblk", sp.hblock),
                ("kblk+1", sp.hblock + 1),
                ("k1k", 1024),
            ],
        };
        let dl = self.lens(sp.hblock);
        for (kc, kn) in &klens {
            for (cl, n) in &dl {
                let key = self.rng.bytes(*kn);
                let data = self.rng.bytes(*n);
                let res = self.all(ss, "mac", |s| s.mac(&key, &data));
                // an empty HMAC key is an edge case: only accept/reject agreement is required
                let exp = if *kn == 0 { None } else { Some(true) };
                self.sc(if *kn == 0 { "empty_key" } else { "valid" });
                self.compare(Sev::Hard, "mac", cs, &format!("{kc}/{cl}"), true, exp, &res, || {
                    format!("key={} data={}", hxs(&key), hxs(&data))
                });
            }
        }
        // kdf_extract: salt lengths x ikm lengths
        let slens: Vec<(&str, usize)> = match self.tier {
            Tier::Mem => vec![("s0", 0), ("sNh", sp.nh)],
            _ => vec![("s0", 0), ("s1", 1), ("sNh", sp.nh), ("sblk", sp.hblock), ("sblk+1", sp.hblock + 1)],
        };
        let il = self.lens(sp.hblock);
        for (sc, sn) in &slens {
            for (cl, n) in &il {
                let salt = self.rng.bytes(*sn);
                let ikm = self.rng.bytes(*n);
                let res = self.all(ss, "kdf_extract", |s| s.kdf_extract(&salt, &ikm).map(|z| z.to_vec()));
                let exp = if *n == 0 { None } else { Some(true) };
                self.sc(if *n == 0 { "empty_ikm" } else { "valid" });
                self.compare(Sev::Hard, "kdf_extract", cs, &format!("{sc}/{cl}"), true, exp, &res, || {
                    format!("salt={} ikm={}", hxs(&salt), hxs(&ikm))
                });
            }
        }
        // kdf_expand: output lengths 0..=255*Nh, one beyond the maximum, info lengths, prk lengths
        let max = 255 * sp.nh;
        let mut olens: Vec<(String, usize, Option<bool>)> = match self.tier {
            Tier::Mem => vec![("oNh+1".into(), sp.nh + 1, Some(true)), ("omax+1".into(), max + 1, Some(false))],
            _ => vec![
                ("o0".into(), 0, None),
                ("o1".into(), 1, Some(true)),
                ("oNh-1".into(), sp.nh - 1, Some(true)),
                ("oNh".into(), sp.nh, Some(true)),
                ("oNh+1".into(), sp.nh + 1, Some(true)),
                ("omax-1".into(), max - 1, Some(true)),
                ("omax".into(), max, Some(true)),
                ("omax+1".into(), max + 1, Some(false)),
                ("omax+Nh".into(), max + sp.nh, Some(false)),
                ("o64k".into(), 65536, Some(false)),
            ],
        };
        if self.tier != Tier::Mem {
            for _ in 0..3 {
                let n = self.rng.range(1, max);
                olens.push((format!("ornd{}", n / sp.nh / 32), n, Some(true)));
            }
        }
        let infos: Vec<(&str, usize)> = match self.tier {
            Tier::Mem => vec![("i1", 1)],
            _ => vec![("i0", 0), ("i1", 1), ("iblk-1", sp.hblock - 1), ("iblk", sp.hblock), ("iblk+1", sp.hblock + 1), ("i1k", 1024), ("i1k+1", 1025), ("i4k", 4096)],
        };
        for (k, (oc, on, exp)) in olens.iter().enumerate() {
            let (ic, inn) = infos[k % infos.len()];
            let prk = self.rng.bytes(sp.nh);
            let info = self.rng.bytes(inn);
            let res = self.all(ss, "kdf_expand", |s| s.kdf_expand(&prk, &info, *on).map(|z| z.to_vec()));
            let class = if exp == &Some(false) { format!("oversize:{oc}") } else { format!("{oc}/{ic}") };
            if exp == &Some(false) {
                self.out.cov.bump("malformed:kdf_expand_oversize");
            }
            self.sc(if exp == &Some(false) { "oversize" } else if *on == 0 { "out_len0" } else { "valid" });
            self.compare(Sev::Hard, "kdf_expand", cs, &class, true, *exp, &res, || {
                format!("prk={} info={} len={on}", hxs(&prk), hxs(&info))
            });
            // every accepted output must have exactly the requested length
            for (p, o) in &res {
                if let Oc::Acc(v) = o {
                    if v.len() != *on {
                        self.report(Sev::Hard, cs, format!("C14|kdf_expand_len|{}", p.name()), format!("asked {on} got {}", v.len()));
                    }
                }
            }
        }
        if self.tier != Tier::Mem {
            // all info lengths at a fixed output length
            for (ic, inn) in &infos {
                let prk = self.rng.bytes(sp.nh);
                let info = self.rng.bytes(*inn);
                let res = self.all(ss, "kdf_expand", |s| s.kdf_expand(&prk, &info, 2 * sp.nh + 5).map(|z| z.to_vec()));
                self.sc("valid");
                self.compare(Sev::Hard, "kdf_expand", cs, &format!("o2Nh+5/{ic}"), true, Some(true), &res, || {
                    format!("prk={} info={}", hxs(&prk), hxs(&info))
                });
            }
            // unusual prk lengths: only agreement is required (a PRK shorter than Nh is out of
            // contract for HKDF-Expand, RFC 5869 s2.3)
            for (pc, pn) in [("p0", 0usize), ("p1", 1), ("pNh-1", sp.nh - 1), ("pNh+1", sp.nh + 1), ("pblk+1", sp.hblock + 1)] {
                let prk = self.rng.bytes(pn);
                let info = self.rng.bytes(7);
                let res = self.all(ss, "kdf_expand", |s| s.kdf_expand(&prk, &info, sp.nh).map(|z| z.to_vec()));
                self.out.cov.bump("malformed:kdf_expand_prk_len");
                self.compare(Sev::Hard, "kdf_expand", cs, &format!("prklen:{pc}"), true, None, &res, || {
                    format!("prk={} info={}", hxs(&prk), hxs(&info))
                });
            }
        }
    }
}

fn flip(b: &[u8], idx: usize) -> Vec<u8> {
    let mut v = b.to_vec();
    if !v.is_empty() {
        let i = idx.min(v.len() - 1);
        v[i] ^= 0x01;
    }
    v
}

impl Eng {
    // ------------------------------------------------------------------ AEAD

    fn aead(&mut self, ss: &SS, sp: &Sp) {
        let cs = sp.cs;
        let aads: Vec<(&str, Option<usize>)> = match self.tier {
            Tier::Mem => vec![("aNone", None), ("a13", Some(13))],
            _ => vec![("aNone", None), ("a0", Some(0)), ("a1", Some(1)), ("a13", Some(13)), ("a1k", Some(1024))],
        };
        // AES block 16, ChaCha block 64: take boundary sizes around both
        let mut pls: Vec<(String, usize)> = match self.tier {
            Tier::Mem => vec![("len0".into(), 0), ("len17".into(), 17)],
            _ => vec![
                ("len0".into(), 0),
                ("len1".into(), 1),
                ("len15".into(), 15),
                ("len16".into(), 16),
                ("len17".into(), 17),
                ("len63".into(), 63),
                ("len64".into(), 64),
                ("len65".into(), 65),
                ("1k".into(), 1024),
                ("64k".into(), 65536),
            ],
        };
        if self.tier != Tier::Mem {
            for _ in 0..2 {
                let n = self.rng.range(2, 5000);
                pls.push((format!("rnd2^{}", usize::BITS - n.leading_zeros()), n));
            }
        }
        for (k, (pc, pn)) in pls.iter().enumerate() {
            // every aad class for the small sizes, a rotating one for the large ones
            let sel: Vec<(&str, Option<usize>)> =
                if *pn <= 65 { aads.clone() } else { vec![aads[(k + self.shard as usize) % aads.len()]] };
            for (ac, an) in sel {
                let key = self.rng.bytes(sp.nk);
                let nonce = self.rng.bytes(sp.nn);
                let aad = an.map(|n| self.rng.bytes(n));
                let pt = self.rng.bytes(*pn);
                let class = format!("{pc}/{ac}");
                let res = self.all(ss, "aead_seal", |s| s.aead_seal(&key, &pt, aad.as_deref(), &nonce));
                let exp = if *pn == 0 { None } else { Some(true) };
                self.sc(if *pn == 0 { "empty_plaintext" } else { "valid" });
                self.compare(Sev::Hard, "aead_seal", cs, &class, true, exp, &res, || {
                    format!("key={} nonce={} aad={:?} pt={}", hxs(&key), hxs(&nonce), aad.as_deref().map(hxs), hxs(&pt))
                });
                if *pn == 17 && ac == "a13" {
                    if let Some((p, Oc::Acc(o))) = res.first() {
                        self.sample(json!({"op":"aead_seal","suite":cs,"provider":p.name(),"key":hxs(&key),"nonce":hxs(&nonce),
                            "aad":aad.as_deref().map(hxs),"pt":hxs(&pt),"ct":hxs(o),"all_equal":res.iter().all(|(_, x)| x == &res[0].1)}));
                    }
                }
                // every provider opens every provider's output
                for (pp, o) in &res {
                    let Oc::Acc(ct) = o else { continue };
                    if ct.len() != pt.len() + 16 {
                        self.report(Sev::Hard, cs, format!("C14|aead_len|{}", pp.name()), format!("pt {} ct {}", pt.len(), ct.len()));
                    }
                    for (cp, cu) in ss {
                        let got = self.run1(*cp, "aead_open", || cu.aead_open(&key, ct, aad.as_deref(), &nonce).map(|z| z.to_vec()));
                        self.sc(if *pn == 0 { "empty_plaintext" } else { "valid" });
                        self.interop("aead_open", cs, *pp, *cp, *pp, &class, &got, &pt, || {
                            format!("key={} nonce={} ct={}", hxs(&key), hxs(&nonce), hxs(ct))
                        });
                    }
                }
            }
        }
    }

    fn aead_malformed(&mut self, ss: &SS, sp: &Sp) {
        let cs = sp.cs;
        let key = self.rng.bytes(sp.nk);
        let nonce = self.rng.bytes(sp.nn);
        let aad = self.rng.bytes(9);
        let pt = self.rng.bytes(40);
        // the valid ciphertext comes from a rotating producer
        let (pp, ps) = &ss[(self.shard as usize + cs as usize) % ss.len()];
        let Oc::Acc(ct) = self.run1(*pp, "aead_seal", || ps.aead_seal(&key, &pt, Some(&aad), &nonce)) else { return };

        // wrong-length keys / nonces on seal and open: agreement only
        let mut klens = vec![("key_len0", 0usize), ("key_len-1", sp.nk - 1), ("key_len+1", sp.nk + 1), ("key_len_x2", sp.nk * 2), ("key_len_half", sp.nk / 2)];
        let mut nlens = vec![("nonce_len0", 0usize), ("nonce_len-1", sp.nn - 1), ("nonce_len+1", sp.nn + 1), ("nonce_len16", 16), ("nonce_len8", 8)];
        if self.tier == Tier::Mem {
            klens.truncate(2);
            nlens.truncate(2);
        }
        for (c, n) in klens {
            let k2 = self.rng.bytes(n);
            self.out.cov.bump(&format!("malformed:aead_{c}"));
            let r = self.all(ss, "aead_seal", |s| s.aead_seal(&k2, &pt, Some(&aad), &nonce));
            self.sc("key_wrong_length");
            self.compare(Sev::Hard, "aead_seal", cs, c, true, None, &r, || format!("key={}", hxs(&k2)));
            let r = self.all(ss, "aead_open", |s| s.aead_open(&k2, &ct, Some(&aad), &nonce).map(|z| z.to_vec()));
            self.sc("key_wrong_length");
            self.compare(Sev::Hard, "aead_open", cs, c, true, None, &r, || format!("key={}", hxs(&k2)));
        }
        for (c, n) in nlens {
            let n2 = self.rng.bytes(n);
            self.out.cov.bump(&format!("malformed:aead_{c}"));
            let r = self.all(ss, "aead_seal", |s| s.aead_seal(&key, &pt, Some(&aad), &n2));
            self.sc("nonce_wrong_length");
            self.compare(Sev::Hard, "aead_seal", cs, c, true, None, &r, || format!("nonce={}", hxs(&n2)));
            let r = self.all(ss, "aead_open", |s| s.aead_open(&key, &ct, Some(&aad), &n2).map(|z| z.to_vec()));
            self.sc("nonce_wrong_length");
            self.compare(Sev::Hard, "aead_open", cs, c, true, None, &r, || format!("nonce={}", hxs(&n2)));
        }
        // damaged ciphertexts / tags / context
        let l = ct.len();
        let mut cases: Vec<(&str, Vec<u8>, Option<Vec<u8>>, Vec<u8>, Vec<u8>, Option<bool>)> = vec![
            ("ct_trunc1", ct[..l - 1].to_vec(), Some(aad.clone()), key.clone(), nonce.clone(), Some(false)),
            ("ct_tag_only", ct[l - 16..].to_vec(), Some(aad.clone()), key.clone(), nonce.clone(), Some(false)),
            ("ct_len15", ct[..15].to_vec(), Some(aad.clone()), key.clone(), nonce.clone(), Some(false)),
            ("ct_empty", vec![], Some(aad.clone()), key.clone(), nonce.clone(), Some(false)),
            ("ct_flip_first", flip(&ct, 0), Some(aad.clone()), key.clone(), nonce.clone(), Some(false)),
            ("ct_flip_mid", flip(&ct, l / 2), Some(aad.clone()), key.clone(), nonce.clone(), Some(false)),
            ("tag_flip_first", flip(&ct, l - 16), Some(aad.clone()), key.clone(), nonce.clone(), Some(false)),
            ("tag_flip_last", flip(&ct, l - 1), Some(aad.clone()), key.clone(), nonce.clone(), Some(false)),
            ("ct_extended", [ct.clone(), vec![0]].concat(), Some(aad.clone()), key.clone(), nonce.clone(), Some(false)),
            ("wrong_aad", ct.clone(), Some(flip(&aad, 3)), key.clone(), nonce.clone(), Some(false)),
            ("aad_missing", ct.clone(), None, key.clone(), nonce.clone(), Some(false)),
            ("aad_truncated", ct.clone(), Some(aad[..8].to_vec()), key.clone(), nonce.clone(), Some(false)),
            ("wrong_nonce", ct.clone(), Some(aad.clone()), key.clone(), flip(&nonce, 0), Some(false)),
            ("wrong_key", ct.clone(), Some(aad.clone()), flip(&key, 0), nonce.clone(), Some(false)),
        ];
        // a tag that is genuinely valid for the empty plaintext (made with the openssl crate directly,
        // not through a provider under test): whether 0-byte messages are allowed is each library's
        // business, but all three must answer alike
        {
            use openssl::symm::{encrypt_aead, Cipher};
            let cipher = match (sp.nk, cs) {
                (_, 3) | (_, 6) => Some(Cipher::chacha20_poly1305()),
                (16, _) => Some(Cipher::aes_128_gcm()),
                (32, _) => Some(Cipher::aes_256_gcm()),
                _ => None,
            };
            if let Some(cipher) = cipher {
                let mut tag = vec![0u8; 16];
                if encrypt_aead(cipher, &key, Some(&nonce), &aad, &[], &mut tag).is_ok() {
                    cases.push(("ct_tag_only_valid_for_empty_plaintext", tag, Some(aad.clone()), key.clone(), nonce.clone(), None));
                }
            }
        }
        if self.tier == Tier::Mem {
            cases.truncate(3);
        }
        for (c, ct2, aad2, k2, n2, exp) in cases {
            self.out.cov.bump(&format!("malformed:aead_{c}"));
            let r = self.all(ss, "aead_open", |s| s.aead_open(&k2, &ct2, aad2.as_deref(), &n2).map(|z| z.to_vec()));
            self.compare(Sev::Hard, "aead_open", cs, c, true, exp, &r, || format!("ct={} (valid ct by {})", hxs(&ct2), pp.name()));
        }
        // None and Some(empty) aad are the same AEAD input: all must treat them alike
        let Oc::Acc(ct0) = self.run1(*pp, "aead_seal", || ps.aead_seal(&key, &pt, None, &nonce)) else { return };
        self.out.cov.bump("malformed:aead_aad_none_vs_empty");
        let r = self.all(ss, "aead_open", |s| s.aead_open(&key, &ct0, Some(&[]), &nonce).map(|z| z.to_vec()));
        self.compare(Sev::Hard, "aead_open", cs, "aad_none_vs_empty", true, None, &r, || "sealed with None, opened with Some(empty)".into());
    }

    // ------------------------------------------------------------------ kem_derive

    fn kem_derive(&mut self, ss: &SS, sp: &Sp) {
        let cs = sp.cs;
        let lens: Vec<(&str, usize)> = match self.tier {
            Tier::Mem => vec![("ikmNsk", sp.nsk)],
            _ => vec![("ikm0", 0), ("ikm1", 1), ("ikmNsk-1", sp.nsk - 1), ("ikmNsk", sp.nsk), ("ikmNsk+1", sp.nsk + 1), ("ikm32", 32), ("ikm64", 64), ("ikm1k", 1024)],
        };
        let reps = if self.tier == Tier::Quick { 2 } else { 1 };
        for (c, n) in lens {
            for _ in 0..reps {
                let ikm = self.rng.bytes(n);
                let res = self.all(ss, "kem_derive", |s| s.kem_derive(&ikm).map(|(sk, pk)| lp(&[sk.as_ref(), pk.as_ref()])));
                let exp = if n == 0 { None } else { Some(true) };
                self.sc(if n == 0 { "empty_ikm" } else { "valid" });
                self.compare(Sev::Hard, "kem_derive", cs, c, true, exp, &res, || format!("ikm={}", hxs(&ikm)));
                // derived public key must pass everybody's validation
                if let Some((_, Oc::Acc(v))) = res.first() {
                    let skl = u32::from_be_bytes([v[0], v[1], v[2], v[3]]) as usize;
                    let pk = HpkePublicKey::from(v[8 + skl..].to_vec());
                    let r = self.all(ss, "kem_public_key_validate", |s| s.kem_public_key_validate(&pk).map(|_| vec![]));
                    self.compare(Sev::Hard, "kem_public_key_validate", cs, "derived_key", false, Some(true), &r, || format!("pk={}", hxs(pk.as_ref())));
                }
            }
        }
    }

    // ------------------------------------------------------------------ signatures

    /// Keys generated by each provider; public key re-derived by every provider; sign x verify
    /// matrix; returns one (sk, pk, producer) for the malformed-input section.
    fn signatures(&mut self, ss: &SS, sp: &Sp) {
        let cs = sp.cs;
        let nkeys = match self.tier {
            Tier::Mem => 1,
            _ => 2,
        };
        let mlens: Vec<(&str, usize)> = match self.tier {
            Tier::Mem => vec![("m33", 33)],
            _ => vec![("m0", 0), ("m1", 1), ("m1k", 1024), ("m64k", 65536)],
        };
        for (kp, ks) in ss {
            for ki in 0..nkeys {
                let gen = guarded(|| ks.signature_key_generate());
                let (sk, pk) = match gen {
                    Ok(Ok(x)) => x,
                    Ok(Err(e)) => {
                        self.report(Sev::Hard, cs, format!("C14|keygen_failed|signature_key_generate|{}", kp.name()), e.0);
                        continue;
                    }
                    Err(m) => {
                        self.out.violate(PROP, format!("C14|panic|{}|signature_key_generate", kp.name()), m);
                        continue;
                    }
                };
                self.out.cov.bump(&format!("sk_format:{}:suite{cs}:len{}", kp.name(), sk.len()));
                if pk.len() != sp.spk {
                    self.report(Sev::Hard, cs, format!("C14|sig_pk_len|{}", kp.name()), format!("{} != {}", pk.len(), sp.spk));
                }
                // derive_public by everybody
                let res = self.all(ss, "signature_key_derive_public", |s| s.signature_key_derive_public(&sk).map(|p| p.to_vec()));
                self.derive_public_check(cs, *kp, &sk, Some(pk.as_ref()), &res, "generated");
                // sign x verify
                for (mi, (mc, mn)) in mlens.iter().enumerate() {
                    if *mn > 2000 && ki > 0 {
                        continue;
                    }
                    let msg = self.rng.bytes(*mn);
                    for (pp, ps) in ss {
                        let sig = self.run1(*pp, "sign", || ps.sign(&sk, &msg));
                        let sig = match sig {
                            Oc::Acc(s) => s,
                            Oc::Rej(e) => {
                                if pp == kp {
                                    self.report(Sev::Hard, cs, format!("C14|self_roundtrip|sign|{}", pp.name()), e);
                                } else {
                                    self.sk_import_reject(cs, *kp, *pp, "sign", &sk, &e);
                                }
                                continue;
                            }
                            Oc::Panic => continue,
                        };
                        for (cp, cu) in ss {
                            let got = self.run1(*cp, "verify", || cu.verify(&pk, &sig, &msg).map(|_| vec![]));
                            self.interop("sign_verify", cs, *pp, *cp, *kp, mc, &got, &[], || {
                                format!("pk={} sig={} msg={}", hxs(pk.as_ref()), hxs(&sig), hxs(&msg))
                            });
                        }
                        if mi == 1 && ki == 0 && pp != kp {
                            self.sample(json!({"op":"sign_verify","suite":cs,"keys_by":kp.name(),"signer":pp.name(),
                                "sk_len":sk.len(),"pk":hxs(pk.as_ref()),"msg":hxs(&msg),"sig":hxs(&sig),"verified_by":"all providers of the suite"}));
                        }
                    }
                }
            }
        }
        if sp.nist && self.tier != Tier::Mem {
            self.short_nist_secret_keys(ss, sp);
        }
    }

    fn sk_import_reject(&mut self, cs: u16, keys: Prov, user: Prov, op: &str, sk: &[u8], err: &str) {
        self.out.cov.bump(&format!("sk_import_reject:{}->{}:suite{cs}", keys.name(), user.name()));
        self.finding(
            format!("C14|sk_import_reject|{op}|keys={}|user={}|sk_len={}", keys.name(), user.name(), sk.len()),
            format!("suite {cs}: secret key generated by {} ({} bytes) rejected by {}: {}", keys.name(), sk.len(), user.name(), err),
        );
    }

    fn derive_public_check(&mut self, cs: u16, kp: Prov, sk: &[u8], want: Option<&[u8]>, res: &[(Prov, Oc)], class: &str) {
        for (dp, o) in res {
            if *o == Oc::Panic {
                continue;
            }
            if *dp != kp {
                let pn = pair_name(kp, *dp);
                self.out.cov.bump(&format!("pair:{pn}:suite{cs}"));
                self.out.cov.bump("op:signature_key_derive_public");
                self.out.cov.eval(Some(fnv(format!("derive_public|{cs}|{}>{}|{class}", kp.name(), dp.name()).as_bytes())));
            }
            match o {
                Oc::Acc(p) => {
                    if let Some(w) = want {
                        if p != w {
                            self.report(
                                Sev::Hard,
                                cs,
                                format!("C14|bytes|signature_key_derive_public|{class}|keys={}|deriver={}", kp.name(), dp.name()),
                                format!("generated pk {} derived pk {} (sk {} bytes)", hxs(w), hxs(p), sk.len()),
                            );
                        }
                    }
                }
                Oc::Rej(e) => {
                    if *dp == kp {
                        self.report(Sev::Hard, cs, format!("C14|self_roundtrip|signature_key_derive_public|{}", dp.name()), e.clone());
                    } else {
                        self.sk_import_reject(cs, kp, *dp, "signature_key_derive_public", sk, e);
                    }
                }
                Oc::Panic => {}
            }
        }
        // and all derivers agree with each other (also when no reference public key is known)
        let accs: Vec<&(Prov, Oc)> = res.iter().filter(|(_, o)| matches!(o, Oc::Acc(_))).collect();
        for w in accs.windows(2) {
            if w[0].1 != w[1].1 {
                self.report(
                    Sev::Hard,
                    cs,
                    format!("C14|bytes|signature_key_derive_public|{class}|{}", pair_name(w[0].0, w[1].0)),
                    format!("{} vs {}", w[0].1.brief(), w[1].1.brief()),
                );
            }
        }
    }

    /// OpenSSL and AWS-LC emit NIST secret scalars as minimal big-endian integers (a leading zero
    /// byte is dropped, 1 key in 256), RustCrypto emits fixed width. Both forms of the same
    /// scalar are therefore genuine provider outputs and must be accepted by everyone.
    fn short_nist_secret_keys(&mut self, ss: &SS, sp: &Sp) {
        let cs = sp.cs;
        let mut fixed = self.rng.bytes(sp.nsk);
        fixed[0] = 0;
        if cs == 5 {
            fixed[1] &= 0x7f;
        }
        let stripped: Vec<u8> = fixed.iter().copied().skip_while(|b| *b == 0).collect();
        let mut outs = vec![];
        for (class, skb) in [("fixed_width_leading_zero", fixed.clone()), ("minimal_stripped", stripped.clone())] {
            let sk = SignatureSecretKey::from(skb.clone());
            let res = self.all(ss, "signature_key_derive_public", |s| s.signature_key_derive_public(&sk).map(|p| p.to_vec()));
            self.out.cov.bump(&format!("op:sig_derive_public_{class}"));
            self.compare(Sev::Hard, "signature_key_derive_public", cs, class, true, Some(true), &res, || format!("sk={} ({}B)", hxs(&skb), skb.len()));
            outs.push(res);
            // sign with this form on each provider, verify on each
            let msg = self.rng.bytes(20);
            if let Some((_, Oc::Acc(pk))) = outs.last().unwrap().first().cloned() {
                let pk = SignaturePublicKey::from(pk);
                for (pp, ps) in ss {
                    let Oc::Acc(sig) = self.run1(*pp, "sign", || ps.sign(&sk, &msg)) else {
                        self.report(Sev::Hard, cs, format!("C14|valid_rejected|sign|{class}|{}", pp.name()), format!("sk={}", hxs(&skb)));
                        continue;
                    };
                    for (cp, cu) in ss {
                        let got = self.run1(*cp, "verify", || cu.verify(&pk, &sig, &msg).map(|_| vec![]));
                        self.interop("sign_verify", cs, *pp, *cp, *pp, class, &got, &[], || format!("sk={}", hxs(&skb)));
                    }
                }
            }
        }
        // both forms denote the same scalar
        if let (Some((_, Oc::Acc(a))), Some((_, Oc::Acc(b)))) = (outs[0].first(), outs[1].first()) {
            if a != b {
                self.report(Sev::Hard, cs, format!("C14|bytes|signature_key_derive_public|fixed_vs_minimal"), format!("{} vs {}", hxs(a), hxs(b)));
            }
        }
    }
}

/// Ed25519 group order L, little endian.
const ED25519_L: [u8; 32] = [
    0xed, 0xd3, 0xf5, 0x5c, 0x1a, 0x63, 0x12, 0x58, 0xd6, 0x9c, 0xf7, 0xa2, 0xde, 0xf9, 0xde, 0x14, 0, 0, 0, 0, 0, 0, 0, 0, 0, 0, 0, 0, 0, 0,
    0, 0x10,
];

fn ed25519_s_plus_l(sig: &[u8]) -> Option<Vec<u8>> {
    if sig.len() != 64 {
        return None;
    }
    let mut v = sig.to_vec();
    let mut carry = 0u16;
    for i in 0..32 {
        let t = v[32 + i] as u16 + ED25519_L[i] as u16 + carry;
        v[32 + i] = t as u8;
        carry = t >> 8;
    }
    (carry == 0).then_some(v)
}

fn nist_nid(cs: u16) -> Option<openssl::nid::Nid> {
    use openssl::nid::Nid;
    match cs {
        2 => Some(Nid::X9_62_PRIME256V1),
        5 => Some(Nid::SECP521R1),
        7 => Some(Nid::SECP384R1),
        _ => None,
    }
}

/// (r, n - s) re-encoded as DER: the "high-S" twin of an ECDSA signature, equally valid.
fn ecdsa_high_s(cs: u16, sig: &[u8]) -> Option<Vec<u8>> {
    use openssl::bn::{BigNum, BigNumContext};
    use openssl::ec::EcGroup;
    use openssl::ecdsa::EcdsaSig;
    let g = EcGroup::from_curve_name(nist_nid(cs)?).ok()?;
    let mut ctx = BigNumContext::new().ok()?;
    let mut n = BigNum::new().ok()?;
    g.order(&mut n, &mut ctx).ok()?;
    let parsed = EcdsaSig::from_der(sig).ok()?;
    let mut s2 = BigNum::new().ok()?;
    s2.checked_sub(&n, parsed.s()).ok()?;
    let r = parsed.r().to_owned().ok()?;
    EcdsaSig::from_private_components(r, s2).ok()?.to_der().ok()
}

/// Non-minimal (BER) encoding of r: an extra leading zero byte. Not valid DER.
fn ecdsa_r_padded(sig: &[u8]) -> Option<Vec<u8>> {
    // SEQUENCE hdr: 30 len | 30 81 len
    if sig.len() < 8 || sig[0] != 0x30 {
        return None;
    }
    let (hdr, body_len) = if sig[1] < 0x80 { (2usize, sig[1] as usize) } else if sig[1] == 0x81 { (3, sig[2] as usize) } else { return None };
    if sig.len() != hdr + body_len || sig[hdr] != 0x02 || sig[hdr + 1] >= 0x7f {
        return None;
    }
    let rl = sig[hdr + 1] as usize;
    let mut body = vec![0x02, (rl + 1) as u8, 0x00];
    body.extend_from_slice(&sig[hdr + 2..hdr + 2 + rl]);
    body.extend_from_slice(&sig[hdr + 2 + rl..]);
    let mut out = vec![0x30];
    if body.len() < 0x80 {
        out.push(body.len() as u8);
    } else if body.len() < 0x100 {
        out.push(0x81);
        out.push(body.len() as u8);
    } else {
        return None;
    }
    out.extend(body);
    Some(out)
}

impl Eng {
    fn sig_malformed(&mut self, ss: &SS, sp: &Sp) {
        let cs = sp.cs;
        let (pp, ps) = &ss[(self.shard as usize + cs as usize + 1) % ss.len()];
        let Ok(Ok((sk, pk))) = guarded(|| ps.signature_key_generate()) else { return };
        let Ok(Ok((_, pk_other))) = guarded(|| ps.signature_key_generate()) else { return };
        let msg = self.rng.bytes(48);
        let Oc::Acc(sig) = self.run1(*pp, "sign", || ps.sign(&sk, &msg)) else { return };
        let l = sig.len();
        let pkb = pk.to_vec();
        let mut cases: Vec<(String, Vec<u8>, Vec<u8>, Vec<u8>, Option<bool>)> = vec![
            ("sig_flip_first".into(), pkb.clone(), flip(&sig, 0), msg.clone(), Some(false)),
            ("sig_flip_mid".into(), pkb.clone(), flip(&sig, l / 2), msg.clone(), Some(false)),
            ("sig_flip_last".into(), pkb.clone(), flip(&sig, l - 1), msg.clone(), Some(false)),
            ("sig_truncated".into(), pkb.clone(), sig[..l - 1].to_vec(), msg.clone(), Some(false)),
            ("sig_empty".into(), pkb.clone(), vec![], msg.clone(), Some(false)),
            ("sig_extended".into(), pkb.clone(), [sig.clone(), vec![0]].concat(), msg.clone(), Some(false)),
            ("sig_zero".into(), pkb.clone(), vec![0; l], msg.clone(), Some(false)),
            ("wrong_msg".into(), pkb.clone(), sig.clone(), flip(&msg, 5), Some(false)),
            ("msg_truncated".into(), pkb.clone(), sig.clone(), msg[..47].to_vec(), Some(false)),
            ("wrong_pk".into(), pk_other.to_vec(), sig.clone(), msg.clone(), Some(false)),
            ("pk_truncated".into(), pkb[..pkb.len() - 1].to_vec(), sig.clone(), msg.clone(), Some(false)),
            ("pk_extended".into(), [pkb.clone(), vec![0]].concat(), sig.clone(), msg.clone(), Some(false)),
            ("pk_empty".into(), vec![], sig.clone(), msg.clone(), Some(false)),
            ("pk_zero".into(), vec![0; pkb.len()], sig.clone(), msg.clone(), Some(false)),
            ("pk_flip_last".into(), flip(&pkb, pkb.len() - 1), sig.clone(), msg.clone(), Some(false)),
        ];
        if sp.nist {
            let mut comp = vec![0x02 + (pkb[pkb.len() - 1] & 1)];
            comp.extend_from_slice(&pkb[1..1 + (pkb.len() - 1) / 2]);
            // a compressed encoding denotes the same point: accept/reject agreement only
            cases.push(("pk_compressed".into(), comp, sig.clone(), msg.clone(), None));
            let mut hyb = pkb.clone();
            hyb[0] = 0x06 + (pkb[pkb.len() - 1] & 1);
            cases.push(("pk_hybrid".into(), hyb, sig.clone(), msg.clone(), None));
            if let Some(s2) = ecdsa_high_s(cs, &sig) {
                cases.push(("ecdsa_high_s".into(), pkb.clone(), s2, msg.clone(), None));
            } else {
                self.out.inconclusive.push(format!("suite {cs}: could not build high-S signature from {}", hxs(&sig)));
            }
            if let Some(s2) = ecdsa_r_padded(&sig) {
                cases.push(("ecdsa_r_ber_padded".into(), pkb.clone(), s2, msg.clone(), None));
            }
        }
        if sp.ed25519 {
            if let Some(s2) = ed25519_s_plus_l(&sig) {
                cases.push(("ed25519_s_plus_l".into(), pkb.clone(), s2, msg.clone(), Some(false)));
            }
        }
        for (c, pk2, sig2, msg2, exp) in cases {
            self.out.cov.bump(&format!("malformed:verify_{c}"));
            let pk2 = SignaturePublicKey::from(pk2);
            let r = self.all(ss, "verify", |s| s.verify(&pk2, &sig2, &msg2).map(|_| vec![]));
            self.compare(Sev::Hard, "verify", cs, &c, false, exp, &r, || {
                format!("pk={} sig={} msg={} (valid sig by {})", hxs(pk2.as_ref()), hxs(&sig2), hxs(&msg2), pp.name())
            });
        }
        // Malformed *secret* keys: no provider emits these, so disagreement is a finding (Soft).
        let skb = sk.to_vec();
        let mut sks: Vec<(&str, Vec<u8>)> = vec![
            ("sk_empty", vec![]),
            ("sk_truncated1", skb[..skb.len() - 1].to_vec()),
            ("sk_extended1", [skb.clone(), vec![0x5a]].concat()),
            ("sk_zero", vec![0; skb.len()]),
            ("sk_ff", vec![0xff; skb.len()]),
        ];
        if sp.ed25519 {
            sks.push(("ed25519_seed_only", skb[..32].to_vec()));
            sks.push(("ed25519_wrong_public_half", [&skb[..32], pk_other.as_ref()].concat()));
        } else {
            sks.push(("nist_extra_leading_zero", [vec![0u8], skb.clone()].concat()));
        }
        for (c, b) in sks {
            self.out.cov.bump(&format!("malformed:{c}"));
            let k = SignatureSecretKey::from(b.clone());
            let r = self.all(ss, "signature_key_derive_public", |s| s.signature_key_derive_public(&k).map(|p| p.to_vec()));
            self.compare(Sev::Soft, "signature_key_derive_public", cs, c, true, None, &r, || format!("sk={} ({}B)", hxs(&b), b.len()));
            let r = self.all(ss, "sign", |s| s.sign(&k, &msg).map(|_| vec![]));
            self.compare(Sev::Soft, "sign", cs, c, false, None, &r, || format!("sk={} ({}B)", hxs(&b), b.len()));
        }
    }
}

// ---------------------------------------------------------------------- HPKE

#[derive(Clone)]
struct Combo {
    name: String,
    info: Vec<u8>,
    aad: Option<Vec<u8>>,
    pt: Vec<u8>,
    psk: Option<(Vec<u8>, Vec<u8>)>,
}

fn seal_with(s: &AnySuite, pk: &HpkePublicKey, c: &Combo) -> Result<HpkeCiphertext, AnyErr> {
    match &c.psk {
        None => s.hpke_seal(pk, &c.info, c.aad.as_deref(), &c.pt),
        Some((id, v)) => s.hpke_seal_psk(pk, &c.info, c.aad.as_deref(), &c.pt, HpkePsk::new(id, v)),
    }
}

#[allow(clippy::too_many_arguments)]
fn open_with(
    s: &AnySuite,
    ct: &HpkeCiphertext,
    sk: &HpkeSecretKey,
    pk: &HpkePublicKey,
    info: &[u8],
    aad: Option<&[u8]>,
    psk: Option<(&[u8], &[u8])>,
) -> Result<Vec<u8>, AnyErr> {
    match psk {
        None => s.hpke_open(ct, sk, pk, info, aad).map(|z| z.to_vec()),
        Some((id, v)) => s.hpke_open_psk(ct, sk, pk, info, aad, HpkePsk::new(id, v)).map(|z| z.to_vec()),
    }
}

impl Eng {
    fn combos(&mut self) -> Vec<Combo> {
        let (infos, aads, psks): (Vec<usize>, Vec<Option<usize>>, Vec<Option<(usize, usize)>>) = match self.tier {
            Tier::Mem => (vec![5], vec![None, Some(7)], vec![None, Some((4, 32))]),
            _ => (
                vec![0, 1, 64, 1024],
                vec![None, Some(0), Some(13), Some(1024)],
                vec![None, Some((1, 32)), Some((32, 64)), Some((300, 33))],
            ),
        };
        // 7 sizes against 4 psk modes: every size meets every mode within the 64 combinations
        let pts = [0usize, 1, 15, 16, 17, 1024, 65536];
        let mut v = vec![];
        let mut k = self.shard as usize;
        for i in &infos {
            for a in &aads {
                for p in &psks {
                    let mut pl = pts[k % pts.len()];
                    if pl == 65536 && self.tier == Tier::Mem {
                        pl = 100;
                    }
                    k += 1;
                    v.push(Combo {
                        name: format!(
                            "i{i}/a{}/{}/pt{pl}",
                            a.map(|x| x.to_string()).unwrap_or("None".into()),
                            p.map(|(a, b)| format!("psk{a}:{b}")).unwrap_or("base".into())
                        ),
                        info: self.rng.bytes(*i),
                        aad: a.map(|n| self.rng.bytes(n)),
                        pt: self.rng.bytes(pl),
                        psk: p.map(|(a, b)| (self.rng.bytes(a), self.rng.bytes(b))),
                    });
                }
            }
        }
        v
    }

    /// kem key pairs owned by provider `ks`: one generated, one derived from seeded ikm.
    fn kem_keys(&mut self, kp: Prov, ks: &AnySuite, sp: &Sp) -> Vec<(&'static str, HpkeSecretKey, HpkePublicKey)> {
        let mut v = vec![];
        match guarded(|| ks.kem_generate()) {
            Ok(Ok((sk, pk))) => {
                self.out.cov.bump(&format!("kem_sk_format:{}:suite{}:len{}", kp.name(), sp.cs, sk.len()));
                v.push(("gen", sk, pk))
            }
            Ok(Err(e)) => self.report(Sev::Hard, sp.cs, format!("C14|keygen_failed|kem_generate|{}", kp.name()), e.0),
            Err(m) => self.out.violate(PROP, format!("C14|panic|{}|kem_generate", kp.name()), m),
        }
        let ikm = self.rng.bytes(sp.nsk.max(32));
        if let Ok(Ok((sk, pk))) = guarded(|| ks.kem_derive(&ikm)) {
            v.push(("derive", sk, pk));
        }
        v
    }

    fn hpke_matrix(&mut self, ss: &SS, sp: &Sp) {
        let cs = sp.cs;
        let combos = self.combos();
        let mut seal_rejections = std::collections::BTreeSet::new();
        self.ctx_seal_empty.clear();
        for (kp, ks) in ss {
            let keys = self.kem_keys(*kp, ks, sp);
            if keys.is_empty() {
                continue;
            }
            for (pp, ps) in ss {
                for (cp, cu) in ss {
                    if pp != kp && cp != kp {
                        continue;
                    }
                    for (ci, c) in combos.iter().enumerate() {
                        let (ksrc, sk, pk) = &keys[ci % keys.len()];
                        let op = if c.psk.is_some() { "hpke_seal_psk" } else { "hpke_seal" };
                        let sealed = guarded(|| seal_with(ps, pk, c));
                        self.out.cov.bump("provider_calls");
                        let ct = match sealed {
                            Ok(Ok(ct)) => ct,
                            Ok(Err(_)) => {
                                // the producer refuses a well-formed request: compare the seal
                                // decision of every provider on this very input (once per combo)
                                if seal_rejections.insert(ci) {
                                    let r = self.all(ss, op, |s| seal_with(s, pk, c).map(|_| vec![]));
                                    self.sc(if c.pt.is_empty() { "empty_plaintext" } else { "valid" });
                                    // an empty plaintext is well defined in RFC 9180 but the property only asks the
                                    // providers to agree: no expected verdict for it
                                    let exp = if c.pt.is_empty() { None } else { Some(true) };
                                    self.compare(Sev::Hard, op, cs, &c.name, false, exp, &r, || format!("{ksrc} key by {} pk={}", kp.name(), hxs(pk.as_ref())));
                                }
                                continue;
                            }
                            Err(m) => {
                                self.out.violate(PROP, format!("C14|panic|{}|{op}", pp.name()), m);
                                continue;
                            }
                        };
                        let oop = if c.psk.is_some() { "hpke_open_psk" } else { "hpke_open" };
                        let psk = c.psk.as_ref().map(|(a, b)| (a.as_slice(), b.as_slice()));
                        let got = self.run1(*cp, oop, || open_with(cu, &ct, sk, pk, &c.info, c.aad.as_deref(), psk));
                        self.sc(if c.pt.is_empty() { "empty_plaintext" } else { "valid" });
                        self.interop(oop, cs, *pp, *cp, *kp, &format!("{}/{ksrc}", c.name), &got, &c.pt, || {
                            format!("pk={} kem_output={} ct={} info={}", hxs(pk.as_ref()), hxs(&ct.kem_output), hxs(&ct.ciphertext), hxs(&c.info))
                        });
                        if ci == 6 && pp != cp && pp == kp {
                            self.sample(json!({"op":oop,"suite":cs,"producer":pp.name(),"consumer":cp.name(),"keys_by":kp.name(),"combo":c.name,
                                "pk":hxs(pk.as_ref()),"kem_output":hxs(&ct.kem_output),"ct":hxs(&ct.ciphertext),"opened":got.cls()}));
                        }
                    }
                    self.hpke_setup_sequence(cs, sp, (*kp, &keys), (*pp, ps), (*cp, cu));
                }
            }
        }
        // HpkeContextS::seal of an empty plaintext: one decision per provider, compared here
        let r: Vec<(Prov, Oc)> = self.ctx_seal_empty.iter().map(|(p, o)| (*p, o.clone())).collect();
        if r.len() > 1 {
            self.sc("empty_plaintext");
            self.compare(Sev::Hard, "ctx_seal", cs, "empty_plaintext", false, None, &r, || "first message of a fresh sender context, empty plaintext, aad None".into());
        }
    }

    /// hpke_setup_s on the producer, hpke_setup_r on the consumer, three messages in order, export
    /// equality (including the length limit).
    fn hpke_setup_sequence(
        &mut self,
        cs: u16,
        sp: &Sp,
        (kp, keys): (Prov, &Vec<(&'static str, HpkeSecretKey, HpkePublicKey)>),
        (pp, ps): (Prov, &AnySuite),
        (cp, cu): (Prov, &AnySuite),
    ) {
        let infos: Vec<usize> = if self.tier == Tier::Mem { vec![3] } else { vec![0, 64] };
        for (ii, il) in infos.iter().enumerate() {
            let (ksrc, sk, pk) = &keys[ii % keys.len()];
            let info = self.rng.bytes(*il);
            let class = format!("setup/i{il}/{ksrc}");
            self.out.cov.bump("provider_calls");
            let (kem_out, mut cs_ctx) = match guarded(|| ps.hpke_setup_s(pk, &info)) {
                Ok(Ok(x)) => x,
                Ok(Err(e)) => {
                    self.report(Sev::Hard, cs, format!("C14|interop|hpke_setup_s|producer={}|keys={}|rejected", pp.name(), kp.name()), e.0);
                    continue;
                }
                Err(m) => {
                    self.out.violate(PROP, format!("C14|panic|{}|hpke_setup_s", pp.name()), m);
                    continue;
                }
            };
            self.out.cov.bump("provider_calls");
            let mut cr_ctx = match guarded(|| cu.hpke_setup_r(&kem_out, sk, pk, &info)) {
                Ok(Ok(x)) => x,
                Ok(Err(e)) => {
                    self.interop("hpke_setup_r", cs, pp, cp, kp, &class, &Oc::Rej(e.0), &[], || format!("kem_output={}", hxs(&kem_out)));
                    continue;
                }
                Err(m) => {
                    self.out.violate(PROP, format!("C14|panic|{}|hpke_setup_r", cp.name()), m);
                    continue;
                }
            };
            self.interop("hpke_setup_r", cs, pp, cp, kp, &class, &Oc::Acc(vec![]), &[], String::new);
            let msgs: [(Option<Vec<u8>>, usize); 3] = [(Some(vec![]), 17), (Some(self.rng.bytes(21)), 1024), (None, 0)];
            for (mi, (aad, pl)) in msgs.iter().enumerate() {
                let pt = self.rng.bytes(*pl);
                let ct = self.run1(pp, "ctx_seal", || cs_ctx.seal(aad.as_deref(), &pt));
                if pt.is_empty() {
                    self.ctx_seal_empty.entry(pp).or_insert_with(|| ct.clone());
                }
                let Oc::Acc(ct) = ct else {
                    if let Oc::Rej(e) = ct {
                        if !pt.is_empty() {
                            self.report(Sev::Hard, cs, format!("C14|valid_rejected|ctx_seal|msg{mi}|{}", pp.name()), e);
                        }
                    }
                    // a context that refused message 0 is still at sequence number 0 on both sides
                    continue;
                };
                let got = self.run1(cp, "ctx_open", || cr_ctx.open(aad.as_deref(), &ct).map(|z| z.to_vec()));
                self.sc(if pt.is_empty() { "empty_plaintext" } else { "valid" });
                self.interop("ctx_open", cs, pp, cp, kp, &format!("{class}/msg{mi}"), &got, &pt, || format!("ct={}", hxs(&ct)));
            }
            // exports
            let max = 255 * sp.nh;
            let exps: Vec<(usize, usize)> = if self.tier == Tier::Mem { vec![(4, 32)] } else { vec![(0, 1), (4, 32), (64, sp.nh + 1), (9, max), (9, max + 1), (3, 0)] };
            for (cl, n) in exps {
                let ectx = self.rng.bytes(cl);
                let a = self.run1(pp, "ctx_export", || cs_ctx.export(&ectx, n).map(|z| z.to_vec()));
                let b = self.run1(cp, "ctx_export", || cr_ctx.export(&ectx, n).map(|z| z.to_vec()));
                if pp == cp {
                    self.out.cov.bump("control:ctx_export");
                }
                let exp = if n > max { Some(false) } else if n == 0 { None } else { Some(true) };
                if n > max {
                    self.out.cov.bump("malformed:hpke_export_oversize");
                }
                let mut res = [(pp, a), (cp, b)];
                res.sort_by_key(|x| x.0);
                if pp != cp {
                    self.sc(if n > max { "oversize" } else if n == 0 { "out_len0" } else { "valid" });
                    self.compare(Sev::Hard, "ctx_export", cs, &format!("{class}/c{cl}/l{}", if n > max { "max+1".into() } else if n == max { "max".to_string() } else { n.to_string() }), true, exp, &res, || {
                        format!("sender={} receiver={} exporter_context={} len={n}", pp.name(), cp.name(), hxs(&ectx))
                    });
                } else if res[0].1 != res[1].1 {
                    self.report(Sev::Hard, cs, format!("C14|self_roundtrip|ctx_export|{}", pp.name()), format!("{} vs {}", res[0].1.brief(), res[1].1.brief()));
                }
            }
        }
    }
}

fn unhex(s: &str) -> Vec<u8> {
    hex::decode(s).expect("static hex")
}

impl Eng {
    fn hpke_malformed(&mut self, ss: &SS, sp: &Sp) {
        let cs = sp.cs;
        let (pp, ps) = &ss[(self.shard as usize + cs as usize + 2) % ss.len()];
        let keys = self.kem_keys(*pp, ps, sp);
        let Some((_, sk, pk)) = keys.first().cloned() else { return };
        let Ok(Ok((sk2, pk2))) = guarded(|| ps.kem_generate()) else { return };
        let info = self.rng.bytes(16);
        let aad = self.rng.bytes(8);
        let pt = self.rng.bytes(32);
        let pid = self.rng.bytes(6);
        let pval = self.rng.bytes(32);
        let base = Combo { name: "m".into(), info: info.clone(), aad: Some(aad.clone()), pt: pt.clone(), psk: None };
        let pskc = Combo { psk: Some((pid.clone(), pval.clone())), ..base.clone() };
        let Ok(Ok(ct)) = guarded(|| seal_with(ps, &pk, &base)) else { return };
        let Ok(Ok(ctp)) = guarded(|| seal_with(ps, &pk, &pskc)) else { return };
        let hc = |ko: Vec<u8>, c: Vec<u8>| HpkeCiphertext { kem_output: ko, ciphertext: c };
        let ko = ct.kem_output.clone();
        let cb = ct.ciphertext.clone();
        let cl = cb.len();
        type Case = (&'static str, HpkeCiphertext, HpkeSecretKey, HpkePublicKey, Vec<u8>, Option<Vec<u8>>, Option<(Vec<u8>, Vec<u8>)>, Option<bool>);
        let b = |name: &'static str, c: HpkeCiphertext, i: Vec<u8>, a: Option<Vec<u8>>| -> Case { (name, c, sk.clone(), pk.clone(), i, a, None, Some(false)) };
        let mut cases: Vec<Case> = vec![
            b("wrong_info", ct.clone(), flip(&info, 0), Some(aad.clone())),
            b("info_empty", ct.clone(), vec![], Some(aad.clone())),
            b("wrong_aad", ct.clone(), info.clone(), Some(flip(&aad, 0))),
            b("aad_missing", ct.clone(), info.clone(), None),
            b("kem_output_truncated", hc(ko[..ko.len() - 1].to_vec(), cb.clone()), info.clone(), Some(aad.clone())),
            b("kem_output_empty", hc(vec![], cb.clone()), info.clone(), Some(aad.clone())),
            b("kem_output_extended", hc([ko.clone(), vec![0]].concat(), cb.clone()), info.clone(), Some(aad.clone())),
            b("kem_output_zero", hc(vec![0; ko.len()], cb.clone()), info.clone(), Some(aad.clone())),
            b("kem_output_flip_last", hc(flip(&ko, ko.len() - 1), cb.clone()), info.clone(), Some(aad.clone())),
            b("kem_output_other_key", hc(pk2.to_vec(), cb.clone()), info.clone(), Some(aad.clone())),
            b("ct_truncated", hc(ko.clone(), cb[..cl - 1].to_vec()), info.clone(), Some(aad.clone())),
            b("ct_tag_only", hc(ko.clone(), cb[cl - 16..].to_vec()), info.clone(), Some(aad.clone())),
            b("ct_len15", hc(ko.clone(), cb[..15].to_vec()), info.clone(), Some(aad.clone())),
            b("ct_empty", hc(ko.clone(), vec![]), info.clone(), Some(aad.clone())),
            b("ct_flip_first", hc(ko.clone(), flip(&cb, 0)), info.clone(), Some(aad.clone())),
            b("tag_flip_last", hc(ko.clone(), flip(&cb, cl - 1)), info.clone(), Some(aad.clone())),
            ("wrong_sk", ct.clone(), sk2.clone(), pk.clone(), info.clone(), Some(aad.clone()), None, Some(false)),
            ("wrong_local_public", ct.clone(), sk.clone(), pk2.clone(), info.clone(), Some(aad.clone()), None, Some(false)),
            ("psk_open_on_base_ct", ct.clone(), sk.clone(), pk.clone(), info.clone(), Some(aad.clone()), Some((pid.clone(), pval.clone())), Some(false)),
            ("base_open_on_psk_ct", ctp.clone(), sk.clone(), pk.clone(), info.clone(), Some(aad.clone()), None, Some(false)),
            ("wrong_psk_id", ctp.clone(), sk.clone(), pk.clone(), info.clone(), Some(aad.clone()), Some((flip(&pid, 0), pval.clone())), Some(false)),
            ("psk_id_empty", ctp.clone(), sk.clone(), pk.clone(), info.clone(), Some(aad.clone()), Some((vec![], pval.clone())), Some(false)),
            ("wrong_psk_value", ctp.clone(), sk.clone(), pk.clone(), info.clone(), Some(aad.clone()), Some((pid.clone(), flip(&pval, 31))), Some(false)),
            ("psk_value_truncated", ctp.clone(), sk.clone(), pk.clone(), info.clone(), Some(aad.clone()), Some((pid.clone(), pval[..31].to_vec())), Some(false)),
            ("psk_value_empty", ctp.clone(), sk.clone(), pk.clone(), info.clone(), Some(aad.clone()), Some((pid.clone(), vec![])), Some(false)),
        ];
        // secret keys of the wrong length: agreement only
        cases.push(("sk_truncated", ct.clone(), sk[..sk.len() - 1].to_vec().into(), pk.clone(), info.clone(), Some(aad.clone()), None, None));
        cases.push(("sk_extended", ct.clone(), [sk.to_vec(), vec![1]].concat().into(), pk.clone(), info.clone(), Some(aad.clone()), None, None));
        cases.push(("sk_empty", ct.clone(), vec![].into(), pk.clone(), info.clone(), Some(aad.clone()), None, None));
        cases.push(("sk_zero", ct.clone(), vec![0; sk.len()].into(), pk.clone(), info.clone(), Some(aad.clone()), None, None));
        for (c, ct2, sk_, pk_, i2, a2, psk2, exp) in cases {
            self.out.cov.bump(&format!("malformed:hpke_{c}"));
            let op = if psk2.is_some() { "hpke_open_psk" } else { "hpke_open" };
            let r = self.all(ss, op, |s| open_with(s, &ct2, &sk_, &pk_, &i2, a2.as_deref(), psk2.as_ref().map(|(a, b)| (a.as_slice(), b.as_slice()))));
            // secret-key length classes are Soft: no provider emits such keys
            let sev = if c.starts_with("sk_") { Sev::Soft } else { Sev::Hard };
            self.compare(sev, op, cs, c, true, exp, &r, || {
                format!("kem_output={} ct={} (valid ct by {})", hxs(&ct2.kem_output), hxs(&ct2.ciphertext), pp.name())
            });
            // the same damage through setup_r (+ first open)
            let r = self.all(ss, "hpke_setup_r", |s| {
                if psk2.is_some() {
                    return Err(AnyErr("n/a".into()));
                }
                let mut c = s.hpke_setup_r(&ct2.kem_output, &sk_, &pk_, &i2)?;
                c.open(a2.as_deref(), &ct2.ciphertext).map(|z| z.to_vec())
            });
            if psk2.is_none() {
                self.compare(sev, "hpke_setup_r+open", cs, c, true, exp, &r, || format!("kem_output={}", hxs(&ct2.kem_output)));
            }
        }
        // sealing with an inadmissible PSK
        for (c, id, val) in [("seal_psk_value_31", pid.clone(), pval[..31].to_vec()), ("seal_psk_value_empty", pid.clone(), vec![]), ("seal_psk_id_empty", vec![], pval.clone())] {
            self.out.cov.bump(&format!("malformed:hpke_{c}"));
            let r = self.all(ss, "hpke_seal_psk", |s| s.hpke_seal_psk(&pk, &info, Some(&aad), &pt, HpkePsk::new(&id, &val)).map(|_| vec![]));
            self.compare(Sev::Hard, "hpke_seal_psk", cs, c, false, None, &r, || format!("psk_id={} psk={}", hxs(&id), hxs(&val)));
        }
        // out-of-order open on a context: message 1 presented before message 0
        if self.tier != Tier::Mem {
            self.out.cov.bump("malformed:hpke_ctx_out_of_order");
            let made = guarded(|| -> Result<(Vec<u8>, Vec<u8>, Vec<u8>), AnyErr> {
                let (k, mut c) = ps.hpke_setup_s(&pk, &info)?;
                let m0 = c.seal(None, b"zero")?;
                let m1 = c.seal(None, b"one")?;
                Ok((k, m0, m1))
            });
            if let Ok(Ok((k, m0, m1))) = made {
                let r = self.all(ss, "ctx_open", |s| {
                    let mut c = s.hpke_setup_r(&k, &sk, &pk, &info)?;
                    let first = c.open(None, &m1).is_ok();
                    let second = c.open(None, &m0).map(|z| z.to_vec());
                    // classification: (m1-first accepted?, then m0 result)
                    if first {
                        Ok(vec![1])
                    } else {
                        second.map(|mut v| {
                            v.insert(0, 0);
                            v
                        }).or(Ok(vec![2]))
                    }
                });
                self.compare(Sev::Hard, "ctx_open", cs, "out_of_order", true, None, &r, || "m1 opened before m0".into());
                for (p, o) in &r {
                    if matches!(o, Oc::Acc(v) if v == &vec![1]) {
                        self.report(Sev::Hard, cs, format!("C14|malformed_accepted|ctx_open|out_of_order|{}", p.name()), "message 1 accepted at sequence number 0".to_string());
                    }
                }
            }
        }
    }

    /// Malformed recipient public keys: hpke_seal / hpke_setup_s / kem_public_key_validate.
    fn bad_public_keys(&mut self, ss: &SS, sp: &Sp) {
        let cs = sp.cs;
        let (pp, ps) = &ss[(self.shard as usize + cs as usize) % ss.len()];
        let Ok(Ok((_, pk))) = guarded(|| ps.kem_generate()) else { return };
        let pkb = pk.to_vec();
        let n = pkb.len();
        if n != sp.npk {
            self.report(Sev::Hard, cs, format!("C14|kem_pk_len|{}", pp.name()), format!("kem_generate public key has {n} bytes, expected {}", sp.npk));
        }
        // (class, bytes, expectation for seal, expectation for validate)
        let mut cases: Vec<(String, Vec<u8>, Option<bool>, Option<bool>)> = vec![
            ("pk_len-1".into(), pkb[..n - 1].to_vec(), Some(false), Some(false)),
            ("pk_len+1".into(), [pkb.clone(), vec![0]].concat(), Some(false), Some(false)),
            ("pk_empty".into(), vec![], Some(false), Some(false)),
            ("pk_len1".into(), vec![4], Some(false), Some(false)),
            ("pk_double".into(), [pkb.clone(), pkb.clone()].concat(), Some(false), Some(false)),
        ];
        if sp.nist {
            let mut rnd = self.rng.bytes(n);
            rnd[0] = 4;
            let mut comp = vec![0x02 + (pkb[n - 1] & 1)];
            comp.extend_from_slice(&pkb[1..1 + (n - 1) / 2]);
            let mut hyb = pkb.clone();
            hyb[0] = 0x06 + (pkb[n - 1] & 1);
            let mut zero_xy = vec![0u8; n];
            zero_xy[0] = 4;
            let mut bad_prefix = pkb.clone();
            bad_prefix[0] = 5;
            cases.extend([
                ("pk_all_zero".into(), vec![0u8; n], Some(false), Some(false)),
                ("pk_infinity".into(), vec![0u8], Some(false), Some(false)),
                ("pk_04_zero_xy".into(), zero_xy, Some(false), Some(false)),
                ("pk_off_curve_flip".into(), flip(&pkb, n - 1), Some(false), Some(false)),
                ("pk_off_curve_random".into(), rnd, Some(false), Some(false)),
                ("pk_bad_prefix".into(), bad_prefix, Some(false), Some(false)),
                // same point, other SEC1 encodings: HPKE wants uncompressed, but only agreement is checked
                ("pk_compressed".into(), comp, None, None),
                ("pk_hybrid".into(), hyb, None, None),
                ("pk_ff".into(), [vec![4u8], vec![0xff; n - 1]].concat(), Some(false), Some(false)),
            ]);
        } else {
            // X25519: low-order points give an all-zero shared secret, which RFC 9180 s7.1.4
            // obliges HPKE to reject; validation of the key alone may accept them.
            cases.extend([
                ("x25519_zero".into(), vec![0u8; 32], Some(false), None),
                ("x25519_one".into(), [vec![1u8], vec![0u8; 31]].concat(), Some(false), None),
                ("x25519_low_order_e0eb".into(), unhex("e0eb7a7c3b41b8ae1656e3faf19fc46ada098deb9c32b1fd866205165f49b800"), Some(false), None),
                ("x25519_low_order_5f9c".into(), unhex("5f9c95bca3508c24b1d0b1559c83ef5b04445cc4581c8e86d8224eddd09f1157"), Some(false), None),
                ("x25519_p_minus_1".into(), unhex("ecffffffffffffffffffffffffffffffffffffffffffffffffffffffffffff7f"), Some(false), None),
                ("x25519_p".into(), unhex("edffffffffffffffffffffffffffffffffffffffffffffffffffffffffffff7f"), Some(false), None),
                ("x25519_p_plus_1".into(), unhex("eeffffffffffffffffffffffffffffffffffffffffffffffffffffffffffff7f"), Some(false), None),
                // non-canonical but otherwise fine (high bit set is masked per RFC 7748)
                ("x25519_high_bit".into(), { let mut v = pkb.clone(); v[31] |= 0x80; v }, None, None),
            ]);
        }
        if self.tier == Tier::Mem {
            cases.truncate(7);
        }
        let info = self.rng.bytes(4);
        let pt = self.rng.bytes(10);
        for (c, b, exp_seal, exp_val) in cases {
            self.out.cov.bump(&format!("malformed:{c}"));
            let k = HpkePublicKey::from(b.clone());
            let d = || format!("pk={} ({}B; derived from a {} key)", hxs(&b), b.len(), pp.name());
            let low = c.starts_with("x25519_") && c != "x25519_high_bit";
            let coarse = if low { "x25519_low_order_point".to_string() } else if c.starts_with("pk_len") || c == "pk_empty" || c == "pk_double" { "pk_wrong_length".to_string() } else { c.clone() };
            let r = self.all(ss, "kem_public_key_validate", |s| s.kem_public_key_validate(&k).map(|_| vec![]));
            self.sc(&coarse);
            self.compare(Sev::Hard, "kem_public_key_validate", cs, &c, false, exp_val, &r, d);
            let r = self.all(ss, "hpke_seal", |s| s.hpke_seal(&k, &info, None, &pt).map(|_| vec![]));
            self.sc(&coarse);
            self.compare(Sev::Hard, "hpke_seal", cs, &c, false, exp_seal, &r, d);
            let r = self.all(ss, "hpke_setup_s", |s| s.hpke_setup_s(&k, &info).map(|_| vec![]));
            self.sc(&coarse);
            self.compare(Sev::Hard, "hpke_setup_s", cs, &c, false, exp_seal, &r, d);
        }
    }
}

// ---------------------------------------------------------------------- (d) X.509

mod mint {
    //! Certificate minting with the `openssl` crate directly (no validator under test involved).
    use openssl::asn1::Asn1Time;
    use openssl::bn::{BigNum, BigNumContext};
    use openssl::ec::{EcGroup, EcKey, EcPoint, PointConversionForm};
    use openssl::error::ErrorStack;
    use openssl::hash::MessageDigest;
    use openssl::nid::Nid;
    use openssl::pkey::{Id, PKey, Private};
    use openssl::x509::extension::{BasicConstraints, KeyUsage};
    use openssl::x509::{X509Builder, X509NameBuilder};

    pub struct Key {
        pub pkey: PKey<Private>,
        pub ed: bool,
        /// what a validator must return for a leaf carrying this key
        pub public: Vec<u8>,
    }

    /// Deterministic key from 32 seed bytes.
    pub fn key(seed: &[u8], ed: bool) -> Result<Key, ErrorStack> {
        if ed {
            let pkey = PKey::private_key_from_raw_bytes(&seed[..32], Id::ED25519)?;
            let public = pkey.raw_public_key()?;
            Ok(Key { pkey, ed, public })
        } else {
            let group = EcGroup::from_curve_name(Nid::X9_62_PRIME256V1)?;
            let mut s = seed[..32].to_vec();
            s[0] &= 0x7f;
            s[31] |= 1;
            let d = BigNum::from_slice(&s)?;
            let mut ctx = BigNumContext::new()?;
            let mut q = EcPoint::new(&group)?;
            q.mul_generator2(&group, &d, &mut ctx)?;
            let ec = EcKey::from_private_components(&group, &d, &q)?;
            let public = q.to_bytes(&group, PointConversionForm::UNCOMPRESSED, &mut ctx)?;
            Ok(Key { pkey: PKey::from_ec_key(ec)?, ed, public })
        }
    }

    #[derive(Clone, Copy, PartialEq, Debug)]
    pub enum Bc {
        Absent,
        CaTrue,
        CaFalse,
    }
    #[derive(Clone, Copy, PartialEq, Debug)]
    pub enum Ku {
        Absent,
        CertSign,
        DigitalSignatureOnly,
    }

    pub struct Spec<'a> {
        pub subject: &'a str,
        pub issuer: &'a str,
        pub key: &'a Key,
        pub signer: &'a Key,
        pub nb: i64,
        pub na: i64,
        pub bc: Bc,
        pub ku: Ku,
        pub serial: u32,
    }

    pub fn cert(s: &Spec) -> Result<Vec<u8>, ErrorStack> {
        let mut b = X509Builder::new()?;
        b.set_version(2)?;
        let serial = BigNum::from_u32(s.serial)?.to_asn1_integer()?;
        b.set_serial_number(&serial)?;
        let mut n = X509NameBuilder::new()?;
        n.append_entry_by_nid(Nid::ORGANIZATIONNAME, "mlsverif C14")?;
        n.append_entry_by_nid(Nid::COMMONNAME, s.subject)?;
        b.set_subject_name(&n.build())?;
        let mut n = X509NameBuilder::new()?;
        n.append_entry_by_nid(Nid::ORGANIZATIONNAME, "mlsverif C14")?;
        n.append_entry_by_nid(Nid::COMMONNAME, s.issuer)?;
        b.set_issuer_name(&n.build())?;
        b.set_pubkey(&s.key.pkey)?;
        b.set_not_before(Asn1Time::from_unix(s.nb)?.as_ref())?;
        b.set_not_after(Asn1Time::from_unix(s.na)?.as_ref())?;
        match s.bc {
            Bc::Absent => {}
            Bc::CaTrue => b.append_extension(BasicConstraints::new().critical().ca().build()?)?,
            Bc::CaFalse => b.append_extension(BasicConstraints::new().critical().build()?)?,
        }
        match s.ku {
            Ku::Absent => {}
            Ku::CertSign => b.append_extension(KeyUsage::new().critical().key_cert_sign().crl_sign().build()?)?,
            Ku::DigitalSignatureOnly => b.append_extension(KeyUsage::new().critical().digital_signature().build()?)?,
        }
        let md = if s.signer.ed { MessageDigest::null() } else { MessageDigest::sha256() };
        b.sign(&s.signer.pkey, md)?;
        b.build().to_der()
    }
}

const X509_VARIANTS: [&str; 21] = [
    "valid",
    "valid_ca_without_ku",
    "window_leaf",
    "window_intermediate",
    "window_root",
    "expired",
    "not_yet_valid",
    "expired_intermediate",
    "wrong_issuer_sig_leaf",
    "wrong_issuer_sig_intermediate",
    "missing_intermediate",
    "reordered_intermediate",
    "non_ca_issuer_bc_false",
    "non_ca_issuer_no_bc",
    "non_ca_issuer_no_bc_ku_certsign",
    "ca_ku_without_certsign",
    "unknown_root",
    "unknown_root_same_name",
    "no_trust_anchors",
    "leaf_signature_bitflip",
    "untrusted_root_in_chain",
];

#[derive(Clone, Copy, PartialEq, Debug)]
enum KeyKind {
    P256,
    Ed25519,
    Mixed,
}

struct Built {
    variant: &'static str,
    shape: String,
    chain: Vec<Vec<u8>>,
    anchors: Vec<Vec<u8>>,
    /// validity windows of the non-root certificates on the intended path, and of the root
    windows: Vec<(i64, i64)>,
    root_window: (i64, i64),
    /// Some(false): must be rejected at every time; Some(true): accepted iff inside all windows;
    /// None: no ground truth for the shape itself (cross-provider comparison only)
    shape_ok: Option<bool>,
    leaf_public: Vec<u8>,
}

impl Built {
    fn expected(&self, t: i64) -> Option<bool> {
        if self.shape_ok == Some(false) {
            return Some(false);
        }
        if self.windows.iter().any(|(nb, na)| t < *nb || t > *na) {
            return Some(false);
        }
        // whether a trust anchor's own validity is enforced is not fixed by RFC 5280 s6.1
        if t < self.root_window.0 || t > self.root_window.1 {
            return None;
        }
        self.shape_ok
    }
}

impl Eng {
    fn build_chain(&mut self, variant: &'static str, kind: KeyKind, mut n_inter: usize, include_root: bool, id: u64) -> Result<Built, String> {
        use mint::{Bc, Ku, Spec};
        let need = match variant {
            "reordered_intermediate" => 2,
            "window_intermediate" | "expired_intermediate" | "wrong_issuer_sig_intermediate" | "missing_intermediate" | "non_ca_issuer_bc_false"
            | "non_ca_issuer_no_bc" | "non_ca_issuer_no_bc_ku_certsign" | "ca_ku_without_certsign" => 1,
            _ => 0,
        };
        n_inter = n_inter.max(need);
        let e = |x: openssl::error::ErrorStack| format!("mint: {x}");
        // level 0 = root, 1..=n_inter intermediates (top down), last = leaf
        let levels = n_inter + 2;
        let is_ed = |lvl: usize| match kind {
            KeyKind::P256 => false,
            KeyKind::Ed25519 => true,
            KeyKind::Mixed => lvl % 2 == 1,
        };
        let mut keys = vec![];
        for lvl in 0..levels {
            keys.push(mint::key(&self.rng.bytes(32), is_ed(lvl)).map_err(e)?);
        }
        let names: Vec<String> = (0..levels)
            .map(|l| if l == 0 { format!("Root {id}") } else if l == levels - 1 { format!("Leaf {id}") } else { format!("Inter {id}.{l}") })
            .collect();
        let wide = (NB - 10 * DAY, NA + 10 * DAY);
        let focus = (NB, NA);
        let past = (NB - 60 * DAY, NB - 30 * DAY);
        let future = (NA + 30 * DAY, NA + 60 * DAY);
        let low_inter = levels - 2; // the certificate that issues the leaf (root if n_inter == 0)
        let mut win = vec![focus; levels];
        match variant {
            "window_leaf" => {
                win = vec![wide; levels];
                win[levels - 1] = focus;
            }
            "window_intermediate" => {
                win = vec![wide; levels];
                win[low_inter] = focus;
            }
            "window_root" => {
                win = vec![wide; levels];
                win[0] = focus;
            }
            "expired" => {
                win = vec![wide; levels];
                win[levels - 1] = past;
            }
            "not_yet_valid" => {
                win = vec![wide; levels];
                win[levels - 1] = future;
            }
            "expired_intermediate" => {
                win = vec![wide; levels];
                win[low_inter] = past;
            }
            _ => {}
        }
        // rogue signing keys, one per algorithm, so that only the signature (not the algorithm) is wrong
        let rogue_ec = mint::key(&self.rng.bytes(32), false).map_err(e)?;
        let rogue_ed = mint::key(&self.rng.bytes(32), true).map_err(e)?;
        let mut certs: Vec<Vec<u8>> = vec![];
        for lvl in 0..levels {
            let issuer_lvl = lvl.saturating_sub(1);
            let leaf = lvl == levels - 1;
            let mut bc = if leaf { Bc::CaFalse } else { Bc::CaTrue };
            let mut ku = if leaf { Ku::DigitalSignatureOnly } else { Ku::CertSign };
            if variant == "valid_ca_without_ku" && !leaf {
                ku = Ku::Absent;
            }
            if lvl == low_inter && lvl != 0 {
                match variant {
                    "non_ca_issuer_bc_false" => {
                        bc = Bc::CaFalse;
                        ku = Ku::Absent;
                    }
                    "non_ca_issuer_no_bc" => {
                        bc = Bc::Absent;
                        ku = Ku::Absent;
                    }
                    "non_ca_issuer_no_bc_ku_certsign" => {
                        bc = Bc::Absent;
                        ku = Ku::CertSign;
                    }
                    "ca_ku_without_certsign" => {
                        ku = Ku::DigitalSignatureOnly;
                    }
                    _ => {}
                }
            }
            let mut signer = &keys[issuer_lvl];
            if (variant == "wrong_issuer_sig_leaf" && leaf) || (variant == "wrong_issuer_sig_intermediate" && lvl == low_inter && lvl != 0) {
                signer = if keys[issuer_lvl].ed { &rogue_ed } else { &rogue_ec };
            }
            certs.push(
                mint::cert(&Spec {
                    subject: &names[lvl],
                    issuer: &names[issuer_lvl],
                    key: &keys[lvl],
                    signer,
                    nb: win[lvl].0,
                    na: win[lvl].1,
                    bc,
                    ku,
                    serial: (id as u32).wrapping_mul(16).wrapping_add(lvl as u32 + 1),
                })
                .map_err(e)?,
            );
        }
        // chain as sent: leaf first, then intermediates bottom-up, optionally the root
        let mut chain: Vec<Vec<u8>> = (1..levels).rev().map(|l| certs[l].clone()).collect();
        if include_root {
            chain.push(certs[0].clone());
        }
        let mut anchors = vec![certs[0].clone()];
        let mut shape_ok = Some(true);
        match variant {
            "expired" | "not_yet_valid" | "expired_intermediate" | "wrong_issuer_sig_leaf" | "wrong_issuer_sig_intermediate" | "non_ca_issuer_bc_false"
            | "non_ca_issuer_no_bc" | "non_ca_issuer_no_bc_ku_certsign" | "ca_ku_without_certsign" => shape_ok = Some(false),
            "missing_intermediate" => {
                let drop_at = 1 + self.rng.below(n_inter); // index in chain of an intermediate
                chain.remove(drop_at);
                shape_ok = Some(false);
            }
            "reordered_intermediate" => {
                chain.swap(1, 2);
                // RFC 9420 s5.3 only fixes chain[0] as the end-entity certificate; path building from
                // an unordered bag is legitimate, strict ordering is legitimate too: no ground truth
                shape_ok = None;
            }
            "unknown_root" | "unknown_root_same_name" | "untrusted_root_in_chain" => {
                let other = mint::key(&self.rng.bytes(32), is_ed(0)).map_err(e)?;
                let name = if variant == "unknown_root_same_name" { names[0].clone() } else { format!("Other Root {id}") };
                anchors = vec![mint::cert(&Spec { subject: &name, issuer: &name, key: &other, signer: &other, nb: wide.0, na: wide.1, bc: Bc::CaTrue, ku: Ku::CertSign, serial: 999 }).map_err(e)?];
                if variant == "untrusted_root_in_chain" && !include_root {
                    chain.push(certs[0].clone());
                }
                shape_ok = Some(false);
            }
            "no_trust_anchors" => {
                anchors = vec![];
                shape_ok = Some(false);
            }
            "leaf_signature_bitflip" => {
                let l = chain[0].len();
                chain[0][l - 1] ^= 0x04;
                shape_ok = Some(false);
            }
            _ => {}
        }
        Ok(Built {
            variant,
            shape: format!("{variant}/{kind:?}/inter{n_inter}/{}", if include_root { "root_in_chain" } else { "root_omitted" }),
            chain,
            anchors,
            windows: win[1..].to_vec(),
            root_window: win[0],
            shape_ok,
            leaf_public: keys[levels - 1].public.clone(),
        })
    }

    fn x509_verdicts(&mut self, b: &Built, provs: &[Prov]) {
        let chain: CertificateChain = b.chain.iter().cloned().map(DerCertificate::from).collect::<Vec<_>>().into();
        let anchors: Vec<DerCertificate> = b.anchors.iter().cloned().map(DerCertificate::from).collect();
        // validators (construction failure = every verdict is a rejection by that provider, and is noted)
        let vo = guarded(|| mls_rs_crypto_openssl::x509::X509Validator::new(anchors.clone()));
        let va = guarded(|| mls_rs_crypto_awslc::x509::CertificateValidator::new_der(&anchors));
        let vr = guarded(|| mls_rs_crypto_rustcrypto::x509::X509Validator::new(anchors.clone()));
        for (p, bad) in [
            (Prov::Openssl, !matches!(vo, Ok(Ok(_)))),
            (Prov::AwsLc, !matches!(va, Ok(Ok(_)))),
            (Prov::RustCrypto, !matches!(vr, Ok(Ok(_)))),
        ] {
            if bad && provs.contains(&p) {
                self.out.inconclusive.push(format!("x509 {}: validator construction failed for {}", b.shape, p.name()));
                return;
            }
        }
        let (Ok(Ok(vo)), Ok(Ok(va)), Ok(Ok(vr))) = (vo, va, vr) else { return };
        let times: [(&str, i64); 6] = [("nb-1", NB - 1), ("nb", NB), ("nb+1", NB + 1), ("na-1", NA - 1), ("na", NA), ("na+1", NA + 1)];
        for (tc, t) in times {
            let ts = Some(MlsTime::from_duration_since_epoch(Duration::from_secs(t as u64)));
            let mut res: Vec<(Prov, Oc)> = vec![];
            for p in provs {
                let oc = match p {
                    Prov::Openssl => self.run1(*p, "x509_validate_chain", || X509CredentialValidator::validate_chain(&vo, &chain, ts).map(|k| k.to_vec()).map_err(|e| AnyErr(format!("{e:?}")))),
                    Prov::AwsLc => self.run1(*p, "x509_validate_chain", || X509CredentialValidator::validate_chain(&va, &chain, ts).map(|k| k.to_vec()).map_err(|e| AnyErr(format!("{e:?}")))),
                    Prov::RustCrypto => self.run1(*p, "x509_validate_chain", || X509CredentialValidator::validate_chain(&vr, &chain, ts).map(|k| k.to_vec()).map_err(|e| AnyErr(format!("{e:?}")))),
                };
                res.push((*p, oc));
            }
            let exp = b.expected(t);
            let exps = match exp {
                Some(true) => "accept",
                Some(false) => "reject",
                None => "unspecified",
            };
            self.out.cov.bump(&format!("x509:{}:{exps}", b.variant));
            self.out.cov.bump("op:x509_validate_chain");
            self.out.cov.eval(Some(fnv(format!("x509|{}|{tc}", b.shape).as_bytes())));
            for i in 0..res.len() {
                for j in (i + 1)..res.len() {
                    self.out.cov.bump(&format!("pair:{}:x509", pair_name(res[i].0, res[j].0)));
                }
            }
            let verdicts: Vec<&'static str> = res.iter().map(|(_, o)| o.cls()).collect();
            self.x509_table.entry(b.shape.clone()).or_default().push(format!(
                "{tc}:exp={}:{}",
                &exps[..1],
                res.iter().map(|(p, o)| format!("{}{}", p.name()[..1].to_uppercase(), &o.cls()[..1])).collect::<Vec<_>>().join("")
            ));
            if tc == "nb+1" {
                self.x509_table.entry(b.shape.clone()).or_default().push(format!(
                    "why@nb+1: {}",
                    res.iter().map(|(p, o)| format!("{}={}", p.name(), match o { Oc::Rej(e) => e.chars().take(70).collect::<String>(), x => x.cls().to_string() })).collect::<Vec<_>>().join("; ")
                ));
            }
            let disagree = verdicts.iter().any(|v| *v != verdicts[0]);
            let wrong = exp.map(|e| verdicts.iter().any(|v| *v != if e { "accept" } else { "reject" })).unwrap_or(false);
            if disagree || wrong {
                let vs = res.iter().map(|(p, o)| format!("{}={}", p.name(), o.cls())).collect::<Vec<_>>().join("|");
                self.out.violate(
                    PROP,
                    // one signature per root cause: an otherwise valid chain evaluated exactly at
                    // notAfter, and chains whose intermediates are not in issuance order
                    if tc == "na" && exp == Some(true) {
                        format!("C14|x509|valid_chain_at_not_after|expected=accept|{vs}")
                    } else if b.variant == "reordered_intermediate" {
                        format!("C14|x509|reordered_intermediate|expected=unspecified|{vs}")
                    } else {
                        format!("C14|x509|{}|t={tc}|expected={exps}|{vs}", b.variant)
                    },
                    format!(
                        "shape {} time {t} ({tc}; focus window [{NB},{NA}]); {}; chain lens {:?}",
                        b.shape,
                        res.iter().map(|(p, o)| format!("{}: {}", p.name(), o.brief())).collect::<Vec<_>>().join("; "),
                        b.chain.iter().map(|c| c.len()).collect::<Vec<_>>()
                    ),
                );
            }
            for (p, o) in &res {
                if let Oc::Acc(k) = o {
                    if k != &b.leaf_public {
                        self.out.violate(PROP, format!("C14|x509|leaf_public_key_mismatch|{}", p.name()), format!("shape {} returned {} leaf key {}", b.shape, hxs(k), hxs(&b.leaf_public)));
                    }
                }
            }
            if b.variant == "valid" && tc == "na-1" {
                self.sample(json!({"op":"x509_validate_chain","shape":b.shape,"time":t,"expected":exps,
                    "verdicts": res.iter().map(|(p, o)| (p.name().to_string(), json!(o.cls()))).collect::<serde_json::Map<String, Value>>(),
                    "leaf_der": hxs(&b.chain[0])}));
            }
        }
    }

    fn x509(&mut self, provs: &[Prov]) {
        let kinds = [KeyKind::P256, KeyKind::Ed25519, KeyKind::Mixed];
        let mut plans: Vec<(&'static str, KeyKind, usize, bool)> = vec![];
        match self.tier {
            Tier::Mem => {
                for (i, v) in ["valid", "expired", "wrong_issuer_sig_leaf", "non_ca_issuer_bc_false", "unknown_root"].iter().enumerate() {
                    plans.push((v, kinds[i % 2], i % 3, i % 2 == 0));
                }
            }
            Tier::Quick => {
                // every variant once per shard; key kind / depth / root inclusion rotate with the
                // shard so that shards 0..7 cover the product
                for (i, v) in X509_VARIANTS.iter().enumerate() {
                    let k = i + self.shard as usize;
                    plans.push((v, kinds[k % 3], (k / 3) % 3, (k / 9 + i) % 2 == 0));
                }
                // the plain valid chain additionally in every depth
                for n in 0..3 {
                    plans.push(("valid", kinds[(n + self.shard as usize) % 3], n, (n + self.shard as usize) % 2 == 1));
                }
            }
            Tier::Thorough => {
                for v in X509_VARIANTS.iter() {
                    for k in kinds {
                        for n in 0..3 {
                            for r in [false, true] {
                                plans.push((v, k, n, r));
                            }
                        }
                    }
                }
            }
        }
        for (i, (v, k, n, r)) in plans.into_iter().enumerate() {
            match self.build_chain(v, k, n, r, self.shard * 10_000 + i as u64) {
                Ok(b) => {
                    self.out.cov.bump("x509_chains");
                    self.x509_verdicts(&b, provs)
                }
                Err(e) => self.out.inconclusive.push(format!("x509 {v}: {e}")),
            }
        }
    }
}

// ---------------------------------------------------------------------- driver

pub fn run(a: &Args) -> ShardOut {
    let memcheck = a.extra.iter().any(|x| x == "--memcheck");
    let tier = if memcheck { Tier::Mem } else if a.thorough { Tier::Thorough } else { Tier::Quick };
    let mut e = Eng {
        out: ShardOut::default(),
        rng: Rng::derive(a.seed, PROP, a.shard),
        tier,
        strict: a.extra.iter().any(|x| x == "--strict"),
        shard: a.shard,
        findings: BTreeMap::new(),
        sigclass: None,
        vsuites: BTreeMap::new(),
        x509_table: BTreeMap::new(),
        ctx_seal_empty: BTreeMap::new(),
        sampled: BTreeMap::new(),
    };
    let skip_x509 = a.extra.iter().any(|x| x == "--no-x509");
    let only_suite: Option<u16> = a.extra.iter().find_map(|x| x.strip_prefix("--suite=").and_then(|v| v.parse().ok()));
    // providers under comparison (memcheck: only the two with native code)
    let provs: Vec<Prov> = if memcheck { vec![Prov::Openssl, Prov::AwsLc] } else { Prov::ALL.to_vec() };
    let all_suites: Vec<u16> = if memcheck { vec![1, 2, 7] } else { vec![1, 2, 3, 4, 5, 6, 7] };
    let reps = match tier {
        Tier::Thorough => 40,
        _ => 1,
    };
    for rep in 0..reps {
        // rotate the suite order with the shard so that a time-boxed run still spreads evenly
        let mut suites = all_suites.clone();
        let k = (a.shard as usize + rep) % suites.len();
        suites.rotate_left(k);
        for cs in suites {
            if only_suite.map(|o| o != cs).unwrap_or(false) {
                continue;
            }
            let ss: SS = provs
                .iter()
                .filter(|p| p.suites().contains(&cs))
                .filter_map(|p| AnyCrypto::new(*p).suite(cs).map(|s| (*p, s)))
                .collect();
            for p in &provs {
                if p.suites().contains(&cs) && !ss.iter().any(|(q, _)| q == p) {
                    e.out.inconclusive.push(format!("provider {} did not return suite {cs}", p.name()));
                }
            }
            if ss.len() < 2 {
                e.out.cov.bump(&format!("skipped:suite{cs}:single_provider"));
                continue;
            }
            let sp = suite_params(cs, &ss[0].1);
            // the advertised sizes themselves must agree
            for (p, s) in &ss[1..] {
                let b = suite_params(cs, s);
                if (b.nh, b.nk, b.nn) != (sp.nh, sp.nk, sp.nn) {
                    e.report(Sev::Hard, cs, format!("C14|sizes|{}", pair_name(ss[0].0, *p)), format!("{:?} vs {:?}", (sp.nh, sp.nk, sp.nn), (b.nh, b.nk, b.nn)));
                }
            }
            e.out.cov.bump(&format!("suite_runs:suite{cs}"));
            e.det_hash_mac_kdf(&ss, &sp);
            e.aead(&ss, &sp);
            e.aead_malformed(&ss, &sp);
            e.kem_derive(&ss, &sp);
            e.signatures(&ss, &sp);
            e.sig_malformed(&ss, &sp);
            e.hpke_matrix(&ss, &sp);
            e.hpke_malformed(&ss, &sp);
            e.bad_public_keys(&ss, &sp);
        }
        if !skip_x509 && (rep == 0 || rep % 10 == 0) {
            e.x509(&provs);
        }
    }
    let findings: Vec<Value> = e.findings.iter().map(|(k, (n, d))| json!({"sig": k, "count": n, "first_detail": d})).collect();
    e.out.extra.insert("findings".into(), json!(findings));
    e.out.extra.insert("violation_suites".into(), json!(e.vsuites));
    e.out.extra.insert("x509_table".into(), json!(e.x509_table));
    e.out.extra.insert("tier".into(), json!(format!("{tier:?}")));
    e.out.extra.insert("providers".into(), json!(provs.iter().map(|p| p.name()).collect::<Vec<_>>()));
    e.out
}

