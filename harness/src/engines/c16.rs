//! C16 — an external observer tracks exactly the members' public state.
//!
//! Observers join at random epochs from a GroupInfo (+ tree), with every `max_epoch_jitter`
//! class (none, 0, 1, epoch-1, epoch, epoch+1, huge), are fed every public handshake message and
//! the ciphertexts of current and past epochs, are snapshotted / restored at random points and
//! issue external-sender proposals. An agreement monitor compares them with the members after
//! every commit; an acceptance table (bad signature, wrong epoch / group, rule violations and
//! invalid path shapes forged by an insider) must be refused; nothing may panic.

use mls_rs::external_client::builder::{ExternalBaseConfig, ExternalClientBuilder, WithCryptoProvider, WithIdentityProvider};
use mls_rs::external_client::{ExternalGroup, ExternalReceivedMessage, ExternalSnapshot};
use mls_rs::extension::built_in::ExternalSendersExt;
use mls_rs::group::verif_hooks as vh;
use mls_rs::group::verif_hooks::Mutation;
use mls_rs::identity::basic::BasicCredential;
use mls_rs::identity::SigningIdentity;
use mls_rs::mls_rs_codec::MlsEncode;
use mls_rs::psk::ExternalPskId;
use mls_rs::{CipherSuiteProvider, MlsMessage};
use mls_rs_core::crypto::SignatureSecretKey;
use mls_rs_core::extension::{ExtensionType, MlsExtension};
use mls_rs_core::group::ProposalType;
use serde_json::json;

use super::worldmon::run_world;
use super::Args;
use crate::anycrypto::{AnyCrypto, Prov};
use crate::driver::*;
use crate::util::*;
use crate::wire::join_public;
use crate::world::*;

type ECfg = WithCryptoProvider<AnyCrypto, WithIdentityProvider<VIdent, ExternalBaseConfig>>;
type EGroup = ExternalGroup<ECfg>;

struct Observer {
    eg: EGroup,
    jitter: Option<u64>,
    jitter_class: &'static str,
    prov: Prov,
    can_sign: bool,
    /// Some = the observer runs with `cache_proposals(false)`: the application keeps the
    /// `cached_proposal()` bytes itself and re-inserts them before a commit (the flow of
    /// examples/basic_server_usage.rs)
    ext_cache: Option<Vec<Vec<u8>>>,
}

pub struct C16 {
    observers: Vec<Observer>,
    /// the external sender identity allowed by the group context
    signer: Option<(SignatureSecretKey, SigningIdentity)>,
    /// ciphertexts by epoch, for the window check
    ciphertexts: Vec<(u64, MlsMessage)>,
    rng: Rng,
    next_jitter: usize,
}

fn ek<E: std::fmt::Debug>(e: &E) -> String {
    err_kind(e).split('/').next().unwrap_or("").to_string()
}

/// Deliver `m` to an observer the way its application would: an observer that keeps proposals
/// outside the group stores `cached_proposal()` and re-inserts everything before a commit.
fn obs_feed(o: &mut Observer, kind: &str, m: MlsMessage) -> Result<(), mls_rs::error::MlsError> {
    let is_commit = kind == "commit" || kind == "external_commit";
    if is_commit {
        if let Some(cache) = &o.ext_cache {
            for b in cache {
                o.eg.insert_proposal(mls_rs::group::CachedProposal::from_bytes(b)?);
            }
        }
    }
    let r = obs_process(&mut o.eg, m)?;
    if let Some(cache) = o.ext_cache.as_mut() {
        match r {
            ExternalReceivedMessage::Proposal(d) => cache.push(d.cached_proposal().to_bytes()?),
            ExternalReceivedMessage::Commit(_) => cache.clear(),
            _ => {}
        }
    }
    Ok(())
}

/// both entry points of the observer, alternating
fn obs_process(eg: &mut EGroup, m: MlsMessage) -> Result<ExternalReceivedMessage, mls_rs::error::MlsError> {
    if use_timed_entry_point() {
        eg.process_incoming_message_with_time(m, mls_rs::time::MlsTime::now())
    } else {
        eg.process_incoming_message(m)
    }
}

fn obs_view(eg: &EGroup) -> (Vec<u8>, Vec<(u32, Vec<u8>)>, Vec<u8>) {
    let ctx = eg.group_context().mls_encode_to_vec().unwrap_or_default();
    let roster = eg
        .roster()
        .members_iter()
        .map(|m| (m.index, m.signing_identity.signature_key.as_ref().to_vec()))
        .collect();
    let tree = eg.export_tree().unwrap_or_default();
    (ctx, roster, tree)
}

fn member_view(g: &VGroup) -> (Vec<u8>, Vec<(u32, Vec<u8>)>, Vec<u8>) {
    let ctx = g.context().mls_encode_to_vec().unwrap_or_default();
    let roster = g
        .roster()
        .members_iter()
        .map(|m| (m.index, m.signing_identity.signature_key.as_ref().to_vec()))
        .collect();
    let tree = g.export_tree().to_bytes().unwrap_or_default();
    (ctx, roster, tree)
}

impl C16 {
    fn build_client(&self, w: &World, prov: Prov, jitter: Option<u64>, with_signer: bool, cache_proposals: bool) -> mls_rs::external_client::ExternalClient<ECfg> {
        let mut b = ExternalClientBuilder::new()
            .identity_provider(VIdent::default())
            .crypto_provider(AnyCrypto::new(prov))
            .extension_types([ExtensionType::new(EXT_A), ExtensionType::new(EXT_B)])
            .custom_proposal_types([ProposalType::new(CUSTOM_PROP), ProposalType::new(CUSTOM_PROP_PATH)]);
        if let Some(j) = jitter {
            b = b.max_epoch_jitter(j);
        }
        if !cache_proposals {
            b = b.cache_proposals(false);
        }
        if let (true, Some((sk, si))) = (with_signer, &self.signer) {
            b = b.signer(sk.clone(), si.clone());
        }
        let _ = w;
        b.build()
    }

    fn spawn(&mut self, w: &mut World) {
        let act = w.active();
        let Some(&src) = act.first() else { return };
        let epoch = w.epoch();
        let classes: [(&'static str, Option<u64>); 7] = [
            ("none", None),
            ("0", Some(0)),
            ("1", Some(1)),
            ("epoch-1", Some(epoch.saturating_sub(1))),
            ("epoch", Some(epoch)),
            ("epoch+1", Some(epoch + 1)),
            ("huge", Some(1 << 40)),
        ];
        let (jc, j) = classes[self.next_jitter % classes.len()];
        self.next_jitter += 1;
        let with_tree = self.rng.chance(1, 2);
        let prov = w.cfg.provs[self.rng.below(w.cfg.provs.len())];
        let can_sign = self.signer.is_some() && self.observers.iter().all(|o| !o.can_sign);
        let gi = match w.g(src).group_info_message(with_tree) {
            Ok(g) => g,
            Err(_) => return,
        };
        let tree = (!with_tree).then(|| w.g(src).export_tree().into_owned());
        // (also the observer that may sign: its own proposals are the library's to remember)
        let ext_mode = self.next_jitter % 3 == 0;
        let client = self.build_client(w, prov, j, can_sign, !ext_mode);
        w.log(json!({"op":"observer_joins","jitter":jc,"epoch":epoch,"with_tree":with_tree,"external_proposal_cache":ext_mode}));
        match guarded(|| client.observe_group(gi, tree, None)) {
            Ok(Ok(eg)) => {
                w.out.cov.bump(&format!("observer_started:jitter_{jc}"));
                self.observers.push(Observer {
                    eg,
                    jitter: j,
                    jitter_class: jc,
                    prov,
                    can_sign,
                    ext_cache: ext_mode.then(Vec::new),
                });
                if ext_mode {
                    w.out.cov.bump("observer_started:external_proposal_cache");
                }
            }
            Ok(Err(e)) => w.violate(format!("C16|observer_cannot_start|{}", ek(&e)), format!("epoch {epoch}: {e:?}")),
            Err(p) => w.violate("C16|panic|observe_group", p),
        }
    }

    fn feed_all(&mut self, w: &mut World, kind: &'static str, msg: &MlsMessage) {
        for (k, o) in self.observers.iter_mut().enumerate() {
            let m = msg.clone();
            w.out.cov.eval(Some(fnv(format!("feed|{kind}|{}", o.jitter_class).as_bytes())));
            w.out.cov.bump(&format!("observer_fed:{kind}"));
            match guarded(|| obs_feed(o, kind, m)) {
                Ok(Ok(_)) => {}
                Ok(Err(e)) => w.violate(
                    format!("C16|observer_rejects_honest_{kind}|{}", ek(&e)),
                    format!("observer {k} (jitter {}) at epoch {} rejects a {kind} the members accept: {e:?}", o.jitter_class, o.eg.group_context().epoch),
                ),
                Err(p) => w.violate(format!("C16|panic|observer_{kind}|jitter_{}", o.jitter_class), p),
            }
        }
    }

    /// every ciphertext of epoch e must be let through iff e >= epoch - jitter (saturating)
    fn window_check(&mut self, w: &mut World) {
        let cts = self.ciphertexts.clone();
        for (k, o) in self.observers.iter_mut().enumerate() {
            let cur = o.eg.group_context().epoch;
            for (e, m) in &cts {
                if *e > cur {
                    continue;
                }
                let expect_ok = match o.jitter {
                    None => true,
                    Some(j) => *e >= cur.saturating_sub(j),
                };
                let mm = m.clone();
                w.out.cov.eval(Some(fnv(format!("window|{}|{}|{expect_ok}", o.jitter_class, (cur - e).min(5)).as_bytes())));
                w.out.cov.bump("window_checked");
                let mut eg = o.eg.clone();
                match guarded(|| obs_process(&mut eg, mm)) {
                    Ok(Ok(ExternalReceivedMessage::Ciphertext(_))) if expect_ok => {}
                    Ok(Err(_)) if !expect_ok => {}
                    Ok(Ok(_)) => w.violate(
                        format!("C16|ciphertext_outside_window_let_through|jitter_{}", o.jitter_class),
                        format!("observer {k} at epoch {cur} with jitter {:?} let a ciphertext of epoch {e} through", o.jitter),
                    ),
                    Ok(Err(err)) => w.violate(
                        format!("C16|ciphertext_inside_window_refused|jitter_{}|{}", o.jitter_class, ek(&err)),
                        format!("observer {k} at epoch {cur} with jitter {:?} refused a ciphertext of epoch {e}: {err:?}", o.jitter),
                    ),
                    Err(p) => w.violate(format!("C16|panic|ciphertext|jitter_{}", o.jitter_class), format!("observer {k} at epoch {cur}, ciphertext epoch {e}: {p}")),
                }
            }
        }
    }

    fn negative(&mut self, w: &mut World, class: &'static str, bytes: &[u8]) {
        for (k, o) in self.observers.iter().enumerate() {
            let mut eg = o.eg.clone();
            if class.starts_with("insider_") {
                eg.clear_proposal_cache();
            }
            w.out.cov.eval(Some(fnv(format!("neg|{class}|{}", o.jitter_class).as_bytes())));
            w.out.cov.bump(&format!("negative:{class}"));
            let r = guarded(|| match MlsMessage::from_bytes(bytes) {
                Ok(m) => obs_process(&mut eg, m).map(|_| ()),
                Err(e) => Err(e),
            });
            match r {
                Ok(Ok(())) => w.violate(format!("C16|observer_accepts_invalid|{class}"), format!("observer {k} at epoch {}", o.eg.group_context().epoch)),
                Ok(Err(_)) => {}
                Err(p) => w.violate(format!("C16|panic|negative|{class}"), p),
            }
        }
    }
}

impl Hooks for C16 {
    fn init(&mut self, w: &mut World) {
        if let Some((_, si)) = &self.signer {
            w.keep_exts.push(external_senders_ext(si));
        }
    }

    fn epoch_start(&mut self, w: &mut World) {
        if self.observers.len() < 5 && (self.observers.is_empty() || self.rng.chance(1, 3)) {
            self.spawn(w);
        }
        // snapshot / restore of a random observer, then lockstep with the un-restored one
        if !self.observers.is_empty() && self.rng.chance(1, 3) {
            let k = self.rng.below(self.observers.len());
            let (snap, prov, jitter, can_sign, cache) = {
                let o = &self.observers[k];
                (o.eg.snapshot(), o.prov, o.jitter, o.can_sign, o.ext_cache.is_none())
            };
            let without_tree = self.rng.chance(1, 3);
            let restored = guarded(|| {
                let client = self.build_client(w, prov, jitter, can_sign, cache);
                if without_tree {
                    let mut e2 = self.observers[k].eg.clone();
                    let s2 = e2.snapshot_without_ratchet_tree();
                    let b = s2.to_bytes()?;
                    let s3 = ExternalSnapshot::from_bytes(&b)?;
                    client.load_group_with_ratchet_tree(s3, self.observers[k].eg.exported_tree().into_owned())
                } else {
                    let b = snap.to_bytes()?;
                    let s3 = ExternalSnapshot::from_bytes(&b)?;
                    client.load_group(s3)
                }
            });
            w.out.cov.bump("observer_restored");
            w.out.cov.eval(Some(fnv(format!("restore|{without_tree}").as_bytes())));
            match restored {
                Ok(Ok(eg2)) => {
                    if obs_view(&eg2) != obs_view(&self.observers[k].eg) || eg2.get_cached_proposals().len() != self.observers[k].eg.get_cached_proposals().len() {
                        w.violate("C16|restored_observer_differs", format!("observer {k} (without_tree={without_tree})"));
                    }
                    // the restored one takes over; divergence shows up in the agreement monitor
                    self.observers[k].eg = eg2;
                }
                Ok(Err(e)) => w.violate(format!("C16|observer_restore_failed|{}", ek(&e)), format!("observer {k}: {e:?}")),
                Err(p) => w.violate("C16|panic|observer_restore", p),
            }
        }
        // an outsider proposes itself (sender type new_member_proposal)
        if !self.observers.is_empty() && w.active().len() < w.cfg.max_members && self.rng.chance(1, 4) {
            let src = w.active()[0];
            if let Ok(Ok(gi)) = guarded(|| w.g(src).group_info_message(true)) {
                let p = w.new_party();
                let r = {
                    let c = &w.parties[p].client;
                    guarded(|| c.external_add_proposal(&gi, None, vec![], Default::default(), Default::default(), None))
                };
                // the newcomer has no Welcome bookkeeping in the driver: it stays a leaf nobody drives
                w.parties[p].status = Status::Ghost;
                if let Ok(Ok(m)) = r {
                    w.log(json!({"op":"new_member_proposal","by":p}));
                    w.out.cov.bump("new_member_proposal_issued");
                    for to in w.active() {
                        if let Err(e) = w.deliver(to, &m) {
                            w.violate(format!("C16|member_rejects_new_member_proposal|{}", e.split('(').next().unwrap_or("")), format!("member {to}: {e}"));
                        }
                    }
                    self.feed_all(w, "proposal", &m);
                }
            }
        }
        // an external-sender proposal from the observer that may sign
        if let Some(k) = self.observers.iter().position(|o| o.can_sign) {
            if self.rng.chance(1, 2) {
                let act = w.active();
                let kind = self.rng.below(5);
                let res = {
                    let target = act.last().map(|i| w.leaf_of(*i));
                    let np = (kind == 0 && act.len() < w.cfg.max_members).then(|| w.new_party());
                    let kp = np.and_then(|p| w.key_package(p).ok());
                    let gce = w.random_gce();
                    let cp = w.custom_proposal(false);
                    let psk = w.new_external_psk();
                    let o = &mut self.observers[k];
                    match kind {
                        0 => kp.map(|kp| guarded(|| o.eg.propose_add(kp, vec![1]))),
                        1 if act.len() > 3 => target.map(|t| guarded(|| o.eg.propose_remove(t, vec![]))),
                        2 => Some(guarded(|| o.eg.propose_external_psk(ExternalPskId::new(psk), vec![]))),
                        3 => Some(guarded(|| o.eg.propose_group_context_extensions(gce, vec![2]))),
                        _ => Some(guarded(|| o.eg.propose_custom(cp, vec![]))),
                    }
                };
                if let Some(r) = res {
                    w.log(json!({"op":"external_sender_proposal","kind":kind}));
                    match r {
                        Ok(Ok(m)) => {
                            w.out.cov.bump(&format!("external_proposal_issued:{kind}"));
                            w.out.cov.eval(Some(fnv(format!("extprop|{kind}").as_bytes())));
                            for to in w.active() {
                                match w.deliver(to, &m) {
                                    Ok(mls_rs::group::ReceivedMessage::Proposal(_)) => w.out.cov.bump("external_proposal_accepted_by_member"),
                                    Ok(_) => {}
                                    Err(e) => w.violate(
                                        format!("C16|member_rejects_external_sender_proposal|{kind}|{}", e.split('(').next().unwrap_or("")),
                                        format!("member {to}: {e}"),
                                    ),
                                }
                            }
                            // the other observers see it too
                            for (j, o) in self.observers.iter_mut().enumerate() {
                                if j == k {
                                    continue;
                                }
                                let mm = m.clone();
                                match guarded(|| obs_feed(o, "proposal", mm)) {
                                    Ok(Ok(_)) => {}
                                    Ok(Err(e)) => w.violate(format!("C16|observer_rejects_external_sender_proposal|{}", ek(&e)), format!("observer {j}: {e:?}")),
                                    Err(p) => w.violate("C16|panic|observer_external_proposal", p),
                                }
                            }
                        }
                        Ok(Err(e)) => w.violate(format!("C16|observer_cannot_propose|{kind}|{}", ek(&e)), format!("{e:?}")),
                        Err(p) => w.violate(format!("C16|panic|observer_propose|{kind}"), p),
                    }
                }
            }
        }
    }

    fn on_message(&mut self, w: &mut World, kind: &'static str, _from: usize, msg: &MlsMessage) {
        match kind {
            "proposal" => {
                // acceptance table on the way: bad signature, wrong epoch, wrong group
                if let Some(p) = vh::split_public(msg) {
                    let mk = |f: &dyn Fn(&mut vh::PublicParts)| {
                        let mut q = vh::PublicParts {
                            version: p.version,
                            group_id: p.group_id.clone(),
                            epoch: p.epoch,
                            sender: p.sender.clone(),
                            authenticated_data: p.authenticated_data.clone(),
                            content: p.content.clone(),
                            signature: p.signature.clone(),
                            confirmation_tag: p.confirmation_tag.clone(),
                            membership_tag: p.membership_tag.clone(),
                        };
                        f(&mut q);
                        join_public(&q)
                    };
                    if self.rng.chance(1, 2) {
                        let b = mk(&|q| {
                            if let Some(x) = q.signature.last_mut() {
                                *x ^= 1
                            }
                        });
                        self.negative(w, "proposal_bad_signature", &b);
                        let b = mk(&|q| q.epoch += 1);
                        self.negative(w, "proposal_wrong_epoch", &b);
                        let b = mk(&|q| q.group_id.push(7));
                        self.negative(w, "proposal_wrong_group", &b);
                        let b = mk(&|q| q.authenticated_data.push(7));
                        self.negative(w, "proposal_changed_aad", &b);
                    }
                }
                self.feed_all(w, "proposal", msg);
            }
            "application" => {
                self.ciphertexts.push((w.epoch(), msg.clone()));
                if self.ciphertexts.len() > 12 {
                    self.ciphertexts.remove(0);
                }
            }
            "commit" | "external_commit" => {
                if let Some(p) = vh::split_public(msg) {
                    let mk = |f: &dyn Fn(&mut vh::PublicParts)| {
                        let mut q = vh::PublicParts {
                            version: p.version,
                            group_id: p.group_id.clone(),
                            epoch: p.epoch,
                            sender: p.sender.clone(),
                            authenticated_data: p.authenticated_data.clone(),
                            content: p.content.clone(),
                            signature: p.signature.clone(),
                            confirmation_tag: p.confirmation_tag.clone(),
                            membership_tag: p.membership_tag.clone(),
                        };
                        f(&mut q);
                        join_public(&q)
                    };
                    let b = mk(&|q| {
                        if let Some(x) = q.signature.first_mut() {
                            *x ^= 0x10
                        }
                    });
                    self.negative(w, "commit_bad_signature", &b);
                    let b = mk(&|q| q.epoch += 1);
                    self.negative(w, "commit_wrong_epoch", &b);
                    let b = mk(&|q| q.group_id.push(7));
                    self.negative(w, "commit_wrong_group", &b);
                }
                self.window_check(w);
                self.feed_all(w, kind, msg);
            }
            _ => {}
        }
    }

    fn before_commit(&mut self, w: &mut World) {
        // genuine messages of a sibling group at the same epoch: another group id is something
        // an observer can check
        if !self.observers.is_empty() && self.rng.chance(1, 3) {
            let signer = self.signer.clone();
            let msgs = super::tamper::sibling_messages(w, &mut self.rng, &signer);
            for (class, b) in msgs {
                let class: &'static str = match class {
                    "new_member_proposal_of_sibling_group" => "cross_group_new_member_proposal",
                    "external_sender_proposal_of_sibling_group" => "cross_group_external_sender_proposal",
                    "member_proposal_of_sibling_group" => "cross_group_member_proposal",
                    "commit_of_sibling_group" => "cross_group_commit",
                    _ => "cross_group_other",
                };
                self.negative(w, class, &b);
            }
        }
        // insider-forged commits that are invalid on grounds an observer can check
        let act = w.active();
        if act.len() < 3 || self.observers.is_empty() {
            return;
        }
        let c = act[self.rng.below(act.len())];
        let other = *act.iter().find(|i| **i != c).unwrap();
        let bad_remove = mls_rs::group::proposal::RemoveProposal::removing(9_999)
            .ok()
            .and_then(|r| vh::encode_proposal_by_value(&mls_rs::group::proposal::Proposal::Remove(r)).ok());
        let remove_committer = mls_rs::group::proposal::RemoveProposal::removing(w.leaf_of(c))
            .ok()
            .and_then(|r| vh::encode_proposal_by_value(&mls_rs::group::proposal::Proposal::Remove(r)).ok());
        let two_gce = vh::encode_proposal_by_value(&mls_rs::group::proposal::Proposal::GroupContextExtensions(w.base_gce())).ok();
        let other_sig_key = w.parties[other].sk.as_ref().to_vec();
        let mut plans: Vec<(&'static str, Vec<Mutation>)> = vec![
            ("insider_path_too_short", vec![Mutation::PopPathNodes(1)]),
            // shortened path whose hashes are consistent with the shortened path: the length check
            // is the only thing an observer has
            ("insider_path_too_short_consistent_hashes", vec![Mutation::RestoreOldPathNodeFromTop(0), Mutation::PopPathNodes(1)]),
            ("insider_path_too_short_by_two_consistent_hashes", vec![Mutation::RestoreOldPathNodeFromTop(0), Mutation::RestoreOldPathNodeFromTop(1), Mutation::PopPathNodes(2)]),
            ("insider_path_too_long", vec![Mutation::DuplicateLastPathNode]),
            ("insider_leaf_wrong_parent_hash", vec![Mutation::LeafCorruptParentHash]),
            ("insider_leaf_parent_hash_empty", vec![Mutation::LeafEditParentHash { keep: 0, append: vec![] }]),
            ("insider_leaf_parent_hash_prefix", vec![Mutation::LeafEditParentHash { keep: 20, append: vec![] }]),
            ("insider_leaf_keeps_old_key", vec![Mutation::LeafKeepOldHpkeKey]),
            ("insider_leaf_source_update", vec![Mutation::LeafSourceUpdate]),
            ("insider_leaf_signed_by_other_member", vec![Mutation::LeafSignWith(other_sig_key)]),
            ("insider_missing_required_path", vec![Mutation::DropUpdatePath]),
        ];
        if let Some(b) = bad_remove {
            plans.push(("insider_rule_remove_of_blank_leaf", vec![Mutation::AppendProposals(vec![b])]));
        }
        if let Some(b) = remove_committer {
            plans.push(("insider_rule_remove_of_committer", vec![Mutation::AppendProposals(vec![b])]));
        }
        if let Some(b) = two_gce {
            plans.push(("insider_rule_two_group_context_extensions", vec![Mutation::AppendProposals(vec![b.clone(), b])]));
        }
        let pick = self.rng.below(plans.len());
        for (i, (name, muts)) in plans.into_iter().enumerate() {
            if i != pick && !self.rng.chance(1, 3) {
                continue;
            }
            // forged on an empty proposal cache: an empty commit must carry a valid path
            let mut cg = w.g(c).clone();
            cg.clear_pending_commit();
            cg.clear_proposal_cache();
            vh::set_mutations(muts);
            let r = guarded(|| cg.commit(vec![]));
            let applied = vh::clear_mutations();
            if let (Ok(Ok(out)), false) = (r, applied.is_empty()) {
                if let Ok(b) = out.commit_message.to_bytes() {
                    self.negative(w, name, &b);
                }
            } else {
                w.out.cov.bump(&format!("insider_not_built:{name}"));
            }
        }
    }

    fn after_commit(&mut self, w: &mut World, info: &RoundInfo) {
        let Some(&m) = w.active().first() else { return };
        let mv = member_view(w.g(m));
        for (k, o) in self.observers.iter().enumerate() {
            let ov = obs_view(&o.eg);
            w.out.cov.eval(Some(fnv(&ov.0) ^ fnv(o.jitter_class.as_bytes())));
            w.out.cov.bump("observer_agreement_checked");
            let mut d = vec![];
            if ov.0 != mv.0 {
                d.push("context");
            }
            if ov.1 != mv.1 {
                d.push("roster");
            }
            if ov.2 != mv.2 {
                d.push("tree");
            }
            if !d.is_empty() {
                w.violate(
                    format!("C16|observer_disagrees_with_members|{}{}", d.join("+"), if info.external { "|external" } else { "" }),
                    format!("observer {k} (jitter {}) after the commit to epoch {}: differs in {d:?}", o.jitter_class, info.epoch_before + 1),
                );
            }
            if !o.eg.get_cached_proposals().is_empty() {
                w.violate("C16|observer_keeps_proposals_after_commit", format!("observer {k}"));
            }
        }
        // observers that diverged would only produce noise from now on
        self.observers.retain(|o| obs_view(&o.eg) == mv);
    }
}

pub fn run(a: &Args) -> ShardOut {
    let seed = a.seed;
    let shard = a.shard;
    run_world(
        a,
        "C16",
        ((6, 22), (40, 60)),
        &mut |cfg, h| {
            cfg.encrypt_controls = false;
            let prov = cfg.provs[0];
            let cs = AnyCrypto::new(prov).suite(cfg.suite).expect("suite");
            let (sk, pk) = cs.signature_key_generate().expect("keygen");
            let si = SigningIdentity::new(BasicCredential::new(b"external-sender".to_vec()).into_credential(), pk);
            let hooks = C16 {
                observers: vec![],
                signer: Some((sk, si)),
                ciphertexts: vec![],
                rng: Rng::derive(seed, "C16-obs", shard * 10_000 + h),
                next_jitter: (shard + h) as usize,
            };
            (Box::new(hooks) as Box<dyn Hooks>, DriveCfg::default())
        },
        &mut |_, _| {},
    )
}

/// the group context extension that authorises the observer's identity as external sender
pub fn external_senders_ext(si: &SigningIdentity) -> mls_rs_core::extension::Extension {
    ExternalSendersExt::new(vec![si.clone()]).into_extension().expect("ext")
}
