//! C13 — key schedule, secret tree, PSK and transcript values equal the RFC 9420 formulas.
//!
//! The harness only *observes*: (1) pure derivations with fresh inputs through the hook wrappers
//! of the crate-private functions, with every provider and suite; (2) in-situ, the secrets every
//! member holds after each commit of real histories together with the commit bytes, the PSKs
//! used, the recorded KDF-extract calls and the AEAD keys of application messages. The judge is
//! the independent Python reference (checker/kdfref.py, c13_post.py).

use std::collections::BTreeMap;

use mls_rs::group::verif_hooks as vh;
use mls_rs::group::verif_hooks::kdf::PskIn;
use mls_rs::mls_rs_codec::MlsEncode;
use mls_rs::CipherSuiteProvider;
use serde_json::{json, Value};

use super::worldmon::run_world;
use super::Args;
use crate::anycrypto::{AnyCrypto, Prov};
use crate::driver::*;
use crate::util::*;
use crate::wire::put_opaque;
use crate::world::*;

fn enc_group_context(suite: u16, gid: &[u8], epoch: u64, tree_hash: &[u8], cth: &[u8], exts: &[(u16, Vec<u8>)]) -> Vec<u8> {
    let mut o = vec![];
    o.extend_from_slice(&1u16.to_be_bytes());
    o.extend_from_slice(&suite.to_be_bytes());
    put_opaque(&mut o, gid);
    o.extend_from_slice(&epoch.to_be_bytes());
    put_opaque(&mut o, tree_hash);
    put_opaque(&mut o, cth);
    let mut e = vec![];
    for (t, d) in exts {
        e.extend_from_slice(&t.to_be_bytes());
        put_opaque(&mut e, d);
    }
    put_opaque(&mut o, &e);
    o
}

fn enc_psk_id(ext: bool, id: &[u8], epoch: u64, usage: u8, nonce: &[u8]) -> Vec<u8> {
    let mut o = vec![];
    if ext {
        o.push(1);
        put_opaque(&mut o, id);
    } else {
        o.push(2);
        o.push(usage);
        put_opaque(&mut o, id);
        o.extend_from_slice(&epoch.to_be_bytes());
    }
    put_opaque(&mut o, nonce);
    o
}

fn nh_of(suite: u16) -> usize {
    match suite {
        1 | 2 | 3 => 32,
        7 => 48,
        _ => 64,
    }
}

fn pure(a: &Args, out: &mut ShardOut) -> Vec<Value> {
    let mut rng = Rng::derive(a.seed, "C13-pure", a.shard);
    let mut cases = vec![];
    let n_sets = if a.thorough { 260 } else { 26 };
    for prov in Prov::ALL {
        for suite in prov.suites() {
            let Some(cs) = AnyCrypto::new(prov).suite(suite) else { continue };
            let nh = nh_of(suite);
            for k in 0..n_sets {
                let init = rng.bytes(nh);
                let commit_secret = if rng.chance(1, 4) { vec![0u8; nh] } else { rng.bytes(nh) };
                let gid = {
                    let n = rng.range(0, 40);
                    rng.bytes(n)
                };
                let epoch = if rng.chance(1, 8) { u64::MAX - rng.below(3) as u64 } else { rng.next() % 100_000 };
                let tree_hash = rng.bytes(nh);
                let cth = if rng.chance(1, 6) { vec![] } else { rng.bytes(nh) };
                let ne = rng.below(3);
                let mut seen = std::collections::BTreeSet::new();
                let mut exts: Vec<(u16, Vec<u8>)> = vec![];
                for _ in 0..ne {
                    let t = 0xF000 + (rng.next() % 200) as u16;
                    if seen.insert(t) {
                        let n = rng.below(70);
                        exts.push((t, rng.bytes(n)));
                    }
                }
                let ctx = enc_group_context(suite, &gid, epoch, &tree_hash, &cth, &exts);
                let np = if rng.chance(1, 3) { 0 } else { rng.range(1, 6) };
                let mut psks_json = vec![];
                let mut psks: Vec<PskIn> = vec![];
                for _ in 0..np {
                    let ext = rng.chance(1, 2);
                    let id = {
                        let n = rng.range(1, 24);
                        rng.bytes(n)
                    };
                    let pe = rng.next() % 1000;
                    let usage = 1 + (rng.next() % 3) as u8;
                    let nonce = rng.bytes(nh);
                    let val = {
                        let n = rng.range(1, 80);
                        rng.bytes(n)
                    };
                    psks_json.push(json!({"external": ext, "id": hx(&id), "epoch": pe, "usage": usage, "nonce": hx(&nonce), "value": hx(&val)}));
                    psks.push(PskIn {
                        id_bytes: enc_psk_id(ext, &id, pe, usage, &nonce),
                        psk: val,
                    });
                }
                let n_leaves: u32 = 1 << rng.below(if a.thorough { 11 } else { 8 });
                let key = fnv(format!("{}|{suite}|{k}", prov.name()).as_bytes());
                out.cov.eval(Some(key));
                out.cov.bump(&format!("pure:{}:suite{suite}", prov.name()));
                let r = guarded(|| vh::kdf::key_schedule(&cs, &init, &commit_secret, &ctx, &psks, n_leaves));
                let s = match r {
                    Ok(Ok(s)) => s,
                    Ok(Err(e)) => {
                        out.violate("C13", format!("C13|library_derivation_failed|{}", err_kind(&e).split('/').next().unwrap_or("")), format!("{} suite {suite}: {e:?}", prov.name()));
                        continue;
                    }
                    Err(p) => {
                        out.violate("C13", "C13|panic|key_schedule", p);
                        continue;
                    }
                };
                let psk_only = guarded(|| vh::kdf::psk_secret(&cs, &psks)).ok().and_then(|r| r.ok()).unwrap_or_default();
                // the Welcome AEAD as the library really performs it (key and nonce observed at the provider)
                let welcome_used = {
                    let rec = crate::anycrypto::Recorder::new();
                    rec.enable(&["aead_seal"]);
                    AnyCrypto::recorded(prov, 0, rec.clone()).suite(suite).and_then(|rcs| {
                        let _ = guarded(|| vh::kdf::welcome_encrypt(&rcs, &s.joiner, &psks, b"c13 welcome probe"));
                        rec.take().into_iter().find(|e| e.kind == "aead_seal").map(|e| (hx(&e.a), hx(&e.b)))
                    })
                };
                // secret tree probes
                let mut tree_probes = vec![];
                for _ in 0..3 {
                    let leaf = (rng.next() % n_leaves as u64) as u32;
                    let hs = rng.chance(1, 2);
                    let mut gens: Vec<u32> = vec![0, (rng.next() % 20) as u32 + 1];
                    if rng.chance(1, 10) {
                        gens.push(900 + (rng.next() % 120) as u32);
                    }
                    gens.sort();
                    gens.dedup();
                    if let Ok(Ok(keys)) = guarded(|| vh::kdf::secret_tree_all_keys(&cs, &s.secret_tree_bytes, leaf, hs, &gens)) {
                        for (g, kk, nn) in keys {
                            tree_probes.push(json!({"leaf": leaf, "handshake": hs, "generation": g, "key": hx(&kk), "nonce": hx(&nn)}));
                        }
                    }
                }
                // exporter
                let label = {
                    let n = rng.below(20);
                    rng.bytes(n).iter().map(|b| b'a' + (b % 26)).collect::<Vec<u8>>()
                };
                let ectx = {
                    let n = rng.below(40);
                    rng.bytes(n)
                };
                let elen = [0usize, 1, nh - 1, nh, nh + 1, 255, 255 * nh][rng.below(7)];
                let exported = guarded(|| vh::kdf::export_secret(&cs, &s.exporter, &label, &ectx, elen)).ok().and_then(|r| r.ok());
                // transcript hashes of a synthetic (path-less, empty) commit framed either way
                let t_wire: u16 = if rng.chance(1, 2) { 1 } else { 2 };
                let t_prev = if rng.chance(1, 8) { vec![] } else { rng.bytes(nh) };
                let t_ac = {
                    let mut b = vec![];
                    b.extend_from_slice(&t_wire.to_be_bytes());
                    put_opaque(&mut b, &gid);
                    b.extend_from_slice(&epoch.to_be_bytes());
                    b.push(1); // Sender::Member
                    b.extend_from_slice(&(rng.below(64) as u32).to_be_bytes());
                    let n = rng.below(30);
                    put_opaque(&mut b, &rng.bytes(n));
                    b.push(3); // ContentType::Commit
                    b.push(0); // no proposals
                    b.push(0); // no update path
                    let n = rng.range(1, 100);
                    put_opaque(&mut b, &rng.bytes(n)); // signature
                    put_opaque(&mut b, &rng.bytes(nh)); // confirmation tag
                    b
                };
                let t_out = guarded(|| vh::kdf::transcript_hashes(&cs, &t_prev, &t_ac)).ok().and_then(|r| r.ok());
                // plain ExpandWithLabel / DeriveSecret
                let xsecret = rng.bytes(nh);
                let xlabel = b"verif-label".to_vec();
                let xctx = {
                    let n = rng.below(50);
                    rng.bytes(n)
                };
                let xlen = rng.range(1, 3 * nh);
                let expanded = guarded(|| vh::kdf::expand_with_label(&cs, &xsecret, &xlabel, &xctx, Some(xlen))).ok().and_then(|r| r.ok());
                let derived = guarded(|| vh::kdf::derive_secret(&cs, &xsecret, &xlabel)).ok().and_then(|r| r.ok());
                cases.push(json!({
                    "provider": prov.name(), "suite": suite,
                    "init": hx(&init), "commit_secret": hx(&commit_secret),
                    "ctx_fields": {"group_id": hx(&gid), "epoch": epoch.to_string(), "tree_hash": hx(&tree_hash), "cth": hx(&cth),
                                   "extensions": exts.iter().map(|(t, d)| json!([t, hx(d)])).collect::<Vec<_>>()},
                    "ctx": hx(&ctx), "psks": psks_json, "n_leaves": n_leaves,
                    "out": {"joiner": hx(&s.joiner), "welcome_key": hx(&s.welcome_key), "welcome_nonce": hx(&s.welcome_nonce),
                            "confirmation_key": hx(&s.confirmation_key), "exporter": hx(&s.exporter), "authentication": hx(&s.authentication),
                            "external": hx(&s.external), "membership": hx(&s.membership), "init": hx(&s.init),
                            "sender_data": hx(&s.sender_data), "resumption": hx(&s.resumption), "external_pub": hx(&s.external_pub),
                            "psk_secret": hx(&psk_only),
                            "welcome_key_used": welcome_used.as_ref().map(|x| x.0.clone()),
                            "welcome_nonce_used": welcome_used.as_ref().map(|x| x.1.clone())},
                    "transcript": {"wire_format": t_wire, "interim_prev": hx(&t_prev), "ac": hx(&t_ac),
                                   "confirmed": t_out.as_ref().map(|x| hx(&x.0)), "interim": t_out.as_ref().map(|x| hx(&x.1))},
                    "tree_probes": tree_probes,
                    "export": {"label": hx(&label), "context": hx(&ectx), "len": elen, "out": exported.map(|e| hx(&e))},
                    "expand": {"secret": hx(&xsecret), "label": hx(&xlabel), "context": hx(&xctx), "len": xlen,
                               "expanded": expanded.map(|e| hx(&e)), "derived": derived.map(|e| hx(&e))},
                }));
            }
        }
    }
    cases
}

// ---------------------------------------------------------------------------------------------
// in situ
// ---------------------------------------------------------------------------------------------

struct InSitu {
    prev: BTreeMap<usize, (vh::EpochView, Vec<u8>)>,
    resumption_by_epoch: BTreeMap<u64, Vec<u8>>,
    logged: usize,
}

fn view_json(v: &vh::EpochView) -> Value {
    json!({"exporter": hx(&v.exporter), "authentication": hx(&v.authentication), "external": hx(&v.external),
           "membership": hx(&v.membership), "init": hx(&v.init), "sender_data": hx(&v.sender_data),
           "resumption": hx(&v.resumption), "confirmation_tag": hx(&v.confirmation_tag),
           "interim_transcript_hash": hx(&v.interim_transcript_hash), "n_leaves": v.n_leaves})
}

impl Hooks for InSitu {
    fn init(&mut self, w: &mut World) {
        w.rec.enable(&["kdf_extract", "aead_seal"]);
    }

    fn before_commit(&mut self, w: &mut World) {
        self.snapshot_prev(w);
    }

    fn after_commit(&mut self, w: &mut World, info: &RoundInfo) {
        self.log_epoch(w, info);
        // external commit rounds have no before_commit call: the state after this commit is the
        // "previous epoch" of whatever commit comes next
        self.snapshot_prev(w);
    }

    fn allow_reload(&self) -> bool {
        true
    }
}

impl InSitu {
    fn snapshot_prev(&mut self, w: &mut World) {
        self.prev.clear();
        for i in w.active() {
            if let Ok(v) = vh::epoch_view(w.g(i)) {
                let ctx = w.g(i).context().mls_encode_to_vec().unwrap_or_default();
                self.resumption_by_epoch.insert(w.g(i).current_epoch(), v.resumption.clone());
                self.prev.insert(i, (v, ctx));
            }
        }
        // drop what was recorded outside commit building / processing
        w.rec.take();
    }

    fn log_epoch(&mut self, w: &mut World, info: &RoundInfo) {
        let evs = w.rec.take();
        if self.logged >= 40 {
            return;
        }
        let act = w.active();
        let Some(&m0) = act.iter().find(|i| self.prev.contains_key(i)).or(act.first()) else { return };
        let prev = self.prev.get(&m0).map(|(v, c)| json!({"view": view_json(v), "ctx": hx(c)}));
        let mut views = vec![];
        for &i in &act {
            if let Ok(v) = vh::epoch_view(w.g(i)) {
                self.resumption_by_epoch.insert(w.g(i).current_epoch(), v.resumption.clone());
                views.push(json!({"member": i, "joined_now": info.joiners.contains(&i) || (info.external && i == info.committer),
                                  "view": view_json(&v), "ctx": hx(&w.g(i).context().mls_encode_to_vec().unwrap_or_default()),
                                  "authenticator": hx(w.g(i).epoch_authenticator().map(|s| s.as_bytes().to_vec()).unwrap_or_default().as_slice())}));
            }
        }
        let extracts: Vec<Value> = evs.iter().filter(|e| e.kind == "kdf_extract").map(|e| json!([hx(&e.a), hx(&e.b), e.who])).collect();
        let commit_seals: Vec<Value> = evs.iter().filter(|e| e.kind == "aead_seal").map(|e| json!([hx(&e.a), hx(&e.b)])).collect();
        // export probes
        let mut exports = vec![];
        for (l, c, n) in [(b"verif".to_vec(), b"ctx".to_vec(), 32usize), (w.rng.bytes(5), w.rng.bytes(9), 48)] {
            if let Ok(s) = w.g(m0).export_secret(&l, &c, n) {
                exports.push(json!({"label": hx(&l), "context": hx(&c), "len": n, "out": hx(s.as_bytes())}));
            }
        }
        // application messages: generation 0 of the sender's application ratchet in the new epoch
        let mut seals = vec![];
        for &s in act.iter().take(2) {
            let leaf = w.leaf_of(s);
            let g = w.gm(s);
            let sent = guarded(|| g.encrypt_application_message(b"c13 probe", vec![7]));
            if let Ok(Ok(m)) = sent {
                let evs: Vec<_> = w.rec.take().into_iter().filter(|e| e.kind == "aead_seal" && e.who == s as u32).collect();
                let all: Vec<Value> = evs.iter().map(|e| json!([hx(&e.a), hx(&e.b)])).collect();
                for e in &evs {
                    // content seal: AAD carries authenticated data after the content type
                    if !e.c.is_empty() && e.c.last() == Some(&7) {
                        seals.push(json!({"leaf": leaf, "generation": 0, "key": hx(&e.a), "nonce": hx(&e.b),
                                          "msg": hx(&m.to_bytes().unwrap_or_default()), "all": all}));
                    }
                }
            }
        }
        let psk_table: Vec<Value> = w.psks.iter().map(|(k, v)| json!([hx(k), hx(v)])).collect();
        let res_table: Vec<Value> = self.resumption_by_epoch.iter().map(|(e, v)| json!([e.to_string(), hx(v)])).collect();
        self.logged += 1;
        let ev = json!({
            "suite": w.cfg.suite, "epoch": info.epoch_before + 1, "external": info.external, "has_path": info.has_path,
            "commit": hx(&info.commit_msg.to_bytes().unwrap_or_default()),
            "prev": prev, "views": views, "extracts": extracts, "exports": exports, "seals": seals,
            "commit_seals": commit_seals, "n_welcomes": info.welcomes.len(),
            "applied_psk_ids": info.applied_psk_ids.iter().map(|p| hx(p)).collect::<Vec<_>>(),
            "psk_table": psk_table, "resumption_table": res_table, "group_id": hx(&w.group_id),
        });
        let e = w.out.extra.entry("c13_insitu".to_string()).or_insert_with(|| Value::Array(vec![]));
        if let Value::Array(a) = e {
            a.push(ev);
        }
        w.out.cov.bump("insitu_epochs_logged");
        w.out.cov.eval(Some(fnv(format!("insitu|{}|{}|{}", info.external, info.has_path, info.applied_psk_ids.len()).as_bytes())));
    }
}

pub fn run(a: &Args) -> ShardOut {
    let mut out = run_world(
        a,
        "C13",
        ((2, 14), (12, 30)),
        &mut |cfg, _| {
            cfg.encrypt_controls = false;
            cfg.record = true;
            cfg.max_members = cfg.max_members.min(8);
            (
                Box::new(InSitu {
                    prev: BTreeMap::new(),
                    resumption_by_epoch: BTreeMap::new(),
                    logged: 0,
                }) as Box<dyn Hooks>,
                DriveCfg {
                    p_psk: (1, 2),
                    p_race: (0, 1),
                    p_external_commit: (1, 4),
                    ..DriveCfg::default()
                },
            )
        },
        &mut |_, _| {},
    );
    let cases = pure(a, &mut out);
    out.cov.add("pure_cases", cases.len() as u64);
    out.extra.insert("c13_pure".into(), Value::Array(cases));
    out
}
