//! C19 — late messages: exact retention window and never a wrong sender.
//!
//! Reference model per member: `pending` = epochs entered since the last write, `stored` = what
//! storage holds; on epoch advance the old epoch is pushed to `pending`; on write
//! `stored = R largest of (stored ∪ pending)`, `pending = ∅`; on reload `pending = ∅`.
//! A late application message of epoch e from leaf L is expected to be accepted exactly when
//! e is retained, the receiver was a member in e, and leaf L still carries the signature key it
//! carried in e. On acceptance sender, payload and authenticated data must be the true ones.
//! After every write storage must hold exactly the model's `stored` epochs.

use std::collections::{BTreeMap, BTreeSet};

use mls_rs::group::{CommitEffect, ReceivedMessage};
use mls_rs::identity::basic::BasicCredential;
use mls_rs::identity::SigningIdentity;
use mls_rs::{CipherSuiteProvider, MlsMessage};
use serde_json::json;

use super::Args;
use crate::driver::*;
use crate::store::Backend;
use crate::util::*;
use crate::world::*;

#[derive(Default, Clone)]
struct Model {
    pending: BTreeSet<u64>,
    stored: BTreeSet<u64>,
    write_pattern: u8,
}

#[derive(Clone)]
struct Late {
    msg: MlsMessage,
    epoch: u64,
    sender: usize,
    leaf: u32,
    sig_key: Vec<u8>,
    plaintext: Vec<u8>,
    aad: Vec<u8>,
    delivered_to: BTreeSet<usize>,
}

fn ek(e: &str) -> String {
    e.split('(').next().unwrap_or(e).chars().take(50).collect()
}

pub fn run(a: &Args) -> ShardOut {
    let mut total = ShardOut::default();
    let (histories, rounds) = if a.thorough { (60, 40) } else { (16, 18) };
    for h in 0..histories {
        if let Some(only) = super::only_history() {
            if only != h {
                continue;
            }
        }
        let mut rng = Rng::derive(a.seed, "C19", a.shard * 10_000 + h);
        let mut cfg = WorldCfg::draw(&mut rng, a.thorough);
        cfg.max_members = cfg.max_members.clamp(4, 7);
        cfg.retention = [1, 2, 3, 5][((a.shard + h) % 4) as usize];
        cfg.backend = match (a.shard / 4 + h) % 3 {
            0 => Backend::Mem,
            1 => Backend::Sql,
            _ => Backend::Tee,
        };
        let mut w = World::new(cfg.clone(), rng, "C19");
        if let Err(e) = history(&mut w, rounds) {
            if e.contains("PANIC") && panic_in_repo(&e) {
                w.violate(format!("C19|panic|{}", e.chars().take(90).collect::<String>()), e);
            } else {
                w.out.inconclusive.push(format!("history {h}: {e}"));
            }
        }
        w.out.cov.bump("histories");
        w.out.cov.bump(&format!("config:{:?}:R{}", cfg.backend, cfg.retention));
        w.out.cov.sample(json!({"cfg": cfg.to_json(), "first_ops": w.script.iter().take(20).cloned().collect::<Vec<_>>()}));
        total.cov.merge(&w.out.cov);
        total.violations.extend(w.out.violations.drain(..));
        total.inconclusive.extend(w.out.inconclusive.drain(..));
    }
    total
}

fn sig_key_at(w: &World, viewer: usize, leaf: u32) -> Option<Vec<u8>> {
    w.g(viewer)
        .roster()
        .members_iter()
        .find(|m| m.index == leaf)
        .map(|m| m.signing_identity.signature_key.as_ref().to_vec())
}

fn write(w: &mut World, models: &mut BTreeMap<usize, Model>, who: usize) -> Result<(), String> {
    let r = w.cfg.retention as usize;
    {
        let g = w.gm(who);
        match guarded(|| g.write_to_storage()) {
            Ok(Ok(())) => {}
            Ok(Err(e)) => return Err(format!("write_to_storage: {e:?}")),
            Err(p) => return Err(format!("PANIC in write_to_storage: {p}")),
        }
    }
    let m = models.entry(who).or_default();
    let mut all: Vec<u64> = m.stored.union(&m.pending).copied().collect();
    all.sort();
    let keep: BTreeSet<u64> = all.iter().rev().take(r).copied().collect();
    m.stored = keep;
    m.pending.clear();
    // storage must hold exactly the model's epochs, on every backend
    let cur = w.g(who).current_epoch();
    let check = |w: &mut World, name: &str, ids: BTreeSet<u64>, want: &BTreeSet<u64>| {
        w.out.cov.bump("storage_contents_checked");
        w.out.cov.eval(Some(fnv(format!("store|{name}|{}|{}", want.len(), ids.len()).as_bytes())));
        if &ids != want {
            let extra: Vec<_> = ids.difference(want).collect();
            let missing: Vec<_> = want.difference(&ids).collect();
            let sig = if !extra.is_empty() { "trimmed_epoch_still_retrievable" } else { "retained_epoch_missing_from_storage" };
            w.violate(
                format!("C19|{sig}|{name}"),
                format!("member {who} at epoch {cur} (retention {}): storage holds {ids:?}, model {want:?} (extra {extra:?}, missing {missing:?})", w.cfg.retention),
            );
        }
    };
    let want = models[&who].stored.clone();
    if let Some((dm, ds)) = w.parties[who].stores.gs.dump_both(&w.group_id, cur + 2) {
        check(w, "in_memory", dm.epochs.keys().copied().collect(), &want);
        check(w, "sqlite", ds.epochs.keys().copied().collect(), &want);
    } else {
        let d = w.parties[who].stores.gs.dump(&w.group_id, cur + 2);
        let name = if w.cfg.backend == Backend::Sql { "sqlite" } else { "in_memory" };
        check(w, name, d.epochs.keys().copied().collect(), &want);
    }
    Ok(())
}

fn history(w: &mut World, rounds: u64) -> Result<(), String> {
    let n0 = w.rng.range(3, 5);
    w.bootstrap(n0, &mut NoHooks)?;
    let mut models: BTreeMap<usize, Model> = BTreeMap::new();
    // bootstrap epochs: members have advanced without the model watching; start from a write
    for i in w.active() {
        // every member's pending set = epochs it went through since joining
        let je = w.parties[i].joined_epoch;
        let cur = w.g(i).current_epoch();
        let mut m = Model {
            write_pattern: (w.rng.next() % 4) as u8,
            ..Default::default()
        };
        // what was written during bootstrap is unknown to the model: learn it from storage once
        let d = w.parties[i].stores.gs.dump(&w.group_id, cur + 2);
        m.stored = d.epochs.keys().copied().collect();
        let vr = mls_rs::group::verif_hooks::repo_view(w.g(i));
        m.pending = vr.inserts.iter().map(|e| e.epoch_id()).collect();
        let _ = je;
        models.insert(i, m);
    }
    let dc = DriveCfg {
        bias_remove: 3,
        bias_add: 3,
        ..DriveCfg::default()
    };
    let mut late: Vec<Late> = vec![];
    for round in 0..rounds {
        let act = w.active();
        if act.len() < 2 {
            break;
        }
        let epoch = w.epoch();
        // application messages of this epoch, kept for late delivery
        let ns = w.rng.range(1, 2);
        for _ in 0..ns {
            let s = act[w.rng.below(act.len())];
            if let Some(m) = w.send_app(s, &mut NoHooks)? {
                let sk = sig_key_at(w, s, m.sender_leaf).unwrap_or_default();
                late.push(Late {
                    msg: m.msg,
                    epoch,
                    sender: s,
                    leaf: m.sender_leaf,
                    sig_key: sk,
                    plaintext: m.plaintext,
                    aad: m.aad,
                    delivered_to: BTreeSet::new(),
                });
            }
        }
        // late deliveries of messages aged 0..R+2 epochs
        let r = w.cfg.retention;
        let nl = w.rng.range(2, 6);
        for _ in 0..nl {
            if late.is_empty() {
                break;
            }
            let k = w.rng.below(late.len());
            let age = epoch - late[k].epoch;
            if age > r + 3 {
                continue;
            }
            let cands: Vec<usize> = w.active().into_iter().filter(|i| *i != late[k].sender && !late[k].delivered_to.contains(i)).collect();
            if cands.is_empty() {
                continue;
            }
            let to = cands[w.rng.below(cands.len())];
            let l = late[k].clone();
            late[k].delivered_to.insert(to);
            let model = models.entry(to).or_default().clone();
            let cur = w.g(to).current_epoch();
            let was_member = w.parties[to].joined_epoch <= l.epoch;
            let retained = l.epoch == cur || model.pending.contains(&l.epoch) || model.stored.contains(&l.epoch);
            let key_now = sig_key_at(w, to, l.leaf);
            let same_sender_key = key_now.as_deref() == Some(l.sig_key.as_slice());
            let expect_ok = was_member && retained && (l.epoch == cur || same_sender_key);
            w.log(json!({"op":"late_delivery","to":to,"msg_epoch":l.epoch,"age":cur - l.epoch,"expect_ok":expect_ok,"retained":retained,"same_key":same_sender_key,"was_member":was_member}));
            w.out.cov.eval(Some(fnv(format!("late|{}|{retained}|{same_sender_key}|{was_member}|R{}", (cur - l.epoch).min(8), r).as_bytes())));
            w.out.cov.bump(&format!("late_delivery:age{}", (cur - l.epoch).min(8)));
            w.out.cov.bump(if expect_ok { "late_expected_ok" } else { "late_expected_err" });
            if retained && was_member && !same_sender_key && l.epoch != cur {
                w.out.cov.bump("late_sender_leaf_vacated_or_rekeyed");
            }
            match w.deliver(to, &l.msg) {
                Ok(ReceivedMessage::ApplicationMessage(d)) => {
                    if d.sender_index != l.leaf || d.data() != l.plaintext.as_slice() || d.authenticated_data != l.aad {
                        w.violate(
                            "C19|late_message_attributed_or_decoded_wrongly",
                            format!("member {to}: message of leaf {} epoch {} reported as from {} (payload ok {}, aad ok {})", l.leaf, l.epoch, d.sender_index, d.data() == l.plaintext.as_slice(), d.authenticated_data == l.aad),
                        );
                    }
                    if !expect_ok {
                        let why = if !was_member {
                            "receiver_not_a_member_then"
                        } else if !retained {
                            "epoch_not_retained"
                        } else {
                            "sender_leaf_vacated_or_rekeyed"
                        };
                        w.violate(
                            format!("C19|late_message_accepted|{why}"),
                            format!("member {to} at epoch {cur} (retention {r}, pending {:?}, stored {:?}) accepted a message of epoch {} from leaf {}", model.pending, model.stored, l.epoch, l.leaf),
                        );
                    }
                }
                Ok(_) => w.violate("C19|late_message_wrong_event", format!("member {to}")),
                Err(e) => {
                    if e.starts_with("PANIC") {
                        w.violate(format!("C19|panic|late_message|{}", e.chars().take(80).collect::<String>()), e.clone());
                    } else if expect_ok {
                        w.violate(
                            format!("C19|retained_late_message_refused|{}", ek(&e)),
                            format!("member {to} at epoch {cur} (retention {r}, pending {:?}, stored {:?}) refused a message of epoch {} from leaf {}: {e}", model.pending, model.stored, l.epoch, l.leaf),
                        );
                    } else {
                        w.out.cov.bump(&format!("late_refused_with:{}", ek(&e)));
                    }
                }
            }
        }
        late.retain(|m| epoch - m.epoch <= r + 3);
        // a commit moves everybody on
        let np = w.rng.below(3);
        let mut props: Vec<(usize, MlsMessage)> = vec![];
        for _ in 0..np {
            let act = w.active();
            let by = act[w.rng.below(act.len())];
            let k = if w.rng.chance(1, 4) {
                // identity change of the proposer: its late messages must then be refused
                let cs = w.suite_of(w.parties[by].prov);
                let (sk, pk) = cs.signature_key_generate().map_err(|e| format!("{e:?}"))?;
                let si = SigningIdentity::new(BasicCredential::new(w.parties[by].name.clone()).into_credential(), pk);
                Some(PropKind::UpdateIdentity(sk, si))
            } else {
                w.draw_prop(by, &dc)
            };
            let Some(k) = k else { continue };
            if matches!(k, PropKind::ResumptionPsk(_)) {
                continue;
            }
            if let Ok(m) = w.propose(by, &k) {
                props.push((by, m));
            }
        }
        for to in w.active() {
            for (by, m) in &props {
                if *by != to {
                    w.deliver(to, m).map_err(|e| format!("honest proposal rejected by {to}: {e}"))?;
                }
            }
        }
        let act = w.active();
        let c = act[w.rng.below(act.len())];
        struct Adv<'a> {
            models: &'a mut BTreeMap<usize, Model>,
        }
        impl Hooks for Adv<'_> {
            fn allow_reload(&self) -> bool {
                false
            }
        }
        let before: BTreeMap<usize, u64> = w.active().into_iter().map(|i| (i, w.g(i).current_epoch())).collect();
        let mut hk = Adv { models: &mut models };
        let info = w.commit_round(
            vec![CommitPlan {
                committer: c,
                ..Default::default()
            }],
            &mut hk,
        )?;
        let _ = hk.models.len();
        if info.is_none() {
            for i in w.active() {
                w.gm(i).clear_proposal_cache();
            }
            continue;
        }
        // model: everybody who advanced leaves its old epoch behind
        for i in w.active() {
            let now = w.g(i).current_epoch();
            match before.get(&i) {
                Some(b) if *b < now => {
                    models.entry(i).or_default().pending.insert(*b);
                }
                None => {
                    // joiner: starts with nothing
                    models.insert(
                        i,
                        Model {
                            write_pattern: (w.rng.next() % 4) as u8,
                            ..Default::default()
                        },
                    );
                }
                _ => {}
            }
        }
        let gone: Vec<usize> = models.keys().copied().filter(|i| w.parties[*i].status != Status::Active).collect();
        for g in gone {
            models.remove(&g);
        }
        // identity updates committed: keep the world's view of signers in step
        for i in w.active() {
            if let Ok(si) = w.g(i).current_member_signing_identity() {
                if si.signature_key != w.parties[i].pk {
                    let si = si.clone();
                    let sk = mls_rs::group::verif_hooks::own_signer_bytes(w.g(i));
                    let p = &mut w.parties[i];
                    p.pk = si.signature_key.clone();
                    p.signing_identity = si;
                    p.sk = sk.into();
                }
            }
        }
        // write patterns: 0 every epoch, 1 every third, 2 never, 3 bursts
        for i in w.active() {
            let pat = models.get(&i).map(|m| m.write_pattern).unwrap_or(0);
            let do_write = match pat {
                0 => true,
                1 => round % 3 == 0,
                2 => false,
                _ => w.rng.chance(1, 4),
            };
            if do_write {
                write(w, &mut models, i)?;
                w.out.cov.bump(&format!("write_pattern:{pat}"));
                if pat == 3 {
                    // burst: a second write right away changes nothing
                    write(w, &mut models, i)?;
                }
                // sometimes the process restarts: unwritten epochs are gone (there are none now)
                if w.rng.chance(1, 5) {
                    w.write_and_reload(i)?;
                    w.out.cov.bump("reloaded");
                }
            }
        }
        w.out.cov.bump("commit_accepted");
        let _ = CommitEffect::ReInit;
    }
    Ok(())
}
