pub mod c01;
pub mod c04;
pub mod c05;
pub mod c06;
pub mod c10;
pub mod c11;
pub mod c12;
pub mod c13;
pub mod c14;
pub mod c15;
pub mod c16;
pub mod c17;
pub mod c18;
pub mod c19;
pub mod c20;
pub mod tamper;
pub mod worldmon;

use crate::util::ShardOut;

#[derive(Clone, Debug)]
pub struct Args {
    pub prop: String,
    pub thorough: bool,
    pub seed: u64,
    pub shard: u64,
    pub nshards: u64,
    pub out: String,
    pub extra: Vec<String>,
}

pub fn run(a: &Args) -> Result<ShardOut, String> {
    match a.prop.as_str() {
        "C01" => Ok(c01::run(a)),
        "C16" => Ok(c16::run(a)),
        "C17" => Ok(c17::run(a)),
        "C18" => Ok(c18::run(a)),
        "C19" => Ok(c19::run(a)),
        "C20" => Ok(c20::run(a)),
        "C02" => Ok(worldmon::run_c02(a)),
        "C05" => Ok(c05::run(a)),
        "C06" => Ok(c06::run(a)),
        "C07" => Ok(worldmon::run_c07(a)),
        "C08" => Ok(worldmon::run_c08(a)),
        "C09" => Ok(worldmon::run_c09(a)),
        "C10" => Ok(c10::run(a)),
        "C11" => Ok(c11::run(a)),
        "C12" => Ok(c12::run(a)),
        "C13" => Ok(c13::run(a)),
        "C14" => Ok(c14::run(a)),
        "C15" => Ok(c15::run(a)),
        "C03" => Ok(tamper::run(a, false)),
        "C04" => Ok(c04::run(a)),
        p => Err(format!("unknown property {p}")),
    }
}

pub fn only_history() -> Option<u64> {
    std::env::var("MLSVERIF_HISTORY").ok().and_then(|s| s.parse().ok())
}

/// Tree-shape classes of an exported tree (coverage only).
pub fn tree_shapes(tree_bytes: &[u8]) -> Vec<&'static str> {
    use mls_rs::group::{ExportedTree, Node};
    let mut out = vec![];
    let Ok(t) = ExportedTree::from_bytes(tree_bytes) else { return out };
    let nodes = t.nodes();
    let last_leaf = nodes.len() / 2;
    let mut blank_interior = false;
    let mut unmerged = false;
    let mut blank_parent = false;
    for (i, n) in nodes.iter().enumerate() {
        match n {
            None if i % 2 == 0 && i / 2 < last_leaf => blank_interior = true,
            None if i % 2 == 1 => blank_parent = true,
            Some(Node::Parent(p)) if !p.unmerged_leaves.is_empty() => unmerged = true,
            _ => {}
        }
    }
    if blank_interior {
        out.push("interior_blank_leaf");
    }
    if unmerged {
        out.push("unmerged_leaf_under_parent");
    }
    if blank_parent {
        out.push("blank_parent");
    }
    if blank_interior && unmerged {
        out.push("interior_blank_and_unmerged");
    }
    out
}
