//! Tamper engine: C03 (any modification or forgery is rejected, never a panic, never acceptance)
//! and C04 (a rejected message leaves the member exactly as it was).
//!
//! Every trial runs on a *clone* of the receiver so that all trials of one message start from
//! the same state. In C03 mode the verdict is about the result of the call; in C04 mode the
//! unchanged-state wrapper and the follow-up oracle are on (and acceptance is not judged).

use std::collections::BTreeMap;

use mls_rs::external_client::builder::ExternalClientBuilder;
use mls_rs::group::verif_hooks as vh;
use mls_rs::group::verif_hooks::Mutation;
use mls_rs::group::{CommitOutput, ExportedTree, ReceivedMessage};
use mls_rs::psk::ExternalPskId;
use mls_rs::{CipherSuiteProvider, MlsMessage};
use serde_json::json;

use super::Args;
use crate::anycrypto::AnyCrypto;
use crate::driver::*;
use crate::util::*;
use crate::wire::*;
use crate::world::*;

pub struct Pooled {
    pub kind: &'static str,
    pub epoch: u64,
    pub from: usize,
    pub msg: MlsMessage,
    pub private: bool,
}

pub struct Tamper {
    pub c04: bool,
    pub thorough: bool,
    pub prop: &'static str,
    /// messages seen, for splices and replays
    pub pool: Vec<Pooled>,
    /// exhaustive sweeps done per class in this history
    pub sweeps: BTreeMap<String, usize>,
    pub max_sweeps: usize,
    pub flip_budget: usize,
    pub light_flips: usize,
    pub prev_conf_tag: Option<Vec<u8>>,
    pub stashed_gi: Option<(usize, MlsMessage)>,
    pub rng: Rng,
    /// identity the group context authorises as external sender (half of the histories)
    pub ext_signer: Option<(mls_rs_core::crypto::SignatureSecretKey, mls_rs::identity::SigningIdentity)>,
}

/// What differs between `base` and `g` after discounting observationally equivalent secret
/// trees and cached copies of stored prior epochs (the C04 notion of "unchanged").
pub fn residual_diff(w: &mut World, to: usize, base: &VGroup, g: &VGroup) -> Vec<&'static str> {
    let mut d = vh::state_diff(base, g);
    if d.contains(&"epoch_secrets") && vh::epoch_secrets_equiv(base, g, 6).is_none() {
        d.retain(|x| *x != "epoch_secrets");
        w.out.cov.bump("epoch_secrets_equivalent_after_reject");
    }
    if d.contains(&"repo_inserts") {
        let (ra, rb) = (vh::repo_view(base), vh::repo_view(g));
        let cs = w.suite_of(w.parties[to].prov);
        if ra.inserts.len() == rb.inserts.len()
            && ra
                .inserts
                .iter()
                .zip(rb.inserts.iter())
                .all(|(a, b)| vh::epoch_rec_equiv(&cs, a, b, 6).is_none())
        {
            d.retain(|x| *x != "repo_inserts");
            w.out.cov.bump("repo_inserts_equivalent_after_reject");
        }
    }
    // cached (pending) copies of stored prior epochs: a copy equal to what is stored, or
    // observationally equivalent to it, is not a change
    {
        let (ra, rb) = (vh::repo_view(base), vh::repo_view(g));
        let cs = w.suite_of(w.parties[to].prov);
        let gid = w.group_id.clone();
        let dump = w.parties[to].stores.gs.dump(&gid, base.current_epoch());
        let eff = |v: &vh::RepoView, id: u64| -> Option<vh::EpochRec> {
            v.updates
                .iter()
                .find(|e| e.epoch_id() == id)
                .cloned()
                .or_else(|| dump.epochs.get(&id).and_then(|b| vh::EpochRec::decode(b).ok()))
        };
        let mut ids: Vec<u64> = ra.updates.iter().chain(rb.updates.iter()).map(|e| e.epoch_id()).collect();
        ids.sort();
        ids.dedup();
        for id in ids {
            match (eff(&ra, id), eff(&rb, id)) {
                (Some(a), Some(b)) => {
                    if let Some(x) = vh::epoch_rec_equiv(&cs, &a, &b, 6) {
                        d.push("prior_epoch_record");
                        w.log(json!({"prior_epoch_diff": id, "what": x}));
                    }
                }
                (None, None) => {}
                _ => d.push("prior_epoch_record"),
            }
        }
    }
    d
}

/// Genuine messages of a sibling group (same suite, same epoch number, other group id)
/// delivered into this group: member messages, and messages of senders that are not bound
/// to a group by the signature context (an outsider proposing itself).
pub fn sibling_messages(w: &mut World, rng: &mut Rng, ext_signer: &Option<(mls_rs_core::crypto::SignatureSecretKey, mls_rs::identity::SigningIdentity)>) -> Vec<(&'static str, Vec<u8>)> {
    let cur = w.epoch();
    let act = w.active();
    if cur > 48 || act.is_empty() {
        return vec![];
    }
    let prov = w.cfg.provs[rng.below(w.cfg.provs.len())];
    let cs = w.suite_of(prov);
    let mk = |name: &[u8], w: &World| {
        let (sk, pk) = cs.signature_key_generate().ok()?;
        let stores = Stores::new(crate::store::Backend::Mem, 3);
        Some(make_client(name, prov, 995, w.cfg.suite, sk, pk, &stores, &VIdent::default(), w.cfg.rules(), None).0)
    };
    let (Some(creator), Some(outsider)) = (mk(b"sib0", w), mk(b"sibx", w)) else { return vec![] };
    let gce = w.base_gce();
    let Ok(Ok(mut g2)) = guarded(|| creator.create_group(gce, Default::default(), None)) else { return vec![] };
    while g2.current_epoch() < cur {
        if !matches!(guarded(|| g2.commit(vec![])), Ok(Ok(_))) || !matches!(guarded(|| g2.apply_pending_alt()), Ok(Ok(_))) {
            return vec![];
        }
    }
    let mut msgs: Vec<(&'static str, Vec<u8>)> = vec![];
    if let Ok(Ok(gi2)) = guarded(|| g2.group_info_message_allowing_ext_commit(true)) {
        if let Ok(Ok(m)) = guarded(|| outsider.external_add_proposal(&gi2, None, vec![], Default::default(), Default::default(), None)) {
            if let Ok(b) = m.to_bytes() {
                msgs.push(("new_member_proposal_of_sibling_group", b));
            }
        }
    }
    // an external sender authorised in both groups (same signer, same index, same epoch)
    if let Some((sk, si)) = ext_signer.clone() {
        use mls_rs::external_client::builder::ExternalClientBuilder;
        let ec = ExternalClientBuilder::new()
            .identity_provider(VIdent::default())
            .crypto_provider(crate::anycrypto::AnyCrypto::new(prov))
            .extension_types([mls_rs_core::extension::ExtensionType::new(EXT_A), mls_rs_core::extension::ExtensionType::new(EXT_B)])
            .custom_proposal_types([mls_rs_core::group::ProposalType::new(CUSTOM_PROP), mls_rs_core::group::ProposalType::new(CUSTOM_PROP_PATH)])
            .signer(sk, si)
            .build();
        if let Ok(Ok(gi2)) = guarded(|| g2.group_info_message(true)) {
            if let Ok(Ok(mut eg)) = guarded(|| ec.observe_group(gi2, None, None)) {
                if let Ok(Ok(m)) = guarded(|| eg.propose_remove(0, vec![])) {
                    if let Ok(b) = m.to_bytes() {
                        msgs.push(("external_sender_proposal_of_sibling_group", b));
                    }
                }
            }
        }
    }
    if let Ok(Ok(m)) = guarded(|| g2.propose_group_context_extensions(w.base_gce(), vec![])) {
        if let Ok(b) = m.to_bytes() {
            msgs.push(("member_proposal_of_sibling_group", b));
        }
    }
    if let Ok(Ok(m)) = guarded(|| g2.encrypt_application_message(b"sibling", vec![])) {
        if let Ok(b) = m.to_bytes() {
            msgs.push(("application_message_of_sibling_group", b));
        }
    }
    if let Ok(Ok(o)) = guarded(|| g2.commit(vec![])) {
        if let Ok(b) = o.commit_message.to_bytes() {
            msgs.push(("commit_of_sibling_group", b));
        }
    }
    msgs
}


enum Outcome {
    DecodeReject,
    Rejected(String),
    Accepted,
    Panic(String),
}

fn try_deliver(g: &mut VGroup, bytes: &[u8]) -> Outcome {
    let m = match guarded(|| MlsMessage::from_bytes(bytes)) {
        Ok(Ok(m)) => m,
        Ok(Err(_)) => return Outcome::DecodeReject,
        Err(p) => return Outcome::Panic(p),
    };
    let r = if use_timed_entry_point() {
        guarded(|| g.process_incoming_message_with_time(m, mls_rs::time::MlsTime::now()))
    } else {
        guarded(|| g.process_incoming_message(m))
    };
    match r {
        Ok(Ok(_)) => Outcome::Accepted,
        Ok(Err(e)) => Outcome::Rejected(err_kind(&e)),
        Err(p) => Outcome::Panic(p),
    }
}

fn loc(p: &str) -> String {
    p.split(": ").next().unwrap_or(p).chars().take(80).collect()
}

impl Tamper {
    pub fn new(c04: bool, thorough: bool, rng: Rng) -> Self {
        Tamper {
            c04,
            thorough,
            prop: if c04 { "C04" } else { "C03" },
            pool: vec![],
            sweeps: BTreeMap::new(),
            max_sweeps: if thorough { 3 } else { 1 },
            flip_budget: if c04 {
                if thorough { 600 } else { 120 }
            } else if thorough {
                40_000
            } else {
                6_000
            },
            light_flips: if c04 { 6 } else { 24 },
            prev_conf_tag: None,
            stashed_gi: None,
            rng,
            ext_signer: None,
        }
    }

    /// Byte-level mutations of `bytes`: (class, mutated bytes).
    fn byte_mutations(&mut self, bytes: &[u8], sweep: bool, relevant: Option<&[std::ops::Range<usize>]>) -> Vec<(&'static str, Vec<u8>)> {
        let mut out = vec![];
        let positions: Vec<usize> = match relevant {
            Some(rs) => rs.iter().flat_map(|r| r.clone()).collect(),
            None => (0..bytes.len()).collect(),
        };
        if positions.is_empty() {
            return out;
        }
        let flip = |pos: usize, bit: u32| {
            let mut b = bytes.to_vec();
            b[pos] ^= 1 << bit;
            b
        };
        if sweep {
            if positions.len() * 8 <= self.flip_budget {
                for &p in &positions {
                    for bit in 0..8 {
                        out.push(("bitflip", flip(p, bit)));
                    }
                }
            } else {
                // one random bit of every byte, then random (byte, bit) pairs up to the budget
                let per = self.flip_budget.min(positions.len());
                let stride = positions.len() as f64 / per as f64;
                for i in 0..per {
                    let p = positions[((i as f64) * stride) as usize];
                    out.push(("bitflip", flip(p, (self.rng.next() % 8) as u32)));
                }
                for _ in 0..self.flip_budget.saturating_sub(per) {
                    let p = positions[self.rng.below(positions.len())];
                    out.push(("bitflip", flip(p, (self.rng.next() % 8) as u32)));
                }
            }
            // truncations: every point when small, else evenly spread + all near the end
            let tb = if self.c04 { 40 } else if self.thorough { 4000 } else { 400 };
            if bytes.len() <= tb {
                for l in 0..bytes.len() {
                    out.push(("truncate", bytes[..l].to_vec()));
                }
            } else {
                for i in 0..tb {
                    let l = i * bytes.len() / tb;
                    out.push(("truncate", bytes[..l].to_vec()));
                }
                for l in bytes.len().saturating_sub(40)..bytes.len() {
                    out.push(("truncate", bytes[..l].to_vec()));
                }
            }
        } else {
            for _ in 0..self.light_flips {
                let p = positions[self.rng.below(positions.len())];
                out.push(("bitflip", flip(p, (self.rng.next() % 8) as u32)));
            }
            for _ in 0..3 {
                let l = self.rng.below(bytes.len());
                out.push(("truncate", bytes[..l].to_vec()));
            }
            // last byte(s): beyond any sender-data sample
            out.push(("bitflip_tail", flip(bytes.len() - 1, 0)));
        }
        out
    }

    /// Field-level mutations of a framed message (splices with pooled messages of the same kind).
    fn field_mutations(&mut self, w: &World, kind: &str, from: usize, msg: &MlsMessage) -> Vec<(&'static str, Vec<u8>)> {
        let mut out = vec![];
        let other_leaf = {
            let a = w.active();
            a.iter().find(|i| **i != from).map(|i| w.leaf_of(*i))
        };
        if let Some(p) = vh::split_public(msg) {
            let same: Vec<&Pooled> = self
                .pool
                .iter()
                .filter(|x| x.kind == kind && !x.private && x.msg != *msg)
                .collect();
            let donor = same.last().and_then(|d| vh::split_public(&d.msg));
            let mk = |f: &dyn Fn(&mut vh::PublicParts)| {
                let mut q = vh::PublicParts {
                    version: p.version,
                    group_id: p.group_id.clone(),
                    epoch: p.epoch,
                    sender: p.sender.clone(),
                    authenticated_data: p.authenticated_data.clone(),
                    content: p.content.clone(),
                    signature: p.signature.clone(),
                    confirmation_tag: p.confirmation_tag.clone(),
                    membership_tag: p.membership_tag.clone(),
                };
                f(&mut q);
                join_public(&q)
            };
            if let Some(d) = &donor {
                out.push(("splice_signature", mk(&|q| q.signature = d.signature.clone())));
                out.push(("splice_membership_tag", mk(&|q| q.membership_tag = d.membership_tag.clone())));
                out.push(("splice_content", mk(&|q| q.content = d.content.clone())));
                out.push(("splice_aad", mk(&|q| q.authenticated_data = d.authenticated_data.clone())));
                out.push(("splice_sig_and_tag", mk(&|q| {
                    q.signature = d.signature.clone();
                    q.membership_tag = d.membership_tag.clone();
                })));
                if d.confirmation_tag.is_some() && p.confirmation_tag.is_some() {
                    out.push(("splice_confirmation_tag", mk(&|q| q.confirmation_tag = d.confirmation_tag.clone())));
                }
            }
            out.push(("aad_changed", mk(&|q| q.authenticated_data.push(0x41))));
            out.push(("epoch_plus_1", mk(&|q| q.epoch += 1)));
            if p.epoch > 0 {
                out.push(("epoch_minus_1", mk(&|q| q.epoch -= 1)));
            }
            out.push(("group_id_changed", mk(&|q| q.group_id.push(0))));
            if let (Some(l), true) = (other_leaf, p.sender.first() == Some(&1)) {
                out.push(("sender_reattributed", mk(&|q| q.sender = [vec![1u8], l.to_be_bytes().to_vec()].concat())));
            }
            if p.sender.first() == Some(&1) {
                out.push(("membership_tag_zeroed", mk(&|q| q.membership_tag = q.membership_tag.as_ref().map(|t| vec![0; t.len()]))));
                out.push(("sender_as_new_member_no_tag", mk(&|q| {
                    q.sender = vec![if kind == "commit" { 4u8 } else { 3u8 }];
                    q.membership_tag = None;
                })));
            }
            if let Some(t) = &p.confirmation_tag {
                out.push(("confirmation_tag_zeroed", mk(&|q| q.confirmation_tag = Some(vec![0; t.len()]))));
                if let Some(prev) = &self.prev_conf_tag {
                    if prev != t {
                        let prev = prev.clone();
                        out.push(("confirmation_tag_of_previous_commit", mk(&move |q| q.confirmation_tag = Some(prev.clone()))));
                    }
                }
            }
        }
        if let Some(p) = vh::split_private(msg) {
            let same: Vec<&Pooled> = self
                .pool
                .iter()
                .filter(|x| x.private && x.msg != *msg)
                .collect();
            let donor = same.last().and_then(|d| vh::split_private(&d.msg));
            let mk = |f: &dyn Fn(&mut vh::PrivateParts)| {
                let mut q = vh::PrivateParts {
                    version: p.version,
                    group_id: p.group_id.clone(),
                    epoch: p.epoch,
                    content_type: p.content_type,
                    authenticated_data: p.authenticated_data.clone(),
                    encrypted_sender_data: p.encrypted_sender_data.clone(),
                    ciphertext: p.ciphertext.clone(),
                };
                f(&mut q);
                join_private(&q)
            };
            if let Some(d) = &donor {
                out.push(("splice_sender_data", mk(&|q| q.encrypted_sender_data = d.encrypted_sender_data.clone())));
                out.push(("splice_ciphertext", mk(&|q| q.ciphertext = d.ciphertext.clone())));
                out.push(("splice_aad", mk(&|q| q.authenticated_data = d.authenticated_data.clone())));
            }
            out.push(("aad_changed", mk(&|q| q.authenticated_data.push(0x41))));
            out.push(("epoch_plus_1", mk(&|q| q.epoch += 1)));
            if p.epoch > 0 {
                out.push(("epoch_minus_1", mk(&|q| q.epoch -= 1)));
            }
            out.push(("group_id_changed", mk(&|q| q.group_id.push(0))));
            for ct in 1u8..=3 {
                if ct != p.content_type {
                    out.push(("content_type_changed", mk(&|q| q.content_type = ct)));
                }
            }
            // insider re-attribution: sender data re-encrypted for another leaf
            if let Some(l) = other_leaf {
                if let Some(b) = reattribute_private(w, from, &p, l) {
                    out.push(("sender_data_reencrypted_for_other_leaf", b));
                }
            }
        }
        out
    }

    fn note(&self, w: &mut World, kind: &str, class: &str, outcome: &str) {
        w.out.cov.eval(Some(fnv(format!("{kind}|{class}|{outcome}").as_bytes())));
        w.out.cov.bump(&format!("trial:{kind}:{class}"));
    }

    /// One trial against member `to`. `genuine` is what the sender really sent.
    fn trial(&mut self, w: &mut World, to: usize, kind: &str, class: &str, genuine: &MlsMessage, mutated: &[u8]) {
        self.trial_opt(w, to, kind, class, Some(genuine), mutated)
    }

    fn trial_opt(&mut self, w: &mut World, to: usize, kind: &str, class: &str, genuine: Option<&MlsMessage>, mutated: &[u8]) {
        // a "mutation" that decodes to the very same message (e.g. a splice of equal fields, or
        // bytes appended after a complete message) is not a modification
        if let Some(gen) = genuine {
            if let Ok(Ok(m)) = guarded(|| MlsMessage::from_bytes(mutated)) {
                if &m == gen {
                    w.out.cov.bump("noop_mutation_skipped");
                    return;
                }
            }
        }
        let base = w.g(to).clone();
        let mut g = base.clone();
        let oc = try_deliver(&mut g, mutated);
        match &oc {
            Outcome::DecodeReject => self.note(w, kind, class, "decode_reject"),
            Outcome::Rejected(k) => {
                let k = k.clone();
                self.note(w, kind, class, &k);
                w.out.cov.bump(&format!("rejected_with:{}", k.split('/').next().unwrap_or("")));
            }
            Outcome::Accepted => {
                self.note(w, kind, class, "accepted");
                if !self.c04 {
                    w.violate(
                        format!("C03|accepted|{kind}|{class}"),
                        format!("member {to} accepted a {class} {kind}; genuine={} mutated={}", hx(&genuine.and_then(|g| g.to_bytes().ok()).unwrap_or_default()), hx(mutated)),
                    );
                }
                return;
            }
            Outcome::Panic(p) => {
                self.note(w, kind, class, "panic");
                w.violate(
                    format!("{}|panic|{kind}|{class}|{}", self.prop, loc(p)),
                    format!("member {to} panicked on a {class} {kind}: {p}; mutated={}", hx(mutated)),
                );
                if !self.c04 {
                    return;
                }
            }
        }
        if !self.c04 {
            return;
        }
        let errk = match &oc {
            Outcome::DecodeReject => "Decode".to_string(),
            Outcome::Rejected(k) => k.split('/').next().unwrap_or("").to_string(),
            Outcome::Panic(_) => "Panic".to_string(),
            Outcome::Accepted => unreachable!(),
        };
        self.unchanged_and_follow_up(w, to, kind, class, &errk, &base, g, genuine);
    }

    /// C04: state identical (secret trees up to observational equivalence), then the genuine
    /// message is still accepted and what the member sends afterwards is accepted by a peer.
    #[allow(clippy::too_many_arguments)]
    pub fn unchanged_and_follow_up(
        &mut self,
        w: &mut World,
        to: usize,
        kind: &str,
        class: &str,
        errk: &str,
        base: &VGroup,
        mut g: VGroup,
        genuine: Option<&MlsMessage>,
    ) {
        let d = residual_diff(w, to, base, &g);
        w.out.cov.bump("unchanged_checked");
        if !d.is_empty() {
            let fine = if d.contains(&"epoch_secrets") {
                vh::epoch_secrets_equiv(base, &g, 6).unwrap_or_default()
            } else {
                String::new()
            };
            w.violate(
                format!("C04|state_changed|{kind}|{class}|{errk}|{}", d.join("+")),
                format!("member {to}: rejected ({errk}) {class} {kind} changed {d:?} {fine}"),
            );
        }
        // follow-up oracle
        let Some(genuine) = genuine else { return };
        let gm = genuine.clone();
        let r = guarded(|| g.process_incoming_message(gm));
        let ev = match r {
            Ok(Ok(ev)) => ev,
            Ok(Err(e)) => {
                w.violate(
                    format!("C04|genuine_refused_after_reject|{kind}|{class}|{errk}|{}", err_kind(&e).split('/').next().unwrap_or("")),
                    format!("member {to}: after rejecting a {class} {kind} ({errk}) the genuine message is refused: {e:?}"),
                );
                return;
            }
            Err(p) => {
                w.violate(format!("C04|panic_on_genuine_after_reject|{kind}|{}", loc(&p)), p);
                return;
            }
        };
        w.out.cov.bump("follow_up_genuine_ok");
        // what it sends next must be accepted by a peer in the same state
        let committer = w.cur_commit.as_ref().map(|c| c.0);
        let act = w.active();
        let peer = act.iter().copied().find(|i| *i != to && Some(*i) != committer && kind == "commit")
            .or_else(|| act.iter().copied().find(|i| *i != to && kind != "commit"));
        let mut pg = match (kind, peer, committer) {
            ("commit", Some(p), _) => {
                let mut pg = w.g(p).clone();
                let gm = genuine.clone();
                match guarded(|| pg.process_incoming_message(gm)) {
                    Ok(Ok(ReceivedMessage::Commit(c))) if matches!(c.effect, mls_rs::group::CommitEffect::NewEpoch(_)) => {}
                    _ => return,
                }
                pg
            }
            ("commit", None, Some(c)) if c != to => {
                let mut pg = w.g(c).clone();
                if guarded(|| pg.apply_pending_alt()).map(|r| r.is_ok()) != Ok(true) {
                    return;
                }
                pg
            }
            ("commit", _, _) => return,
            (_, Some(p), _) => {
                let mut pg = w.g(p).clone();
                if kind == "proposal" {
                    // the peer needs the proposal too, otherwise nothing to compare
                    let gm = genuine.clone();
                    let _ = guarded(|| pg.process_incoming_message(gm));
                }
                pg
            }
            _ => return,
        };
        if let ReceivedMessage::Commit(c) = &ev {
            if matches!(c.effect, mls_rs::group::CommitEffect::Removed { .. } | mls_rs::group::CommitEffect::ReInit(_)) {
                return;
            }
        }
        let sent = guarded(|| g.encrypt_application_message(b"after-reject", vec![]));
        let m = match sent {
            Ok(Ok(m)) => m,
            Ok(Err(e)) if format!("{e:?}").starts_with("CommitRequired") => {
                match guarded(|| g.propose_update(vec![])) {
                    Ok(Ok(m)) => m,
                    Ok(Err(e)) => {
                        w.violate(
                            format!("C04|cannot_send_after_reject|{kind}|{errk}|{}", err_kind(&e).split('/').next().unwrap_or("")),
                            format!("member {to}: {e:?}"),
                        );
                        return;
                    }
                    Err(p) => {
                        w.violate(format!("C04|panic_sending_after_reject|{}", loc(&p)), p);
                        return;
                    }
                }
            }
            Ok(Err(e)) => {
                w.violate(
                    format!("C04|cannot_send_after_reject|{kind}|{errk}|{}", err_kind(&e).split('/').next().unwrap_or("")),
                    format!("member {to}: {e:?}"),
                );
                return;
            }
            Err(p) => {
                w.violate(format!("C04|panic_sending_after_reject|{}", loc(&p)), p);
                return;
            }
        };
        match guarded(|| pg.process_incoming_message(m)) {
            Ok(Ok(_)) => w.out.cov.bump("follow_up_peer_accepts"),
            Ok(Err(e)) => w.violate(
                format!("C04|peer_refuses_after_reject|{kind}|{class}|{errk}|{}", err_kind(&e).split('/').next().unwrap_or("")),
                format!("a peer refuses what member {to} sends after it rejected a {class} {kind} ({errk}): {e:?}"),
            ),
            Err(p) => w.violate(format!("C04|panic_peer_after_reject|{}", loc(&p)), p),
        }
    }

    /// All trials for one framed message against the given receivers.
    fn attack_message(&mut self, w: &mut World, kind: &'static str, from: usize, msg: &MlsMessage, receivers: &[usize]) {
        if receivers.is_empty() {
            return;
        }
        let Ok(bytes) = msg.to_bytes() else { return };
        let private = vh::split_private(msg).is_some();
        let class_key = format!("{kind}:{}", if private { "private" } else { "public" });
        let n = self.sweeps.entry(class_key.clone()).or_insert(0);
        let sweep = *n < self.max_sweeps;
        if sweep {
            *n += 1;
            w.out.cov.bump(&format!("sweep:{class_key}"));
        }
        // A member that the commit removes cannot compute the new epoch's secrets, hence cannot
        // check the confirmation tag: changes confined to that tag are not required to matter
        // to it (signature and membership tag still are).
        let mut removed_receivers = vec![];
        let mut conf_range = 0..0;
        if kind == "commit" {
            if let Some(p) = vh::split_public(msg) {
                if let Some(t) = &p.confirmation_tag {
                    let vl = |n: usize| if n < 64 { 1 } else if n < 16384 { 2 } else { 4 };
                    let mt = p.membership_tag.as_ref().map(|m| vl(m.len()) + m.len()).unwrap_or(0);
                    let ct = vl(t.len()) + t.len();
                    conf_range = (bytes.len() - mt - ct)..(bytes.len() - mt);
                }
            }
            for &to in receivers {
                let mut g = w.g(to).clone();
                let m = msg.clone();
                if let Ok(Ok(ReceivedMessage::Commit(d))) = guarded(|| g.process_incoming_message(m)) {
                    if matches!(d.effect, mls_rs::group::CommitEffect::Removed { .. }) {
                        removed_receivers.push(to);
                    }
                }
            }
        }
        let tag_only = |b: &[u8]| -> bool {
            b.len() == bytes.len()
                && b.iter().zip(bytes.iter()).enumerate().all(|(i, (x, y))| x == y || conf_range.contains(&i))
        };
        let muts = self.byte_mutations(&bytes, sweep, None);
        for (i, (class, b)) in muts.iter().enumerate() {
            let to = receivers[i % receivers.len()];
            if removed_receivers.contains(&to) && tag_only(b) {
                w.out.cov.bump("confirmation_tag_change_for_removed_member_skipped");
                continue;
            }
            self.trial(w, to, kind, class, msg, b);
        }
        for (class, b) in self.field_mutations(w, kind, from, msg) {
            for &to in receivers {
                if removed_receivers.contains(&to) && tag_only(&b) {
                    w.out.cov.bump("confirmation_tag_change_for_removed_member_skipped");
                    continue;
                }
                self.trial(w, to, kind, class, msg, &b);
            }
        }
    }

    /// Replays: pooled handshake messages of earlier epochs, and application messages already
    /// consumed by the receiver, delivered again.
    fn replays(&mut self, w: &mut World) {
        let cur = w.epoch();
        let act = w.active();
        let olds: Vec<(usize, &'static str, MlsMessage, u64)> = self
            .pool
            .iter()
            .filter(|p| p.epoch < cur && (p.kind == "commit" || p.kind == "proposal" || p.kind == "external_commit"))
            .rev()
            .take(6)
            .map(|p| (p.from, p.kind, p.msg.clone(), p.epoch))
            .collect();
        for (_, kind, m, _) in olds {
            let Ok(b) = m.to_bytes() else { continue };
            for &to in act.iter().take(3) {
                self.trial_opt(w, to, kind, "replay_into_later_epoch", None, &b);
            }
        }
        // consumed application messages of this epoch
        let apps: Vec<SentApp> = w.apps.clone();
        for a in apps {
            let Ok(b) = a.msg.to_bytes() else { continue };
            for &to in act.iter().filter(|i| **i != a.sender).take(3) {
                // in C04 mode there is no "genuine next message" for a replay
                let base = w.g(to).clone();
                let mut g = base.clone();
                match try_deliver(&mut g, &b) {
                    Outcome::Accepted => {
                        self.note(w, "application", "replay_consumed", "accepted");
                        if !self.c04 {
                            w.violate("C03|accepted|application|replay_consumed", format!("member {to} accepted an application message twice"));
                        }
                    }
                    Outcome::Panic(p) => w.violate(format!("{}|panic|application|replay|{}", self.prop, loc(&p)), p),
                    Outcome::Rejected(k) => {
                        self.note(w, "application", "replay_consumed", &k);
                        if self.c04 {
                            let k = k.split('/').next().unwrap_or("").to_string();
                            self.unchanged_and_follow_up(w, to, "application", "replay_consumed", &k, &base, g, None);
                        }
                    }
                    Outcome::DecodeReject => {}
                }
            }
        }
    }

    /// A signed GroupInfo (with the tree extension) of epoch N delivered to a member that has moved
    /// to N+1 through a commit that left the tree untouched (no path): only the group context and
    /// the confirmation tag tell the two epochs apart.
    fn stale_group_info(&mut self, w: &mut World) {
        let act = w.active();
        if w.cfg.path_required || act.len() < 2 {
            return;
        }
        let (c, r) = (act[0], act[1]);
        let Ok(Ok(gi)) = guarded(|| w.g(c).group_info_message_allowing_ext_commit(true)) else { return };
        let Ok(gib) = gi.to_bytes() else { return };
        let mut cg = w.g(c).clone();
        cg.clear_pending_commit();
        cg.clear_proposal_cache();
        let cp = w.custom_proposal(false);
        let Ok(Ok(out)) = guarded(|| cg.commit_builder().custom_proposal(cp).build()) else { return };
        if out.contains_update_path {
            return;
        }
        let mut rg = w.g(r).clone();
        rg.clear_proposal_cache();
        let cm = out.commit_message.clone();
        if !matches!(guarded(|| rg.process_incoming_message(cm)), Ok(Ok(_))) {
            return;
        }
        // sanity: the genuine GroupInfo of the old epoch was acceptable in the old epoch
        let mut before = w.g(r).clone();
        let g0 = gi.clone();
        if !matches!(guarded(|| before.process_incoming_message(g0)), Ok(Ok(_))) {
            return;
        }
        self.note(w, "group_info", "of_previous_epoch_tree_unchanged", "tried");
        match try_deliver(&mut rg, &gib) {
            Outcome::Accepted => {
                if !self.c04 {
                    w.violate(
                        "C03|accepted|group_info|of_previous_epoch_tree_unchanged",
                        format!("member {r} at epoch {} accepted the GroupInfo of member {c} for the previous epoch (the commit in between had no path, the tree is the same)", rg.current_epoch()),
                    );
                }
            }
            Outcome::Panic(p) => w.violate(format!("{}|panic|group_info|stale|{}", self.prop, loc(&p)), p),
            _ => w.out.cov.bump("stale_group_info_refused"),
        }
    }

    /// Genuine messages of a sibling group delivered into this group (see `sibling_messages`).
    fn cross_group(&mut self, w: &mut World) {
        let act = w.active();
        let signer = self.ext_signer.clone();
        let msgs = sibling_messages(w, &mut self.rng, &signer);
        for (class, b) in msgs {
            for &to in act.iter().take(2) {
                self.trial_opt(w, to, "cross_group", class, None, &b);
            }
        }
    }

    /// Insider structural mutations: authentic commits that are structurally invalid.
    fn insider(&mut self, w: &mut World) {
        let act = w.active();
        if act.len() < 3 {
            return;
        }
        let c = act[self.rng.below(act.len())];
        let leaf_c = w.leaf_of(c);
        // key material for "foreign key" mutations: another member's leaf HPKE key and a fresh one
        let other = *act.iter().find(|i| **i != c).unwrap();
        let other_leaf_key = vh::direct_path_public(w.g(other), w.leaf_of(other))
            .first()
            .and_then(|x| x.1.clone())
            .unwrap_or_default();
        let cs = w.suite_of(w.parties[c].prov);
        let fresh_key = cs.kem_generate().map(|k| k.1.as_ref().to_vec()).unwrap_or_default();
        let other_sig_key = w.parties[other].sk.as_ref().to_vec();
        let path_len = vh::direct_path_public(w.g(c), leaf_c).iter().skip(1).filter(|x| x.1.is_some()).count();
        let prev_tag = self.prev_conf_tag.clone().unwrap_or_else(|| vec![0u8; 32]);
        let bad_remove = {
            // a Remove of a blank / out-of-range leaf, by value, appended after sender-side filtering
            mls_rs::group::proposal::RemoveProposal::removing(9_999)
                .ok()
                .and_then(|r| vh::encode_proposal_by_value(&mls_rs::group::proposal::Proposal::Remove(r)).ok())
        };
        let mut plans: Vec<(&'static str, Vec<Mutation>)> = vec![
            ("path_too_short_inconsistent", vec![Mutation::PopPathNodes(1)]),
            ("path_too_short_consistent_hashes", vec![Mutation::RestoreOldPathNodeFromTop(0), Mutation::PopPathNodes(1)]),
            ("path_too_long", vec![Mutation::DuplicateLastPathNode]),
            ("path_node_foreign_key_inconsistent", vec![Mutation::ReplaceUpdatePathKey { pos: 0, key: fresh_key.clone() }]),
            ("path_node_other_members_key", vec![Mutation::ReplaceUpdatePathKey { pos: 0, key: other_leaf_key.clone() }]),
            ("leaf_keeps_old_hpke_key", vec![Mutation::LeafKeepOldHpkeKey]),
            ("leaf_source_update", vec![Mutation::LeafSourceUpdate]),
            ("leaf_wrong_parent_hash", vec![Mutation::LeafCorruptParentHash]),
            ("leaf_parent_hash_empty", vec![Mutation::LeafEditParentHash { keep: 0, append: vec![] }]),
            ("leaf_parent_hash_prefix", vec![Mutation::LeafEditParentHash { keep: 31, append: vec![] }]),
            ("leaf_parent_hash_one_byte", vec![Mutation::LeafEditParentHash { keep: 1, append: vec![] }]),
            ("leaf_parent_hash_extended", vec![Mutation::LeafEditParentHash { keep: 1000, append: vec![0] }]),
            ("leaf_signed_by_other_member", vec![Mutation::LeafSignWith(other_sig_key)]),
            ("leaf_foreign_hpke_key", vec![Mutation::LeafReplaceHpkeKey(other_leaf_key.clone())]),
            ("stale_confirmation_tag", vec![Mutation::ReplaceConfirmationTag(prev_tag)]),
            ("missing_required_path", vec![Mutation::DropUpdatePath]),
        ];
        if path_len >= 2 {
            plans.push(("path_too_short_by_two", vec![Mutation::PopPathNodes(2)]));
            plans.push(("root_foreign_key_consistent_hashes", vec![Mutation::ReplacePathNodeKey { pos: 0, key: fresh_key.clone() }]));
            plans.push(("root_key_swapped_with_lower_node", vec![Mutation::SwapPathNodeKeys(0, 1)]));
        }
        if let Some(b) = bad_remove {
            plans.push(("appended_invalid_remove", vec![Mutation::AppendProposals(vec![b])]));
        }
        // a foreign key in a path node below the root, hashes consistent: only the members under
        // that node derive its key and can notice (the others are not judged)
        if path_len >= 2 {
            plans.push(("path_node_1_from_top_foreign_key_consistent_hashes", vec![Mutation::ReplacePathNodeKey { pos: 1, key: fresh_key.clone() }]));
        }
        if path_len >= 3 {
            plans.push(("path_node_2_from_top_foreign_key_consistent_hashes", vec![Mutation::ReplacePathNodeKey { pos: 2, key: fresh_key.clone() }]));
            plans.push(("path_node_lowest_foreign_key_consistent_hashes", vec![Mutation::ReplacePathNodeKey { pos: path_len - 1, key: fresh_key.clone() }]));
        }
        for (name, muts) in plans {
            let mut cg = w.g(c).clone();
            if cg.has_pending_commit() {
                cg.clear_pending_commit();
            }
            vh::set_mutations(muts);
            let r = guarded(|| cg.commit(vec![]));
            let applied = vh::clear_mutations();
            let out: CommitOutput = match r {
                Ok(Ok(o)) => o,
                Ok(Err(_)) => {
                    w.out.cov.bump(&format!("insider_refused_by_own_library:{name}"));
                    continue;
                }
                Err(p) => {
                    w.out.cov.bump(&format!("insider_build_panic:{name}"));
                    w.log(json!({"insider_build_panic": name, "p": p}));
                    continue;
                }
            };
            if applied.is_empty() {
                w.out.cov.bump(&format!("insider_not_applicable:{name}"));
                continue;
            }
            w.out.cov.bump(&format!("insider_built:{name}"));
            let Ok(bytes) = out.commit_message.to_bytes() else { continue };
            // for a key below the root: which leaves are under the forged node
            let visible_to: Option<(u32, u32)> = if name.starts_with("path_node_") && name.contains("_from_top_") || name.starts_with("path_node_lowest") {
                let mut fg = cg.clone();
                if !matches!(guarded(|| fg.apply_pending_alt()), Ok(Ok(_))) {
                    continue;
                }
                let forged = vh::direct_path_public(&fg, fg.current_member_index())
                    .into_iter()
                    .skip(1)
                    .find(|(_, k)| k.as_deref() == Some(fresh_key.as_slice()));
                match forged {
                    Some((node, _)) => Some(vh::tree_math::subtree(node)),
                    None => {
                        w.out.cov.bump(&format!("insider_not_applicable:{name}"));
                        continue;
                    }
                }
            } else {
                None
            };
            for &to in act.iter().filter(|i| **i != c) {
                if let Some((lo, hi)) = visible_to {
                    let l = w.leaf_of(to);
                    if l < lo || l >= hi {
                        w.out.cov.bump("insider_receiver_cannot_see_forged_node");
                        continue;
                    }
                    w.out.cov.bump("insider_receiver_under_forged_node");
                }
                // top-node foreign key with consistent hashes can only be checked by members that
                // derive that node's key, i.e. everybody (the root is on every path)
                let class = name;
                let base = w.g(to).clone();
                let mut g = base.clone();
                // the receiver needs no proposals: the forged commit is built on the empty cache
                let mut gclean = g.clone();
                gclean.clear_proposal_cache();
                let oc = try_deliver(&mut gclean, &bytes);
                let lvl = vh::tree_math::leaf_lca_level(w.leaf_of(to), leaf_c);
                w.out.cov.bump(&format!("insider_lca_level:{lvl}"));
                match oc {
                    Outcome::Accepted => {
                        self.note(w, "commit", class, "accepted");
                        if !self.c04 {
                            w.violate(
                                format!("C03|accepted|insider_commit|{class}"),
                                format!("member {to} (lca level {lvl} with committer {c}) accepted an authentic but invalid commit: {class}"),
                            );
                        }
                    }
                    Outcome::Panic(p) => {
                        self.note(w, "commit", class, "panic");
                        w.violate(
                            format!("{}|panic|insider_commit|{class}|{}", self.prop, loc(&p)),
                            format!("member {to} (lca level {lvl} with committer {c}) panicked: {p}"),
                        );
                    }
                    Outcome::Rejected(k) => {
                        self.note(w, "commit", class, &k);
                        w.out.cov.bump(&format!("insider_rejected_with:{class}:{}", k.split('/').next().unwrap_or("")));
                        if self.c04 {
                            // compare against the state with the cleared cache
                            let mut b2 = base.clone();
                            b2.clear_proposal_cache();
                            let k = k.split('/').next().unwrap_or("").to_string();
                            self.unchanged_and_follow_up(w, to, "insider_commit", class, &k, &b2, gclean, None);
                        }
                    }
                    Outcome::DecodeReject => self.note(w, "commit", class, "decode_reject"),
                }
                let _ = &mut g;
            }
        }
    }

    /// Joiner-side sweeps on Welcome (+ tree) for the party the welcome is addressed to.
    fn attack_welcome(&mut self, w: &mut World, out: &CommitOutput) {
        for wm in &out.welcome_messages {
            let Ok(bytes) = wm.to_bytes() else { continue };
            let Some(layout) = welcome_layout(&bytes) else { continue };
            let cands: Vec<usize> = w
                .parties
                .iter()
                .filter(|p| p.status == Status::Outside && !p.key_packages.is_empty())
                .map(|p| p.id)
                .collect();
            for pid in cands {
                if !w.addressed_by(pid, std::slice::from_ref(wm)) {
                    continue;
                }
                // the genuine welcome must work (otherwise nothing to compare with)
                let tree = out.ratchet_tree.clone();
                let ok = {
                    let c = &w.parties[pid].client;
                    let t = tree.clone();
                    guarded(|| c.join_group(t, wm, None)).map(|r| r.is_ok()) == Ok(true)
                };
                if !ok {
                    w.out.cov.bump("welcome_genuine_not_joinable");
                    continue;
                }
                // relevant ranges: header, the joiner's own entries, encrypted group info
                let cs = w.suite_of(w.parties[pid].prov);
                let mut mine: Vec<Vec<u8>> = vec![];
                for kp in &w.parties[pid].key_packages {
                    if let Ok(Some(r)) = kp.key_package_reference(&cs) {
                        mine.push(r.to_vec());
                    }
                }
                let mut ranges = vec![4..6usize, layout.group_info.clone()];
                for (r, e) in layout.refs.iter().zip(layout.entries.iter()) {
                    if mine.iter().any(|m| m == r) {
                        ranges.push(e.clone());
                    }
                }
                let n = self.sweeps.entry("welcome".into()).or_insert(0);
                let sweep = *n < self.max_sweeps;
                if sweep {
                    *n += 1;
                    w.out.cov.bump("sweep:welcome");
                }
                let muts = self.byte_mutations(&bytes, sweep, Some(&ranges));
                for (class, b) in muts {
                    if class == "truncate" && b.len() >= layout.group_info.end {
                        continue;
                    }
                    let r = {
                        let c = &w.parties[pid].client;
                        let t = tree.clone();
                        guarded(|| match MlsMessage::from_bytes(&b) {
                            Ok(m) => c.join_group(t, &m, None).map(|_| ()),
                            Err(e) => Err(e),
                        })
                    };
                    self.judge_joiner(w, "welcome", class, r, &b);
                }
                // tampered out-of-band tree
                if let Some(t) = &tree {
                    if let Ok(tb) = t.to_bytes() {
                        let n = self.sweeps.entry("tree".into()).or_insert(0);
                        let sweep = *n < self.max_sweeps;
                        if sweep {
                            *n += 1;
                            w.out.cov.bump("sweep:tree");
                        }
                        for (class, b) in self.byte_mutations(&tb, sweep, None) {
                            let r = {
                                let c = &w.parties[pid].client;
                                guarded(|| match ExportedTree::from_bytes(&b) {
                                    Ok(t) => c.join_group(Some(t), wm, None).map(|_| ()),
                                    Err(e) => Err(e),
                                })
                            };
                            self.judge_joiner(w, "tree_for_welcome", class, r, &b);
                        }
                    }
                }
                // a Welcome addressed to somebody else
                for other in w.parties.iter().filter(|p| p.id != pid && p.status == Status::Outside).map(|p| p.id).take(2).collect::<Vec<_>>() {
                    if w.addressed_by(other, std::slice::from_ref(wm)) {
                        continue;
                    }
                    let r = {
                        let c = &w.parties[other].client;
                        let t = tree.clone();
                        guarded(|| c.join_group(t, wm, None).map(|_| ()))
                    };
                    self.judge_joiner(w, "welcome", "addressed_to_someone_else", r, &[]);
                }
            }
        }
    }

    fn judge_joiner(&mut self, w: &mut World, kind: &str, class: &str, r: Result<Result<(), mls_rs::error::MlsError>, String>, b: &[u8]) {
        match r {
            Ok(Ok(())) => {
                self.note(w, kind, class, "accepted");
                if !self.c04 {
                    w.violate(
                        format!("C03|accepted|{kind}|{class}"),
                        format!("a joiner obtained a group from a {class} {kind}: {}", hx(&b[..b.len().min(600)])),
                    );
                }
            }
            Ok(Err(e)) => {
                let k = err_kind(&e);
                self.note(w, kind, class, &k);
            }
            Err(p) => {
                self.note(w, kind, class, "panic");
                w.violate(format!("{}|panic|{kind}|{class}|{}", self.prop, loc(&p)), format!("{p}; input={}", hx(&b[..b.len().min(600)])));
            }
        }
    }

    /// GroupInfo (+ tree) fed to members, observers and external joiners.
    fn attack_group_info(&mut self, w: &mut World, from: usize, gi: &MlsMessage) {
        let Ok(bytes) = gi.to_bytes() else { return };
        let tree = w.g(from).export_tree().into_owned();
        // ratchet_tree extension (type 2) present in the GroupInfo?
        let has_tree_ext = gi
            .as_group_info()
            .map(|g| g.extensions().has_extension(mls_rs_core::extension::ExtensionType::new(2)))
            .unwrap_or(false);
        let n = self.sweeps.entry("group_info".into()).or_insert(0);
        let sweep = *n < self.max_sweeps;
        if sweep {
            *n += 1;
            w.out.cov.bump("sweep:group_info");
        }
        let prov = w.parties[from].prov;
        let ident = w.parties[from].ident.clone();
        let act = w.active();
        {
            // the genuine GroupInfo must be valid now, otherwise rejections prove nothing
            let mut g = w.g(act[0]).clone();
            let m = gi.clone();
            if guarded(|| g.process_incoming_message(m)).map(|r| r.is_ok()) != Ok(true) {
                w.out.cov.bump("group_info_not_current_skipped");
                return;
            }
            let t = (!has_tree_ext).then(|| tree.clone());
            let m = gi.clone();
            let ok = guarded(|| {
                ExternalClientBuilder::new()
                    .crypto_provider(AnyCrypto::new(prov))
                    .identity_provider(ident.clone())
                    .build()
                    .observe_group(m, t, None)
                    .map(|_| ())
            });
            if !matches!(ok, Ok(Ok(()))) {
                w.violate("C03|genuine_group_info_refused_by_observer", format!("{ok:?}"));
                return;
            }
            w.out.cov.bump("group_info_genuine_ok");
        }
        let muts = self.byte_mutations(&bytes, sweep, None);
        for (i, (class, b)) in muts.iter().enumerate() {
            // (1) a member validating it
            let to = act[i % act.len()];
            self.trial(w, to, "group_info", class, gi, b);
            // (2) an observer and (3) an external joiner starting from it
            let t = (!has_tree_ext).then(|| tree.clone());
            let r = guarded(|| {
                let m = MlsMessage::from_bytes(b)?;
                let ext = ExternalClientBuilder::new()
                    .crypto_provider(AnyCrypto::new(prov))
                    .identity_provider(ident.clone())
                    .build();
                ext.observe_group(m, t, None).map(|_| ())
            });
            self.judge_joiner(w, "group_info_for_observer", class, r, b);
            if i % 4 == 0 {
                if let Some(j) = w.outside().first().copied() {
                    let t = (!has_tree_ext).then(|| tree.clone());
                    let r = {
                        let c = &w.parties[j].client;
                        guarded(|| {
                            let m = MlsMessage::from_bytes(b)?;
                            let mut bld = c.external_commit_builder()?;
                            if let Some(t) = t {
                                bld = bld.with_tree_data(t);
                            }
                            bld.build(m).map(|_| ())
                        })
                    };
                    self.judge_joiner(w, "group_info_for_external_commit", class, r, b);
                }
            }
        }
    }

    /// Key packages: tampered copies validated by a member and added by value.
    fn attack_key_packages(&mut self, w: &mut World) {
        let act = w.active();
        let Some(&m) = act.first() else { return };
        let kps: Vec<MlsMessage> = w
            .parties
            .iter()
            .filter(|p| p.status == Status::Outside)
            .flat_map(|p| p.key_packages.iter().cloned())
            .take(2)
            .collect();
        for kp in kps {
            let Ok(bytes) = kp.to_bytes() else { continue };
            let n = self.sweeps.entry("key_package".into()).or_insert(0);
            let sweep = *n < self.max_sweeps;
            if sweep {
                *n += 1;
                w.out.cov.bump("sweep:key_package");
            }
            for (i, (class, b)) in self.byte_mutations(&bytes, sweep, None).into_iter().enumerate() {
                self.trial(w, m, "key_package", class, &kp, &b);
                let inner_changed = b.len() >= 4 && bytes.len() >= 4 && b[..4] == bytes[..4];
                if i % 3 == 0 && inner_changed {
                    // by-value add of the tampered package: the builder must refuse, unchanged
                    // (the outer MLSMessage header of a key package is not part of what is added)
                    let base = w.g(m).clone();
                    let mut g = base.clone();
                    if g.has_pending_commit() {
                        continue;
                    }
                    let r = guarded(|| {
                        let k = MlsMessage::from_bytes(&b)?;
                        g.commit_builder().add_member(k)?.build().map(|_| ())
                    });
                    match r {
                        Ok(Ok(())) => {
                            self.note(w, "key_package_by_value", class, "accepted");
                            if !self.c04 {
                                w.violate(format!("C03|accepted|key_package_by_value|{class}"), format!("commit built with a {class} key package {}", hx(&b)));
                            }
                        }
                        Ok(Err(e)) => {
                            let k = err_kind(&e);
                            self.note(w, "key_package_by_value", class, &k);
                            if self.c04 {
                                let k = k.split('/').next().unwrap_or("").to_string();
                                self.unchanged_and_follow_up(w, m, "failed_commit_build", class, &k, &base, g, None);
                            }
                        }
                        Err(p) => w.violate(format!("{}|panic|key_package_by_value|{}", self.prop, loc(&p)), p),
                    }
                }
            }
        }
    }
}

/// Re-encrypt the sender data of a private message for another leaf (insider knowledge of the
/// epoch's sender-data secret), keeping the ciphertext.
fn reattribute_private(w: &World, from: usize, p: &vh::PrivateParts, new_leaf: u32) -> Option<Vec<u8>> {
    let ev = vh::epoch_view(w.g(from)).ok()?;
    let cs = w.suite_of(w.parties[from].prov);
    let nh = cs.kdf_extract_size();
    let sample = &p.ciphertext[..p.ciphertext.len().min(nh)];
    let key = vh::kdf::expand_with_label(&cs, &ev.sender_data, b"key", sample, Some(cs.aead_key_size())).ok()?;
    let nonce = vh::kdf::expand_with_label(&cs, &ev.sender_data, b"nonce", sample, Some(cs.aead_nonce_size())).ok()?;
    let mut aad = vec![];
    put_opaque(&mut aad, &p.group_id);
    aad.extend_from_slice(&p.epoch.to_be_bytes());
    aad.push(p.content_type);
    let sd = cs.aead_open(&key, &p.encrypted_sender_data, Some(&aad), &nonce).ok()?;
    if sd.len() != 12 {
        return None;
    }
    let mut sd2 = sd.to_vec();
    sd2[..4].copy_from_slice(&new_leaf.to_be_bytes());
    let enc = cs.aead_seal(&key, &sd2, Some(&aad), &nonce).ok()?;
    let q = vh::PrivateParts {
        version: p.version,
        group_id: p.group_id.clone(),
        epoch: p.epoch,
        content_type: p.content_type,
        authenticated_data: p.authenticated_data.clone(),
        encrypted_sender_data: enc,
        ciphertext: p.ciphertext.clone(),
    };
    Some(join_private(&q))
}

impl Hooks for Tamper {
    fn init(&mut self, w: &mut World) {
        if self.rng.chance(1, 2) {
            let cs = w.suite_of(w.cfg.provs[0]);
            if let Ok((sk, pk)) = cs.signature_key_generate() {
                let si = mls_rs::identity::SigningIdentity::new(
                    mls_rs::identity::basic::BasicCredential::new(b"external-sender".to_vec()).into_credential(),
                    pk,
                );
                w.keep_exts.push(super::c16::external_senders_ext(&si));
                self.ext_signer = Some((sk, si));
            }
        }
    }

    fn on_message(&mut self, w: &mut World, kind: &'static str, from: usize, msg: &MlsMessage) {
        let epoch = msg.epoch().unwrap_or_else(|| w.epoch());
        let private = vh::split_private(msg).is_some();
        match kind {
            "application" | "proposal" => {
                let receivers: Vec<usize> = w.active().into_iter().filter(|i| *i != from).collect();
                // ground truth of genuine delivery: sender, payload, authenticated data
                if kind == "proposal" {
                    if let Some(&to) = receivers.first() {
                        let mut g = w.g(to).clone();
                        let m = msg.clone();
                        if let Ok(Ok(ReceivedMessage::Proposal(d))) = guarded(|| g.process_incoming_message(m)) {
                            w.out.cov.bump("ground_truth_checked:proposal");
                            let exp = mls_rs::group::ProposalSender::Member(w.leaf_of(from));
                            if d.sender != exp || d.authenticated_data != w.last_aad {
                                w.violate(
                                    "C03|wrong_description|proposal",
                                    format!("proposal of member {from} reported with sender {:?} aad_ok={}", d.sender, d.authenticated_data == w.last_aad),
                                );
                            }
                        }
                    }
                }
                self.attack_message(w, kind, from, msg, &receivers);
            }
            "group_info" => {
                if msg.epoch().is_none() && w.g(from).has_pending_commit() {
                    self.stashed_gi = Some((from, msg.clone()));
                } else {
                    self.attack_group_info(w, from, msg);
                }
            }
            _ => {}
        }
        self.pool.push(Pooled {
            kind,
            epoch,
            from,
            msg: msg.clone(),
            private,
        });
        if self.pool.len() > 60 {
            self.pool.remove(0);
        }
    }

    fn after_build(&mut self, w: &mut World, _who: usize, out: &CommitOutput) {
        if !out.welcome_messages.is_empty() {
            self.attack_welcome(w, out);
        }
    }

    fn before_commit(&mut self, w: &mut World) {
        self.replays(w);
        self.attack_key_packages(w);
        if self.rng.chance(1, 2) {
            self.cross_group(w);
        }
        self.stale_group_info(w);
    }

    fn before_receive(&mut self, w: &mut World, to: usize, msg: &MlsMessage) {
        // ground truth for the genuine commit
        if let Some((committer, aad)) = w.cur_commit.clone() {
            let mut g = w.g(to).clone();
            let m = msg.clone();
            if let Ok(Ok(ReceivedMessage::Commit(d))) = guarded(|| g.process_incoming_message(m)) {
                w.out.cov.bump("ground_truth_checked:commit");
                let exp_leaf = if committer < w.parties.len() && w.parties[committer].group.is_some() && w.parties[committer].status == Status::Active {
                    Some(w.leaf_of(committer))
                } else {
                    None
                };
                if d.authenticated_data != aad && vh::split_public(msg).map(|p| p.sender.first() == Some(&1)).unwrap_or(true) {
                    w.violate("C03|wrong_description|commit_aad", format!("commit of {committer}: authenticated data differs from what was sent"));
                }
                if let Some(l) = exp_leaf {
                    if d.committer != l && !d.is_external {
                        w.violate("C03|wrong_description|commit_sender", format!("commit of leaf {l} reported as from {}", d.committer));
                    }
                }
            }
        }
        let n = w.out.cov.get("commit_receivers_attacked_this_round");
        let _ = n;
        self.attack_message(w, "commit", w.cur_commit.as_ref().map(|c| c.0).unwrap_or(0), msg, &[to]);
    }

    fn after_commit(&mut self, w: &mut World, info: &RoundInfo) {
        if let Some(p) = vh::split_public(&info.commit_msg) {
            if let Some(t) = p.confirmation_tag {
                self.prev_conf_tag = Some(t);
            }
        } else if let Some(&i) = w.active().first() {
            if let Ok(ev) = vh::epoch_view(w.g(i)) {
                self.prev_conf_tag = Some(ev.confirmation_tag);
            }
        }
        if let Some((from, gi)) = self.stashed_gi.take() {
            if from == info.committer && w.parties[from].status == Status::Active {
                self.attack_group_info(w, from, &gi);
            }
        }
        self.insider(w);
        let _ = ExternalPskId::new(vec![]);
    }

    fn allow_reload(&self) -> bool {
        true
    }
}

pub fn run(a: &Args, c04: bool) -> ShardOut {
    let prop: &'static str = if c04 { "C04" } else { "C03" };
    let mut total = ShardOut::default();
    let (histories, rounds) = if a.thorough { (24, 14) } else { (3, 8) };
    for h in 0..histories {
        if let Some(only) = super::only_history() {
            if only != h {
                continue;
            }
        }
        let mut rng = Rng::derive(a.seed, prop, a.shard * 10_000 + h);
        let mut cfg = WorldCfg::draw(&mut rng, a.thorough);
        cfg.max_members = cfg.max_members.min(if a.thorough { 12 } else { 8 });
        // make sure both wire formats are exercised across shards
        cfg.encrypt_controls = (a.shard + h) % 2 == 0;
        let mut w = World::new(cfg.clone(), rng.clone(), prop);
        let mut hooks = Tamper::new(c04, a.thorough, Rng::derive(a.seed, "tamper-mut", a.shard * 10_000 + h));
        let n0 = w.rng.range(3, cfg.max_members.min(7));
        let dc = DriveCfg {
            p_race: (1, 6),
            ..DriveCfg::default()
        };
        hooks.init(&mut w);
        let mut res = w.bootstrap(n0, &mut NoHooks);
        if res.is_ok() {
            for _ in 0..rounds {
                match w.round(&dc, &mut hooks) {
                    Ok(_) => {}
                    Err(e) => {
                        res = Err(e);
                        break;
                    }
                }
            }
        }
        if res.is_ok() && c04 {
            super::c04::honest_failures(&mut w, &mut hooks);
        }
        if let Err(e) = res {
            if e.contains("PANIC") && panic_in_repo(&e) {
                w.violate(format!("{prop}|panic|honest_flow|{}", loc(&e)), e.clone());
            } else {
                w.out.inconclusive.push(format!("history {h}: {e}"));
            }
        }
        w.out.cov.bump("histories");
        w.out.cov.sample(json!({"cfg": cfg.to_json(), "first_ops": w.script.iter().take(12).cloned().collect::<Vec<_>>()}));
        total.cov.merge(&w.out.cov);
        total.violations.extend(w.out.violations.drain(..));
        total.inconclusive.extend(w.out.inconclusive.drain(..));
    }
    total
}
