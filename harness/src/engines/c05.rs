//! C05 — message keys are single-use: no (key, nonce) reuse, no replay, reordering tolerated
//! within the 1024-generation window, application and handshake keys never shared.
//!
//! Online: a ledger per (receiver, sender, key type) models the receiver's ratchet (next
//! generation, consumed generations); every delivery (permuted, duplicated, across reloads,
//! with gaps of 1022..1026 generations) is compared with the model. Offline (c05_post.py):
//! every recorded `aead_seal` of the history, (key, nonce) uniqueness and key-type separation.

use std::collections::{BTreeMap, BTreeSet};

use mls_rs::group::proposal::CustomProposal;
use mls_rs::group::ReceivedMessage;
use mls_rs::MlsMessage;
use mls_rs_core::group::ProposalType;
use serde_json::{json, Value};

use super::Args;
use crate::driver::*;
use crate::util::*;
use crate::world::*;

const WINDOW: u64 = 1024;

#[derive(Clone)]
struct Sent {
    msg: MlsMessage,
    sender: usize,
    leaf: u32,
    handshake: bool,
    generation: u64,
    plaintext: Vec<u8>,
}

#[derive(Default, Clone)]
struct Ratchet {
    next: u64,
    consumed: BTreeSet<u64>,
}

fn ek(e: &str) -> String {
    e.split('(').next().unwrap_or(e).chars().take(50).collect()
}

pub fn run(a: &Args) -> ShardOut {
    let mut total = ShardOut::default();
    let (histories, epochs) = if a.thorough { (60, 6) } else { (10, 4) };
    let mut seal_log: Vec<Value> = vec![];
    for h in 0..histories {
        if let Some(only) = super::only_history() {
            if only != h {
                continue;
            }
        }
        let mut rng = Rng::derive(a.seed, "C05", a.shard * 10_000 + h);
        let mut cfg = WorldCfg::draw(&mut rng, a.thorough);
        cfg.max_members = cfg.max_members.clamp(3, 6);
        cfg.encrypt_controls = (a.shard + h) % 2 == 0;
        cfg.record = true;
        let mut w = World::new(cfg.clone(), rng, "C05");
        w.rec.enable(&["aead_seal"]);
        if let Err(e) = history(&mut w, epochs, a.thorough) {
            if e.contains("PANIC") && panic_in_repo(&e) {
                w.violate(format!("C05|panic|{}", e.chars().take(90).collect::<String>()), e);
            } else {
                w.out.inconclusive.push(format!("history {h}: {e}"));
            }
        }
        // the history's seal events for the offline checker (hex, compact)
        let evs = w.rec.take();
        let seals: Vec<Value> = evs
            .iter()
            .map(|e| json!([hx(&e.a), hx(&e.b), hx(&e.c), e.who]))
            .collect();
        seal_log.push(json!({"history": h, "shard": a.shard, "suite": cfg.suite, "seals": seals}));
        w.out.cov.bump("histories");
        w.out.cov.sample(json!({"cfg": cfg.to_json(), "first_ops": w.script.iter().take(16).cloned().collect::<Vec<_>>()}));
        total.cov.merge(&w.out.cov);
        total.violations.extend(w.out.violations.drain(..));
        total.inconclusive.extend(w.out.inconclusive.drain(..));
    }
    total.extra.insert("c05_seals".into(), Value::Array(seal_log));
    total
}

struct Ledger {
    /// (receiver, sender, handshake) -> ratchet model, for the current epoch
    r: BTreeMap<(usize, usize, bool), Ratchet>,
}

impl Ledger {
    fn expect(&mut self, to: usize, m: &Sent) -> (bool, &'static str) {
        let r = self.r.entry((to, m.sender, m.handshake)).or_default();
        if r.consumed.contains(&m.generation) {
            return (false, "replay_or_reused_generation");
        }
        if m.generation > r.next + WINDOW {
            return (false, "beyond_window");
        }
        r.consumed.insert(m.generation);
        if m.generation >= r.next {
            r.next = m.generation + 1;
        }
        (true, "fresh")
    }
}

fn deliver_checked(w: &mut World, led: &mut Ledger, to: usize, m: &Sent, ctx: &'static str) {
    let ahead = {
        let r = led.r.entry((to, m.sender, m.handshake)).or_default();
        m.generation as i64 - r.next as i64
    };
    let (ok, why) = led.expect(to, m);
    let gap_class = if ahead > 1000 { format!("{ahead}") } else if ahead > 0 { "ahead".into() } else if ahead < 0 { "behind".into() } else { "next".to_string() };
    w.out.cov.eval(Some(fnv(format!("{ctx}|{}|{why}|{gap_class}", m.handshake).as_bytes())));
    w.out.cov.bump(&format!("delivery:{why}"));
    if ahead > 1000 {
        w.out.cov.bump(&format!("gap:{ahead}"));
    }
    // a damaged copy arriving first must be refused and must not cost the receiver the key
    if ok && w.rng.chance(1, 8) {
        if let Ok(mut b) = m.msg.to_bytes() {
            let n = b.len();
            b[n - 1 - w.rng.below(8.min(n))] ^= 1 << w.rng.below(8);
            if let Ok(bad) = MlsMessage::from_bytes(&b) {
                w.out.cov.bump("damaged_copy_first");
                if let Ok(ev) = w.deliver(to, &bad) {
                    let _ = ev;
                    w.violate("C05|damaged_ciphertext_accepted", format!("member {to}, sender {}, generation {}", m.sender, m.generation));
                }
            }
        }
    }
    match w.deliver(to, &m.msg) {
        Ok(ev) => {
            let good = match (&ev, m.handshake) {
                (ReceivedMessage::ApplicationMessage(d), false) => d.data() == m.plaintext.as_slice() && d.sender_index == m.leaf,
                (ReceivedMessage::Proposal(_), true) => true,
                _ => false,
            };
            if !ok {
                w.violate(
                    format!("C05|accepted_twice_or_beyond_window|{why}|{}", if m.handshake { "handshake" } else { "application" }),
                    format!("member {to} accepted generation {} of sender {} ({ctx}, {ahead} ahead of its ratchet)", m.generation, m.sender),
                );
            } else if !good {
                w.violate("C05|decrypted_to_wrong_content", format!("member {to}, sender {}, generation {}", m.sender, m.generation));
            }
        }
        Err(e) => {
            if e.starts_with("PANIC") {
                w.violate(format!("C05|panic|delivery|{}", e.chars().take(80).collect::<String>()), e);
            } else if ok {
                w.violate(
                    format!("C05|message_within_window_not_decrypted|{}|{}", if m.handshake { "handshake" } else { "application" }, ek(&e)),
                    format!("member {to} refused generation {} of sender {} ({ctx}, {ahead} ahead of its ratchet, never delivered before): {e}", m.generation, m.sender),
                );
            } else {
                w.out.cov.bump(&format!("refused:{why}:{}", ek(&e)));
            }
        }
    }
}

/// A message that is held back in its own epoch and delivered in later ones.
struct Held {
    id: usize,
    epoch: u64,
    m: Sent,
}

/// Late deliveries of held-back messages of earlier epochs: newest epoch first, then older ones,
/// then everything again. Whether a late message is still readable is C19's business (retention);
/// here: what a receiver accepted once it never accepts again, and what it accepts is the
/// genuine content.
fn late_round(w: &mut World, held: &[Held], accepted: &mut BTreeSet<(usize, usize)>) {
    let cur = w.epoch();
    for to in w.active() {
        if w.rng.chance(1, 2) {
            let g = w.gm(to);
            let _ = guarded(|| g.write_to_storage());
        }
        let mut mine: Vec<&Held> = held.iter().filter(|h| h.m.sender != to && h.epoch < cur && w.parties[to].joined_epoch <= h.epoch).collect();
        mine.sort_by(|a, b| b.epoch.cmp(&a.epoch).then(a.id.cmp(&b.id)));
        let again: Vec<&Held> = mine.iter().rev().copied().collect();
        for h in mine.into_iter().chain(again) {
            let before = accepted.contains(&(to, h.id));
            w.out.cov.eval(Some(fnv(format!("late|{}|{before}", (cur - h.epoch).min(4)).as_bytes())));
            match w.deliver(to, &h.m.msg) {
                Ok(ReceivedMessage::ApplicationMessage(d)) => {
                    if before {
                        w.violate(
                            "C05|late_message_accepted_twice",
                            format!("member {to} at epoch {cur} accepted the application message {} of sender {} (epoch {}, generation {}) a second time", h.id, h.m.sender, h.epoch, h.m.generation),
                        );
                    } else if d.data() != h.m.plaintext.as_slice() || d.sender_index != h.m.leaf {
                        w.violate("C05|decrypted_to_wrong_content", format!("member {to}, late message {} of epoch {}", h.id, h.epoch));
                    }
                    accepted.insert((to, h.id));
                    w.out.cov.bump(if before { "late_replay_accepted" } else { "late_first_delivery_accepted" });
                }
                Ok(_) => {}
                Err(e) => {
                    if e.starts_with("PANIC") {
                        w.violate(format!("C05|panic|late_delivery|{}", e.chars().take(80).collect::<String>()), e);
                    } else {
                        w.out.cov.bump(if before { "late_replay_refused" } else { "late_first_delivery_refused" });
                    }
                }
            }
        }
    }
}

fn history(w: &mut World, epochs: u64, thorough: bool) -> Result<(), String> {
    let n0 = w.rng.range(3, w.cfg.max_members.min(5));
    w.bootstrap(n0, &mut NoHooks)?;
    let mut held: Vec<Held> = vec![];
    let mut held_seq = 0usize;
    let mut accepted_late: BTreeSet<(usize, usize)> = BTreeSet::new();
    for ep in 0..epochs {
        if !held.is_empty() {
            late_round(w, &held, &mut accepted_late);
        }
        let act = w.active();
        if act.len() < 2 {
            break;
        }
        for i in w.active() {
            w.gm(i).clear_proposal_cache();
        }
        let mut led = Ledger { r: BTreeMap::new() };
        let mut gens: BTreeMap<(usize, bool), u64> = BTreeMap::new();
        let mut sent: Vec<Sent> = vec![];
        let send_app = |w: &mut World, gens: &mut BTreeMap<(usize, bool), u64>, s: usize| -> Result<Option<Sent>, String> {
            let m = w.send_app(s, &mut NoHooks)?;
            Ok(m.map(|m| {
                let g = gens.entry((s, false)).or_insert(0);
                let out = Sent {
                    msg: m.msg,
                    sender: s,
                    leaf: m.sender_leaf,
                    handshake: false,
                    generation: *g,
                    plaintext: m.plaintext,
                };
                *g += 1;
                out
            }))
        };
        // (1) application streams of several senders
        let k = w.rng.range(1, act.len().min(4));
        let senders: Vec<usize> = act.iter().copied().take(k).collect();
        for &s in &senders {
            let m = w.rng.range(1, 6);
            for _ in 0..m {
                if let Some(x) = send_app(w, &mut gens, s)? {
                    sent.push(x);
                }
            }
        }
        // held back: sent now, delivered only in later epochs (and then more than once)
        {
            let epoch_now = w.epoch();
            for &s in senders.iter().take(2) {
                if let Some(x) = send_app(w, &mut gens, s)? {
                    held_seq += 1;
                    held.push(Held { id: held_seq, epoch: epoch_now, m: x });
                }
            }
            let n = held.len();
            if n > 12 {
                held.drain(..n - 12);
            }
        }
        // (2) a sender restored from a state saved before it sent: the same generations again
        if w.rng.chance(1, 2) {
            let s = senders[0];
            {
                let g = w.gm(s);
                let _ = guarded(|| g.write_to_storage());
            }
            let saved_gen = *gens.get(&(s, false)).unwrap_or(&0);
            for _ in 0..2 {
                if let Some(x) = send_app(w, &mut gens, s)? {
                    sent.push(x);
                }
            }
            // restart from the stale storage
            let gid = w.group_id.clone();
            let loaded = {
                let p = &w.parties[s];
                let rec = w.cfg.record.then(|| w.rec.clone());
                let (client, _) = make_client(&p.name, p.prov, p.id as u32, w.cfg.suite, p.sk.clone(), p.pk.clone(), &p.stores, &p.ident, p.rules.clone(), rec);
                guarded(|| client.load_group(&gid)).ok().and_then(|r| r.ok()).map(|g| (g, client))
            };
            if let Some((g, client)) = loaded {
                w.parties[s].group = Some(g);
                w.parties[s].client = client;
                gens.insert((s, false), saved_gen);
                w.out.cov.bump("stale_sender_restored");
                for _ in 0..2 {
                    if let Some(x) = send_app(w, &mut gens, s)? {
                        sent.push(x);
                    }
                }
            }
        }
        // (3) one big gap: 1022..1026 messages really encrypted, only the last and first delivered
        let mut gap_msgs: Vec<Sent> = vec![];
        if ep == 0 || (thorough && w.rng.chance(1, 2)) {
            let s = *act.last().unwrap();
            if !senders.contains(&s) {
                let total = w.rng.range(1022, 1031) as u64;
                for _ in 0..total {
                    if let Some(x) = send_app(w, &mut gens, s)? {
                        gap_msgs.push(x);
                    }
                }
                w.out.cov.bump("gap_stream_sent");
            }
        }
        // (4) encrypted handshake messages of the same senders (own ratchet)
        if w.cfg.encrypt_controls {
            for &s in &senders {
                let np = w.rng.range(1, 3);
                for _ in 0..np {
                    let cp = CustomProposal::new(ProposalType::new(CUSTOM_PROP), w.rng.bytes(4));
                    let leaf = w.leaf_of(s);
                    if let Ok(m) = w.propose(s, &PropKind::Custom(cp)) {
                        let g = gens.entry((s, true)).or_insert(0);
                        sent.push(Sent {
                            msg: m,
                            sender: s,
                            leaf,
                            handshake: true,
                            generation: *g,
                            plaintext: vec![],
                        });
                        *g += 1;
                    }
                }
            }
        }
        // deliveries: each receiver its own permutation with duplicates, reloads in the middle
        for to in w.active() {
            let mut mine: Vec<Sent> = sent.iter().filter(|m| m.sender != to).cloned().collect();
            // duplicates
            let nd = w.rng.below(4);
            for _ in 0..nd {
                if mine.is_empty() {
                    break;
                }
                let d = mine[w.rng.below(mine.len())].clone();
                mine.push(d);
            }
            w.rng.shuffle(&mut mine);
            let reload_at = if w.rng.chance(1, 2) && !mine.is_empty() { Some(w.rng.below(mine.len())) } else { None };
            for (i, m) in mine.iter().enumerate() {
                if Some(i) == reload_at {
                    w.write_and_reload(to)?;
                    w.out.cov.bump("receiver_reloaded_mid_stream");
                }
                deliver_checked(w, &mut led, to, m, "stream");
            }
            // the big gap: last message first (gap of total-1), then generation 0 (from history),
            // then a replay of the last one
            if let (Some(last), Some(first)) = (gap_msgs.last(), gap_msgs.first()) {
                if last.sender != to {
                    if w.rng.chance(1, 2) {
                        deliver_checked(w, &mut led, to, last, "gap_last");
                    } else {
                        // the largest jump the window allows, then everything after it in order:
                        // the skipped generations fall further and further behind
                        let j = (WINDOW as usize).min(gap_msgs.len() - 1);
                        deliver_checked(w, &mut led, to, &gap_msgs[j], "gap_jump_to_window_edge");
                        for m in &gap_msgs[j + 1..] {
                            deliver_checked(w, &mut led, to, m, "gap_after_jump_in_order");
                        }
                    }
                    deliver_checked(w, &mut led, to, first, "gap_first_after_jump");
                    deliver_checked(w, &mut led, to, &gap_msgs[1], "gap_second_after_jump");
                    if gap_msgs.len() > 3 {
                        deliver_checked(w, &mut led, to, &gap_msgs[gap_msgs.len() / 2], "gap_middle_after_jump");
                    }
                    deliver_checked(w, &mut led, to, last, "gap_last_replayed");
                }
            }
        }
        // next epoch
        let c = w.active()[0];
        if w.commit_round(
            vec![CommitPlan {
                committer: c,
                ..Default::default()
            }],
            &mut NoHooks,
        )?
        .is_none()
        {
            for i in w.active() {
                w.gm(i).clear_proposal_cache();
            }
            let _ = w.commit_round(
                vec![CommitPlan {
                    committer: c,
                    ..Default::default()
                }],
                &mut NoHooks,
            )?;
        }
        w.out.cov.bump("epochs");
    }
    Ok(())
}
