//! C10 — committer-side and receiver-side proposal validation agree.
//!
//! "Soups": at every epoch of random honest histories, on clones of all members, a random
//! multiset of by-reference proposals (valid ones and catalogue offenders, from members and from
//! outsiders proposing themselves) is exchanged, each receiver caching them in its own order and
//! one receiver possibly missing one; a committer then builds a commit with a random by-value
//! set (valid ones and offenders). Oracles:
//!   E3  a by-value set that is invalid on its own is never committed (build = Err, unchanged);
//!   E4  by-reference offenders never make the build fail and are never applied;
//!   R   the applied set, judged by an independent rule checker written from RFC 9420 §12.2,
//!       is valid (one change per leaf, committer neither updated nor removed, <= 1 GCE, ReInit
//!       alone, distinct key packages / identities / PSK ids, every by-value proposal applied,
//!       update path present when required);
//!   E1  every other member that saw the referenced proposals accepts the commit (a member
//!       missing a referenced proposal cannot);
//!   E2  members with the committer's cache report the committer's applied and unused sets;
//!   E5  an offender appended by an insider to an otherwise honest commit is rejected by every
//!       receiver, which stays unchanged.

use std::collections::{BTreeMap, BTreeSet};

use mls_rs::extension::built_in::RequiredCapabilitiesExt;
use mls_rs::group::proposal::{CustomProposal, Proposal, RemoveProposal};
use mls_rs::group::verif_hooks as vh;
use mls_rs::group::verif_hooks::Mutation;
use mls_rs::group::{CommitEffect, ReceivedMessage};
use mls_rs::mls_rs_codec::MlsEncode;
use mls_rs::mls_rules::ProposalInfo;
use mls_rs::psk::ExternalPskId;
use mls_rs::time::MlsTime;
use mls_rs::{CipherSuite, CipherSuiteProvider, ExtensionList, MlsMessage, ProtocolVersion};
use mls_rs_core::extension::ExtensionType;
use mls_rs_core::group::ProposalType;
use serde_json::json;

use super::tamper::residual_diff;
use super::Args;
use crate::driver::*;
use crate::util::*;
use crate::world::*;

fn ek(e: &str) -> String {
    e.split('(').next().unwrap_or(e).split('{').next().unwrap_or(e).trim().chars().take(50).collect()
}

pub fn run(a: &Args) -> ShardOut {
    let mut total = ShardOut::default();
    let (histories, rounds, soups) = if a.thorough { (24, 12, 8) } else { (5, 7, 5) };
    for h in 0..histories {
        if let Some(only) = super::only_history() {
            if only != h {
                continue;
            }
        }
        let mut rng = Rng::derive(a.seed, "C10", a.shard * 10_000 + h);
        let mut cfg = WorldCfg::draw(&mut rng, a.thorough);
        cfg.max_members = cfg.max_members.clamp(5, 9);
        let mut w = World::new(cfg.clone(), rng, "C10");
        if let Err(e) = history(&mut w, rounds, soups) {
            if e.contains("PANIC") && panic_in_repo(&e) {
                w.violate(format!("C10|panic|{}", e.chars().take(90).collect::<String>()), e);
            } else {
                w.out.inconclusive.push(format!("history {h}: {e}"));
            }
        }
        w.out.cov.bump("histories");
        w.out.cov.sample(json!({"cfg": cfg.to_json(), "first_ops": w.script.iter().take(20).cloned().collect::<Vec<_>>()}));
        total.cov.merge(&w.out.cov);
        total.violations.extend(w.out.violations.drain(..));
        total.inconclusive.extend(w.out.inconclusive.drain(..));
    }
    total
}

fn history(w: &mut World, rounds: u64, soups: usize) -> Result<(), String> {
    // members differ in the credential types they support
    w.p_custom_cred = (1, 2);
    // half of the groups authorise an external sender
    if w.rng.chance(1, 2) {
        let cs = w.suite_of(w.cfg.provs[0]);
        if let Ok((sk, pk)) = cs.signature_key_generate() {
            let si = mls_rs::identity::SigningIdentity::new(mls_rs::identity::basic::BasicCredential::new(b"external-sender".to_vec()).into_credential(), pk);
            w.keep_exts.push(super::c16::external_senders_ext(&si));
            w.ext_signer = Some((sk, si));
        }
    }
    let n0 = w.rng.range(4, 6);
    w.bootstrap(n0, &mut NoHooks)?;
    // one external PSK everybody knows
    w.new_external_psk();
    let dc = DriveCfg {
        p_race: (0, 1),
        p_psk: (0, 1),
        ..DriveCfg::default()
    };
    for _ in 0..rounds {
        if w.active().len() < 3 {
            // regrow
            let _ = w.round(&dc, &mut NoHooks)?;
            continue;
        }
        for _ in 0..soups {
            soup(w)?;
        }
        if w.rng.chance(1, 2) {
            insider(w)?;
        }
        let _ = w.round(&dc, &mut NoHooks)?;
    }
    Ok(())
}

// ---------------------------------------------------------------------------------------------
// the catalogue
// ---------------------------------------------------------------------------------------------

#[derive(Clone)]
enum Act {
    Add(MlsMessage),
    Update,
    Remove(u32),
    ExtPsk(Vec<u8>),
    ResPsk(u64),
    Gce(ExtensionList),
    ReInit,
    Custom(CustomProposal),
    Raw(Proposal),
}

#[derive(Clone)]
struct Item {
    kind: &'static str,
    /// rule the proposal violates on its own (given this committer and this tree)
    offender: Option<&'static str>,
    /// Some(party) = by reference from that member; None = by value
    by_ref: Option<usize>,
    act: Act,
    /// the leaf this proposal changes (update: sender, remove: target)
    touches: Option<u32>,
    /// bytes identifying a key package / PSK id / "gce" / "reinit" for set-level conflicts
    conflict_key: Option<Vec<u8>>,
    /// proposal reference once known (by-reference: from the receipt event)
    bytes: Option<String>,
    /// for adds: (the newcomer's credential is of the custom type, the newcomer supports the custom type)
    add_caps: Option<(bool, bool)>,
}

struct KpMaker {
    bad_names: Vec<Vec<u8>>,
    /// (custom credential, supports custom credentials) of the key package made last
    last_caps: (bool, bool),
}

impl KpMaker {
    /// A key package of a brand-new client. `flavour`: 0 good, 1 other cipher suite,
    /// 2 credential the application rejects, 3 long expired, 4 custom credential type,
    /// 5 basic credential supporting both types, 6 basic credential supporting only the basic type.
    fn fresh(&mut self, w: &mut World, flavour: u8) -> Option<MlsMessage> {
        let prov = w.cfg.provs[w.rng.below(w.cfg.provs.len())];
        let suite = if flavour == 1 {
            let others: Vec<u16> = prov.suites().into_iter().filter(|s| *s != w.cfg.suite).collect();
            if others.is_empty() {
                return None;
            }
            others[w.rng.below(others.len())]
        } else {
            w.cfg.suite
        };
        let cs = crate::anycrypto::AnyCrypto::new(prov).suite(suite)?;
        let (sk, pk) = cs.signature_key_generate().ok()?;
        let name = format!("{}{}", if flavour == 2 { "bad" } else if flavour == 4 { "cc" } else { "n" }, w.rng.next() % 1_000_000).into_bytes();
        if flavour == 2 {
            for p in &w.parties {
                p.ident.rejected.lock().unwrap().insert(name.clone());
            }
            self.bad_names.push(name.clone());
        }
        let stores = Stores::new(crate::store::Backend::Mem, 3);
        let ident = VIdent {
            custom_ok: match flavour {
                4 | 5 => true,
                6 => false,
                _ => w.rng.chance(1, 2),
            },
            ..Default::default()
        };
        self.last_caps = (flavour == 4, ident.custom_ok);
        let (client, _) = make_client(&name, prov, 997, suite, sk, pk, &stores, &ident, w.cfg.rules(), None);
        let ts = (flavour == 3).then(|| MlsTime::from_duration_since_epoch(std::time::Duration::from_secs(1_000_000)));
        guarded(|| client.generate_key_package_message(Default::default(), Default::default(), ts)).ok()?.ok()
    }
    fn cleanup(&mut self, w: &World) {
        for n in self.bad_names.drain(..) {
            for p in &w.parties {
                p.ident.rejected.lock().unwrap().remove(&n);
            }
        }
    }
}

fn unsupported_gce(w: &World) -> ExtensionList {
    let mut l = w.base_gce();
    let _ = l.set_from(RequiredCapabilitiesExt::new(vec![ExtensionType::new(0xFABC)], vec![], vec![]));
    l
}

/// Draw one proposal for the soup. `c` is the committer; `by_ref` the proposer (None = by value).
#[allow(clippy::too_many_arguments)]
fn draw(w: &mut World, kp: &mut KpMaker, c: usize, by_ref: Option<usize>, want_offender: bool, timed: bool, reserved: &mut BTreeSet<u32>, harvested_update: &Option<Proposal>, existing: &[Item]) -> Option<Item> {
    let act = w.active();
    let cleaf = w.leaf_of(c);
    let mk = |kind, offender, act, touches, conflict_key| {
        Some(Item {
            kind,
            offender,
            by_ref,
            act,
            touches,
            conflict_key,
            bytes: None,
            add_caps: None,
        })
    };
    let kp_key = |m: &MlsMessage| m.to_bytes().ok();
    if want_offender {
        let k = w.rng.below(12);
        match k {
            11 => {
                // a credential type that only some members support (valid when all of them do)
                let all_support = act.iter().all(|m| w.parties[*m].ident.custom_ok);
                // the members that do not support it must stay (otherwise the add becomes valid,
                // and a member that is removed by the commit may still refuse to validate it)
                let lacking: BTreeSet<u32> = act.iter().filter(|m| !w.parties[**m].ident.custom_ok).map(|m| w.leaf_of(*m)).collect();
                if existing.iter().any(|i| matches!(i.act, Act::Remove(l) if lacking.contains(&l))) {
                    return None;
                }
                reserved.extend(lacking.iter().copied());
                let m = kp.fresh(w, 4)?;
                let k = kp_key(&m);
                mk(
                    "add_custom_credential",
                    (!all_support).then_some("credential_type_unsupported_by_a_member"),
                    Act::Add(m),
                    None,
                    k,
                )
                .map(|mut i| {
                    i.add_caps = Some((true, true));
                    i
                })
            }
            0 => {
                // removal of the committer
                if by_ref == Some(c) {
                    return None;
                }
                mk("remove_committer", Some("removal_of_committer"), Act::Remove(cleaf), Some(cleaf), None)
            }
            1 => {
                // update of the committer: by reference from the committer itself, by value through a raw proposal
                match by_ref {
                    Some(p) if p == c => mk("update_from_committer", Some("update_of_committer"), Act::Update, Some(cleaf), None),
                    Some(_) => None,
                    None => harvested_update.clone().and_then(|u| mk("update_by_value", Some("update_by_value"), Act::Raw(u), None, None)),
                }
            }
            2 => {
                let m = kp.fresh(w, 1)?;
                let k = kp_key(&m);
                mk("add_other_suite", Some("key_package_wrong_cipher_suite"), Act::Add(m), None, k).map(|mut i| { i.add_caps = Some(kp.last_caps); i })
            }
            3 => {
                let m = kp.fresh(w, 2)?;
                let k = kp_key(&m);
                mk("add_rejected_credential", Some("credential_rejected_by_identity_provider"), Act::Add(m), None, k).map(|mut i| { i.add_caps = Some(kp.last_caps); i })
            }
            4 => {
                // a key package of somebody who is already in the group (not touched otherwise)
                let cands: Vec<usize> = act.iter().copied().filter(|m| !reserved.contains(&w.leaf_of(*m))).collect();
                let m = *cands.get(w.rng.below(cands.len().max(1)))?;
                reserved.insert(w.leaf_of(m));
                let msg = guarded(|| w.parties[m].client.generate_key_package_message(Default::default(), Default::default(), None)).ok()?.ok()?;
                let k = kp_key(&msg);
                let caps = (false, w.parties[m].ident.custom_ok);
                mk("add_existing_member", Some("duplicate_member_identity"), Act::Add(msg), None, k).map(|mut i| {
                    i.add_caps = Some(caps);
                    i
                })
            }
            5 => {
                if !timed {
                    return None;
                }
                let m = kp.fresh(w, 3)?;
                let k = kp_key(&m);
                mk("add_expired", Some("key_package_lifetime"), Act::Add(m), None, k).map(|mut i| { i.add_caps = Some(kp.last_caps); i })
            }
            6 => {
                let id = w.rng.bytes(9);
                mk("psk_unknown", Some("unknown_psk"), Act::ExtPsk(id), None, None)
            }
            7 => mk("gce_unsupported_required", Some("unsupported_required_capabilities"), Act::Gce(unsupported_gce(w)), None, Some(b"gce".to_vec())),
            8 => {
                // by value only: removal of a leaf that holds nobody
                if by_ref.is_some() {
                    return None;
                }
                let n = w.g(c).roster().members_iter().map(|m| m.index).max().unwrap_or(0);
                let occupied: BTreeSet<u32> = w.g(c).roster().members_iter().map(|m| m.index).collect();
                let blank = (0..=n).find(|i| !occupied.contains(i)).unwrap_or(n + 1 + w.rng.below(5) as u32);
                mk("remove_nonmember", Some("removal_of_nonmember"), Act::Remove(blank), None, None)
            }
            9 => {
                // re-init to an older protocol version does not exist (only MLS 1.0): use a re-init
                // mixed with other proposals instead; it is a set-level offender, see conflicts
                mk("reinit", None, Act::ReInit, None, Some(b"reinit".to_vec()))
            }
            _ => {
                // resumption PSK of a future epoch: nobody can know it
                if by_ref.is_some() {
                    return None;
                }
                let e = w.epoch() + 2 + w.rng.below(3) as u64;
                mk("psk_future_epoch", Some("unknown_psk"), Act::ResPsk(e), None, None)
            }
        }
    } else {
        let k = w.rng.below(9);
        match k {
            0 | 1 => {
                if act.len() + 2 >= w.cfg.max_members + 2 {
                    return None;
                }
                let m = kp.fresh(w, 0)?;
                let k = kp_key(&m);
                mk("add", None, Act::Add(m), None, k).map(|mut i| { i.add_caps = Some(kp.last_caps); i })
            }
            2 | 3 => {
                // update (by reference only), from somebody not otherwise touched
                let p = by_ref?;
                if p == c {
                    return None;
                }
                let leaf = w.leaf_of(p);
                // deliberately not reserved: update + remove / update + update of one leaf are the
                // conflicts the filter has to resolve
                mk("update", None, Act::Update, Some(leaf), None)
            }
            4 => {
                let cands: Vec<usize> = act.iter().copied().filter(|m| *m != c && Some(*m) != by_ref && !reserved.contains(&w.leaf_of(*m))).collect();
                if cands.is_empty() || act.len() <= 3 {
                    return None;
                }
                let t = cands[w.rng.below(cands.len())];
                let leaf = w.leaf_of(t);
                // (a key package of somebody who is removed by the same commit is a valid add)
                reserved.insert(leaf);
                mk("remove", None, Act::Remove(leaf), Some(leaf), None)
            }
            5 => {
                let keys: Vec<Vec<u8>> = w.psks.keys().cloned().collect();
                let id = keys.get(w.rng.below(keys.len().max(1)))?.clone();
                mk("psk_external", None, Act::ExtPsk(id), None, None)
            }
            6 => {
                let e = w.epoch();
                mk("psk_resumption", None, Act::ResPsk(e), None, None)
            }
            7 => {
                let l = w.random_gce();
                mk("gce", None, Act::Gce(l), None, Some(b"gce".to_vec()))
            }
            _ => {
                let np = w.rng.chance(1, 3);
                let cp = w.custom_proposal(np);
                mk(if np { "custom_needs_path" } else { "custom" }, None, Act::Custom(cp), None, None)
            }
        }
    }
}

fn pkey(p: &ProposalInfo<Proposal>) -> String {
    format!("{}|{:?}|{}", hx(&p.proposal.mls_encode_to_vec().unwrap_or_default()), p.sender, matches!(p.source, mls_rs::mls_rules::ProposalSource::ByValue))
}

fn class_of(p: &Proposal) -> &'static str {
    proposal_kind(p)
}

/// The independent rule checker over what a commit applied (RFC 9420 section 12.2).
#[allow(clippy::too_many_arguments)]
fn check_applied(
    w: &mut World,
    applied: &[ProposalInfo<Proposal>],
    committer_leaf: u32,
    roster_before: &BTreeMap<u32, Vec<u8>>,
    has_path: bool,
    n_by_value: usize,
    offenders: &[(String, &'static str)],
    ctx: &str,
    add_caps: &BTreeMap<Vec<u8>, (bool, bool)>,
    member_supports_custom: &BTreeMap<u32, bool>,
) {
    let mut touched: BTreeMap<u32, usize> = BTreeMap::new();
    let mut gce = 0;
    let mut reinit = 0;
    let mut kps: BTreeSet<Vec<u8>> = BTreeSet::new();
    let mut psk_ids: BTreeSet<Vec<u8>> = BTreeSet::new();
    let mut removed: BTreeSet<u32> = BTreeSet::new();
    let mut added_names: Vec<Vec<u8>> = vec![];
    let mut added_caps: Vec<(bool, bool)> = vec![];
    let mut needs_path = applied.is_empty() || w.cfg.path_required;
    let mut by_value = 0;
    let mut bad = |w: &mut World, rule: &str, detail: String| {
        w.violate(format!("C10|applied_set_breaks_rule|{rule}"), format!("{ctx}: {detail}"));
    };
    for p in applied {
        if matches!(p.source, mls_rs::mls_rules::ProposalSource::ByValue) {
            by_value += 1;
        }
        let enc = match &p.source {
            mls_rs::mls_rules::ProposalSource::ByReference(r) => hx(r),
            _ => String::new(),
        };
        if let Some((_, rule)) = offenders.iter().find(|(b, _)| *b == enc) {
            bad(w, rule, format!("an offending {} proposal was applied", class_of(&p.proposal)));
        }
        match &p.proposal {
            Proposal::Update(_) => {
                needs_path = true;
                match p.sender {
                    mls_rs::group::Sender::Member(l) => {
                        *touched.entry(l).or_default() += 1;
                        if l == committer_leaf {
                            bad(w, "update_of_committer", "the committer's own update was applied".into());
                        }
                        if !roster_before.contains_key(&l) {
                            bad(w, "update_of_nonmember", format!("update from leaf {l}"));
                        }
                    }
                    _ => bad(w, "update_from_non_member_sender", format!("{:?}", p.sender)),
                }
                if matches!(p.source, mls_rs::mls_rules::ProposalSource::ByValue) {
                    bad(w, "update_by_value", "an Update was committed by value".into());
                }
            }
            Proposal::Remove(r) => {
                needs_path = true;
                let l = r.to_remove();
                *touched.entry(l).or_default() += 1;
                removed.insert(l);
                if l == committer_leaf {
                    bad(w, "removal_of_committer", "the committer was removed by its own commit".into());
                }
                if !roster_before.contains_key(&l) {
                    bad(w, "removal_of_nonmember", format!("leaf {l} holds nobody"));
                }
            }
            Proposal::Add(a) => {
                let kb = a.key_package().mls_encode_to_vec().unwrap_or_default();
                if let Some(c) = add_caps.get(&kb) {
                    added_caps.push(*c);
                }
                if !kps.insert(kb) {
                    bad(w, "duplicate_key_package", "the same key package was added twice".into());
                }
                let cred = &a.signing_identity().credential;
                added_names.push(
                    cred.as_basic()
                        .map(|b| b.identifier.clone())
                        .or_else(|| cred.as_custom().map(|c| c.data.clone()))
                        .unwrap_or_default(),
                );
            }
            Proposal::Psk(x) => {
                let id = x.mls_encode_to_vec().unwrap_or_default();
                if !psk_ids.insert(id) {
                    bad(w, "duplicate_psk_id", "the same PreSharedKeyID twice".into());
                }
            }
            Proposal::GroupContextExtensions(_) => {
                gce += 1;
                needs_path = true;
            }
            Proposal::ReInit(_) => reinit += 1,
            Proposal::ExternalInit(_) => bad(w, "external_init_in_member_commit", String::new()),
            Proposal::Custom(cp) => {
                if cp.proposal_type() == ProposalType::new(CUSTOM_PROP_PATH) {
                    needs_path = true;
                }
            }
            #[allow(unreachable_patterns)]
            _ => {}
        }
    }
    for (l, n) in &touched {
        if *n > 1 {
            bad(w, "two_changes_to_one_leaf", format!("leaf {l} is changed by {n} applied proposals"));
        }
    }
    if gce > 1 {
        bad(w, "more_than_one_group_context_extensions", format!("{gce} applied"));
    }
    if reinit > 0 && applied.len() != 1 {
        bad(w, "reinit_mixed_with_others", format!("{} proposals applied together with a ReInit", applied.len() - 1));
    }
    // identities: a newcomer must not carry the name of somebody who stays
    let staying: BTreeSet<&Vec<u8>> = roster_before.iter().filter(|(l, _)| !removed.contains(l)).map(|(_, n)| n).collect();
    let mut seen: BTreeSet<&Vec<u8>> = BTreeSet::new();
    for n in &added_names {
        if staying.contains(n) || !seen.insert(n) {
            bad(w, "duplicate_member_identity", format!("identity {} added although present", String::from_utf8_lossy(n)));
        }
    }
    // credential types: everybody in the new tree supports the type of every credential in it
    if added_caps.iter().any(|c| c.0) {
        if added_caps.iter().any(|c| !c.1) {
            bad(w, "credential_type_unsupported_by_another_newcomer", "a custom credential was added together with a newcomer that does not support the type".into());
        }
        for (l, ok) in member_supports_custom {
            if !ok && !removed.contains(l) && roster_before.contains_key(l) {
                bad(w, "credential_type_unsupported_by_a_member", format!("a custom credential was added although the member at leaf {l} stays and does not support the type"));
            }
        }
    }
    if by_value != n_by_value {
        bad(w, "by_value_proposal_not_applied", format!("{by_value} of {n_by_value} by-value proposals applied"));
    }
    if needs_path && !has_path && reinit == 0 {
        bad(w, "missing_required_path", format!("applied {:?} without an update path", applied.iter().map(|p| class_of(&p.proposal)).collect::<Vec<_>>()));
    }
}

fn soup(w: &mut World) -> Result<(), String> {
    let act = w.active();
    let c = act[w.rng.below(act.len())];
    let cleaf = w.leaf_of(c);
    let timed = w.rng.chance(1, 4);
    // key packages made during the soup start their lifetime "now": the commit time of a timed
    // soup lies a little later than all of them
    let now = MlsTime::from_duration_since_epoch(std::time::Duration::from_secs(MlsTime::now().seconds_since_epoch() + 30));
    let mut kp = KpMaker { bad_names: vec![], last_caps: (false, false) };
    let r = soup_inner(w, &mut kp, c, cleaf, timed, now);
    kp.cleanup(w);
    r
}

fn soup_inner(w: &mut World, kp: &mut KpMaker, c: usize, cleaf: u32, timed: bool, now: MlsTime) -> Result<(), String> {
    let act = w.active();
    let probes = w.export_probes.clone();
    let mut clones: BTreeMap<usize, VGroup> = act
        .iter()
        .map(|&m| {
            let mut g = w.g(m).clone();
            g.clear_pending_commit();
            g.clear_proposal_cache();
            (m, g)
        })
        .collect();
    let roster_before: BTreeMap<u32, Vec<u8>> = w
        .g(c)
        .roster()
        .members_iter()
        .map(|m| (m.index, m.signing_identity.credential.as_basic().map(|b| b.identifier.clone()).unwrap_or_default()))
        .collect();

    // an Update proposal value of another member, for the by-value "update" offender
    let harvested_update: Option<Proposal> = {
        let other = act.iter().copied().find(|m| *m != c);
        other.and_then(|o| {
            let mut og = w.g(o).clone();
            let m = guarded(|| og.propose_update(vec![])).ok()?.ok()?;
            let mut cg = w.g(c).clone();
            match guarded(|| cg.process_incoming_message(m)).ok()?.ok()? {
                ReceivedMessage::Proposal(d) => Some(d.proposal),
                _ => None,
            }
        })
    };

    // ---- draw
    let n_ref = w.rng.below(6);
    let n_val = w.rng.below(4);
    let mut reserved: BTreeSet<u32> = BTreeSet::new();
    let mut items: Vec<Item> = vec![];
    for _ in 0..n_ref {
        let p = act[w.rng.below(act.len())];
        let off = w.rng.chance(1, 3);
        if let Some(it) = draw(w, kp, c, Some(p), off, timed, &mut reserved, &harvested_update, &items) {
            items.push(it);
        }
    }
    // conflicts made on purpose: a second proposal for the leaf / key package / GCE of an earlier one
    if !items.is_empty() && w.rng.chance(1, 3) {
        let k = w.rng.below(items.len());
        let base = items[k].clone();
        let others: Vec<usize> = act.iter().copied().filter(|m| Some(*m) != base.by_ref).collect();
        let p2 = others[w.rng.below(others.len())];
        let dup = match &base.act {
            Act::Update => base.touches.filter(|l| *l != cleaf && w.party_at_leaf(*l) != Some(p2) && !reserved.contains(l)).map(|l| Item {
                kind: "remove_of_updated_leaf",
                offender: None,
                by_ref: Some(p2),
                act: Act::Remove(l),
                touches: Some(l),
                conflict_key: None,
                bytes: None,
                add_caps: None,
            }),
            Act::Remove(l) if base.offender.is_none() && w.party_at_leaf(*l) != Some(p2) => Some(Item {
                kind: "second_remove_of_leaf",
                by_ref: Some(p2),
                ..base.clone()
            }),
            Act::Add(_) | Act::Gce(_) | Act::ReInit => Some(Item {
                kind: "same_again",
                by_ref: Some(p2),
                ..base.clone()
            }),
            _ => None,
        };
        if let Some(d) = dup {
            if let Act::Remove(l) = &d.act {
                reserved.insert(*l);
            }
            items.push(d);
        }
    }
    for _ in 0..n_val {
        let off = w.rng.chance(1, 4);
        if let Some(it) = draw(w, kp, c, None, off, timed, &mut reserved, &harvested_update, &items) {
            items.push(it);
        }
    }
    // by-value duplicate of a by-value proposal
    if w.rng.chance(1, 8) {
        if let Some(b) = items.iter().find(|i| i.by_ref.is_none() && matches!(i.act, Act::Add(_) | Act::Remove(_) | Act::Gce(_))).cloned() {
            items.push(Item { kind: "same_again_by_value", ..b });
        }
    }
    w.log(json!({"op":"soup","committer":c,"timed":timed,"items": items.iter().map(|i| json!([i.kind, i.by_ref, i.offender])).collect::<Vec<_>>() }));
    w.out.cov.bump("soups");

    // ---- by-reference: create and exchange
    struct Sent {
        idx: usize,
        proposer: usize,
        msg: MlsMessage,
    }
    let mut sent: Vec<Sent> = vec![];
    let mut dropped: BTreeSet<usize> = BTreeSet::new();
    for (idx, it) in items.iter().enumerate() {
        let Some(p) = it.by_ref else { continue };
        let g = clones.get_mut(&p).unwrap();
        let r = match it.act.clone() {
            Act::Add(kpm) => guarded(|| g.propose_add(kpm, vec![])),
            Act::Update => guarded(|| g.propose_update(vec![])),
            Act::Remove(l) => guarded(|| g.propose_remove(l, vec![])),
            Act::ExtPsk(id) => guarded(|| g.propose_external_psk(ExternalPskId::new(id), vec![])),
            Act::ResPsk(e) => guarded(|| g.propose_resumption_psk(e, vec![])),
            Act::Gce(l) => guarded(|| g.propose_group_context_extensions(l, vec![])),
            Act::ReInit => {
                let suite = CipherSuite::from(w.cfg.suite);
                guarded(|| g.propose_reinit(None, ProtocolVersion::MLS_10, suite, Default::default(), vec![]))
            }
            Act::Custom(cp) => guarded(|| g.propose_custom(cp, vec![])),
            Act::Raw(_) => continue,
        };
        match r {
            Ok(Ok(m)) => sent.push(Sent { idx, proposer: p, msg: m }),
            Ok(Err(e)) => {
                w.out.cov.bump(&format!("proposer_refused:{}:{}", it.kind, ek(&format!("{e:?}"))));
                dropped.insert(idx);
            }
            Err(p) => {
                w.violate(format!("C10|panic|propose|{}", it.kind), p);
                return Ok(());
            }
        }
    }
    // a proposal every member can see that was sent by an outsider proposing itself
    if w.rng.chance(1, 5) && w.cfg.allow_external_commit {
        if let Some(m) = outsider_add(w, &clones, act[0]) {
            items.push(Item {
                kind: "new_member_add",
                offender: None,
                by_ref: Some(usize::MAX),
                act: Act::Update,
                touches: None,
                conflict_key: None,
                bytes: None,
                add_caps: Some((false, false)),
            });
            sent.push(Sent {
                idx: items.len() - 1,
                proposer: usize::MAX,
                msg: m,
            });
        }
    }
    // a proposal of the external sender the group context authorises
    if let (Some((sk, si)), true) = (w.ext_signer.clone(), w.rng.chance(1, 3)) {
        use mls_rs::external_client::builder::ExternalClientBuilder;
        let prov = w.cfg.provs[w.rng.below(w.cfg.provs.len())];
        let ec = ExternalClientBuilder::new()
            .identity_provider(VIdent { custom_ok: true, ..Default::default() })
            .crypto_provider(crate::anycrypto::AnyCrypto::new(prov))
            .extension_types([ExtensionType::new(EXT_A), ExtensionType::new(EXT_B)])
            .custom_proposal_types([ProposalType::new(CUSTOM_PROP), ProposalType::new(CUSTOM_PROP_PATH)])
            .signer(sk, si)
            .build();
        let gi = guarded(|| clones[&act[0]].group_info_message(true)).ok().and_then(|r| r.ok());
        if let Some(Ok(Ok(mut eg))) = gi.map(|gi| guarded(|| ec.observe_group(gi, None, None))) {
            let kind = w.rng.below(3);
            let cands: Vec<usize> = act.iter().copied().filter(|m| *m != c && !reserved.contains(&w.leaf_of(*m))).collect();
            let made: Option<(&'static str, MlsMessage, Option<u32>, Option<Vec<u8>>, Option<(bool, bool)>)> = match kind {
                0 if !cands.is_empty() && act.len() > 3 => {
                    let pick = cands[w.rng.below(cands.len())];
                    let l = w.leaf_of(pick);
                    reserved.insert(l);
                    guarded(|| eg.propose_remove(l, vec![])).ok().and_then(|r| r.ok()).map(|m| ("external_sender_remove", m, Some(l), None, None))
                }
                1 => kp.fresh(w, 0).and_then(|k| {
                    let key = k.to_bytes().ok();
                    let caps = kp.last_caps;
                    guarded(|| eg.propose_add(k, vec![])).ok().and_then(|r| r.ok()).map(|m| ("external_sender_add", m, None, key, Some(caps)))
                }),
                _ => {
                    let l = w.random_gce();
                    guarded(|| eg.propose_group_context_extensions(l, vec![])).ok().and_then(|r| r.ok()).map(|m| ("external_sender_gce", m, None, Some(b"gce".to_vec()), None))
                }
            };
            if let Some((kind, m, touches, conflict_key, add_caps)) = made {
                items.push(Item {
                    kind,
                    offender: None,
                    by_ref: Some(usize::MAX - 1),
                    act: Act::Update,
                    touches,
                    conflict_key,
                    bytes: None,
                    add_caps,
                });
                sent.push(Sent {
                    idx: items.len() - 1,
                    proposer: usize::MAX - 1,
                    msg: m,
                });
            }
        }
    }
    // who misses what
    let missing: Option<(usize, usize)> = if !sent.is_empty() && w.rng.chance(1, 3) {
        let others: Vec<usize> = act.iter().copied().filter(|m| *m != c).collect();
        let r = others[w.rng.below(others.len())];
        let cands: Vec<usize> = sent.iter().filter(|s| s.proposer != r).map(|s| s.idx).collect();
        cands.get(w.rng.below(cands.len().max(1))).map(|i| (r, *i))
    } else {
        None
    };
    let mut has: BTreeMap<usize, BTreeSet<usize>> = BTreeMap::new();
    let mut bytes_of: BTreeMap<usize, String> = BTreeMap::new();
    for &m in &act {
        let mut mine: Vec<&Sent> = sent.iter().collect();
        w.rng.shuffle(&mut mine);
        for s in mine {
            if s.proposer == m {
                has.entry(m).or_default().insert(s.idx);
                continue;
            }
            if missing == Some((m, s.idx)) {
                continue;
            }
            let g = clones.get_mut(&m).unwrap();
            let mm = s.msg.clone();
            let r = if timed { guarded(|| g.process_incoming_message_with_time(mm, now)) } else { guarded(|| g.process_incoming_message(mm)) };
            match r {
                Ok(Ok(ReceivedMessage::Proposal(d))) => {
                    has.entry(m).or_default().insert(s.idx);
                    bytes_of.entry(s.idx).or_insert_with(|| hx(&d.proposal_ref));
                }
                Ok(Ok(_)) => w.violate("C10|proposal_wrong_event", format!("member {m}")),
                Ok(Err(e)) => {
                    let it = &items[s.idx];
                    if it.offender.is_some() {
                        w.out.cov.bump(&format!("offender_refused_at_receipt:{}:{}", it.kind, ek(&format!("{e:?}"))));
                    } else {
                        w.violate(
                            format!("C10|honest_proposal_rejected|{}|{}", it.kind, ek(&format!("{e:?}"))),
                            format!("member {m} refused a valid {} proposal of {}: {e:?}", it.kind, s.proposer),
                        );
                        return Ok(());
                    }
                }
                Err(p) => {
                    w.violate(format!("C10|panic|proposal_receipt|{}", items[s.idx].kind), p);
                    return Ok(());
                }
            }
        }
    }
    for (i, b) in &bytes_of {
        items[*i].bytes = Some(b.clone());
    }

    // ---- expectations from the by-value set alone
    let vals: Vec<&Item> = items.iter().filter(|i| i.by_ref.is_none()).collect();
    let refs: Vec<(usize, &Item)> = items.iter().enumerate().filter(|(i, it)| it.by_ref.is_some() && !dropped.contains(i)).collect();
    let mut val_invalid: Option<&'static str> = vals.iter().find_map(|i| i.offender);
    {
        let mut leaves = BTreeSet::new();
        let mut keys = BTreeSet::new();
        for v in &vals {
            if let Some(l) = v.touches {
                if !leaves.insert(l) {
                    val_invalid = val_invalid.or(Some("two_changes_to_one_leaf"));
                }
            }
            if let Some(k) = &v.conflict_key {
                if !keys.insert(k.clone()) {
                    val_invalid = val_invalid.or(Some("duplicate_by_value"));
                }
            }
        }
        if vals.iter().any(|v| matches!(v.act, Act::ReInit)) && vals.len() > 1 {
            val_invalid = val_invalid.or(Some("reinit_mixed_with_others"));
        }        // a newcomer with a custom credential next to a newcomer that does not support the type
        let custom_cred = vals.iter().any(|v| matches!(v.add_caps, Some((true, _))));
        let lacks_support = vals.iter().any(|v| matches!(v.add_caps, Some((_, false))));
        if custom_cred && lacks_support {
            val_invalid = val_invalid.or(Some("credential_type_unsupported_by_another_newcomer"));
        }
    }
    // by-value proposals that collide with by-reference ones: either outcome is defensible
    let mixed_conflict = vals.iter().any(|v| {
        refs.iter().any(|(_, r)| {
            (v.touches.is_some() && v.touches == r.touches)
                || (v.conflict_key.is_some() && v.conflict_key == r.conflict_key)
                || matches!(v.act, Act::ReInit)
                || matches!(r.act, Act::ReInit)
        })
    }) || (vals.iter().any(|v| matches!(v.act, Act::ReInit)) && !refs.is_empty())
        || (vals.iter().any(|v| matches!(v.add_caps, Some((true, _)))) && refs.iter().any(|(_, r)| matches!(r.add_caps, Some((_, false)))))
        || (vals.iter().any(|v| matches!(v.add_caps, Some((_, false)))) && refs.iter().any(|(_, r)| matches!(r.add_caps, Some((true, _)))));

    // ---- build
    let vi: Vec<Item> = vals.iter().map(|v| (*v).clone()).collect();
    let n_by_value = vi.len();
    let suite = CipherSuite::from(w.cfg.suite);
    let base_c = clones.get(&c).unwrap().clone();
    let cg = clones.get_mut(&c).unwrap();
    let r = guarded(|| {
        let mut b = cg.commit_builder();
        for it in vi {
            b = match it.act {
                Act::Add(m) => b.add_member(m)?,
                Act::Remove(l) => b.raw_proposal(Proposal::Remove(RemoveProposal::removing(l)?)),
                Act::ExtPsk(id) => b.add_external_psk(ExternalPskId::new(id))?,
                Act::ResPsk(e) => b.add_resumption_psk(e)?,
                Act::Gce(l) => b.raw_proposal(Proposal::GroupContextExtensions(l)),
                Act::ReInit => b.reinit(None, ProtocolVersion::MLS_10, suite, Default::default())?,
                Act::Custom(cp) => b.custom_proposal(cp),
                Act::Raw(p) => b.raw_proposal(p),
                Act::Update => b,
            };
        }
        if timed {
            b = b.commit_time(now);
        }
        b.build()
    });
    let class = format!(
        "{}|{}|{}",
        if val_invalid.is_some() { "by_value_invalid" } else if mixed_conflict { "mixed" } else { "buildable" },
        refs.iter().filter(|(_, r)| r.offender.is_some()).count().min(3),
        refs.len().min(4)
    );
    w.out.cov.eval(Some(fnv(format!("soup|{class}|{}|{timed}", vals.len()).as_bytes())));
    for it in &items {
        w.out.cov.bump(&format!("item:{}:{}", if it.by_ref.is_some() { "ref" } else { "val" }, it.kind));
    }
    let out = match r {
        Ok(Ok(o)) => o,
        Ok(Err(e)) => {
            let e = format!("{e:?}");
            if val_invalid.is_some() || mixed_conflict {
                w.out.cov.bump(if val_invalid.is_some() { "build_refused_as_expected" } else { "build_refused_mixed_conflict" });
                w.out.cov.bump(&format!("build_refused:{}:{}", val_invalid.unwrap_or("mixed"), ek(&e)));
                let cg = clones.get(&c).unwrap();
                let d = residual_diff(w, c, &base_c, cg);
                if !d.is_empty() {
                    w.violate(format!("C10|state_changed_by_refused_build|{}", d.join("+")), format!("member {c}: {d:?} after {e}"));
                }
                // the member can go on: without the by-value set the same cache commits
                let mut cg2 = clones.get(&c).unwrap().clone();
                match guarded(|| cg2.commit(vec![])) {
                    Ok(Ok(_)) => w.out.cov.bump("commit_after_refused_build_ok"),
                    Ok(Err(e2)) => w.violate(
                        format!("C10|by_reference_offender_makes_commit_fail|after_refused_build|{}", ek(&format!("{e2:?}"))),
                        format!("member {c}: commit() of the cached proposals alone fails: {e2:?}; cache: {:?}", refs.iter().map(|(_, r)| r.kind).collect::<Vec<_>>()),
                    ),
                    Err(p) => w.violate("C10|panic|commit_after_refused_build", p),
                }
            } else {
                w.violate(
                    format!("C10|by_reference_offender_makes_commit_fail|{}", ek(&e)),
                    format!(
                        "member {c} (leaf {cleaf}): build failed with {e}; by value {:?} (valid on their own), cached by reference {:?}",
                        vals.iter().map(|v| v.kind).collect::<Vec<_>>(),
                        refs.iter().map(|(_, r)| (r.kind, r.by_ref)).collect::<Vec<_>>()
                    ),
                );
            }
            return Ok(());
        }
        Err(p) => {
            w.violate(format!("C10|panic|build|{}", p.chars().take(80).collect::<String>()), p);
            return Ok(());
        }
    };
    if let Some(rule) = val_invalid {
        w.violate(
            format!("C10|invalid_proposal_committed_by_value|{rule}"),
            format!("member {c} (leaf {cleaf}) built a commit although its by-value set {:?} breaks {rule}", vals.iter().map(|v| v.kind).collect::<Vec<_>>()),
        );
        return Ok(());
    }
    w.out.cov.bump("commit_built");
    // ---- the committer applies
    let committer_unused: Vec<String> = {
        let mut v: Vec<String> = out.unused_proposals.iter().map(pkey).collect();
        v.sort();
        v
    };
    let cg = clones.get_mut(&c).unwrap();
    let desc = match guarded(|| cg.apply_pending_alt()) {
        Ok(Ok(d)) => d,
        Ok(Err(e)) => {
            w.violate(format!("C10|committer_cannot_apply_own_commit|{}", ek(&format!("{e:?}"))), format!("member {c}: {e:?}"));
            return Ok(());
        }
        Err(p) => {
            w.violate("C10|panic|apply", p);
            return Ok(());
        }
    };
    let (applied, unused_c2, reinit_commit): (Vec<ProposalInfo<Proposal>>, Vec<ProposalInfo<Proposal>>, bool) = match desc.effect {
        CommitEffect::NewEpoch(ne) => (ne.applied_proposals, ne.unused_proposals, false),
        CommitEffect::Removed { new_epoch, .. } => (new_epoch.applied_proposals, new_epoch.unused_proposals, false),
        CommitEffect::ReInit(ri) => (
            vec![],
            vec![],
            {
                let _ = ri;
                true
            },
        ),
    };
    if reinit_commit {
        // the whole commit is one ReInit: receivers must report the same
        w.out.cov.bump("reinit_commit");
        let total_effective = items.iter().enumerate().filter(|(i, it)| !dropped.contains(i) && it.offender.is_none() && !matches!(it.act, Act::ReInit)).count();
        if total_effective > 0 && n_by_value > 0 {
            w.violate("C10|applied_set_breaks_rule|reinit_mixed_with_others", format!("ReInit commit although {total_effective} other valid proposals were in the set (by value {n_by_value})"));
        }
        for &m in &act {
            if m == c || missing.map(|x| x.0) == Some(m) {
                continue;
            }
            let g = clones.get_mut(&m).unwrap();
            let cm = out.commit_message.clone();
            match guarded(|| g.process_incoming_message(cm)) {
                Ok(Ok(ReceivedMessage::Commit(d))) if matches!(d.effect, CommitEffect::ReInit(_)) => {}
                Ok(Ok(_)) => w.violate("C10|members_report_different_effect|reinit", format!("member {m}")),
                Ok(Err(e)) => w.violate(format!("C10|honest_commit_rejected|reinit|{}", ek(&format!("{e:?}"))), format!("member {m}: {e:?}")),
                Err(p) => w.violate("C10|panic|receive", p),
            }
        }
        return Ok(());
    }
    let offenders: Vec<(String, &'static str)> = items.iter().filter_map(|i| i.offender.and_then(|o| i.bytes.clone().map(|b| (b, o)))).collect();
    let ctx = format!(
        "committer {c} (leaf {cleaf}), by value {:?}, by reference {:?}, members (party, leaf, supports custom credentials) {:?}",
        vals.iter().map(|v| v.kind).collect::<Vec<_>>(),
        refs.iter().map(|(_, r)| (r.kind, r.by_ref)).collect::<Vec<_>>(),
        act.iter().map(|m| (*m, w.leaf_of(*m), w.parties[*m].ident.custom_ok)).collect::<Vec<_>>()
    );
    let caps_by_kp: BTreeMap<Vec<u8>, (bool, bool)> = items
        .iter()
        .filter_map(|i| match (&i.conflict_key, i.add_caps) {
            (Some(k), Some(c)) if k.len() > 4 => Some((k[4..].to_vec(), c)),
            _ => None,
        })
        .collect();
    let member_supports_custom: BTreeMap<u32, bool> = act.iter().map(|m| (w.leaf_of(*m), w.parties[*m].ident.custom_ok)).collect();
    check_applied(w, &applied, cleaf, &roster_before, out.contains_update_path, n_by_value, &offenders, &ctx, &caps_by_kp, &member_supports_custom);
    for p in &applied {
        w.out.cov.bump(&format!("applied:{}", class_of(&p.proposal)));
    }
    w.out.cov.add("unused_by_committer", out.unused_proposals.len() as u64);
    let offenders_in_cache = refs.iter().filter(|(i, r)| r.offender.is_some() && has.get(&c).map(|h| h.contains(i)).unwrap_or(false)).count();
    w.out.cov.add("by_ref_offenders_dropped", offenders_in_cache as u64);
    let mut applied_keys: Vec<String> = applied.iter().map(pkey).collect();
    applied_keys.sort();
    {
        let mut v: Vec<String> = unused_c2.iter().map(pkey).collect();
        v.sort();
        if v != committer_unused {
            w.violate(
                "C10|committer_reports_two_unused_sets",
                format!("{ctx}: CommitOutput.unused_proposals has {} entries, NewEpoch.unused_proposals of the same member {}", committer_unused.len(), v.len()),
            );
        }
    }
    // which by-reference items did the commit use
    let applied_bytes: BTreeSet<String> = applied
        .iter()
        .filter_map(|p| match &p.source {
            mls_rs::mls_rules::ProposalSource::ByReference(r) => Some(hx(r)),
            _ => None,
        })
        .collect();
    let obs_c = observe(clones.get(&c).unwrap(), &probes)?;

    // ---- E1 / E2: the receivers
    let c_has = has.get(&c).cloned().unwrap_or_default();
    for &m in &act {
        if m == c {
            continue;
        }
        let m_has = has.get(&m).cloned().unwrap_or_default();
        // does m lack a proposal the commit references?
        // (two identical proposals of one sender under a deterministic signature scheme are one
        // and the same message: what counts is the set of proposal references a member holds)
        let m_refs: BTreeSet<&String> = m_has.iter().filter_map(|i| items[*i].bytes.as_ref()).collect();
        let lacks_referenced = applied_bytes.iter().any(|r| !m_refs.contains(r));
        let c_refs: BTreeSet<&String> = c_has.iter().filter_map(|i| items[*i].bytes.as_ref()).collect();
        let same_cache = m_refs == c_refs;
        let base = clones.get(&m).unwrap().clone();
        let g = clones.get_mut(&m).unwrap();
        let cm = out.commit_message.clone();
        let r = if timed { guarded(|| g.process_incoming_message_with_time(cm, now)) } else { guarded(|| g.process_incoming_message(cm)) };
        w.out.cov.eval(Some(fnv(format!("recv|{lacks_referenced}|{}|{}", applied.len().min(5), same_cache).as_bytes())));
        match r {
            Ok(Ok(ReceivedMessage::Commit(d))) => {
                if lacks_referenced {
                    w.violate("C10|commit_accepted_without_the_referenced_proposal", format!("member {m}; {ctx}"));
                    continue;
                }
                w.out.cov.bump("receiver_accepted");
                let (ap, un, removed) = match d.effect {
                    CommitEffect::NewEpoch(ne) => (ne.applied_proposals, ne.unused_proposals, false),
                    CommitEffect::Removed { new_epoch, .. } => (new_epoch.applied_proposals, new_epoch.unused_proposals, true),
                    CommitEffect::ReInit(_) => {
                        w.violate("C10|members_report_different_effect|reinit", format!("member {m}"));
                        continue;
                    }
                };
                let mut ak: Vec<String> = ap.iter().map(pkey).collect();
                ak.sort();
                if ak != applied_keys {
                    w.violate(
                        "C10|members_report_different_applied_proposals",
                        format!("member {m} reports {} applied, committer {}; {ctx}", ak.len(), applied_keys.len()),
                    );
                }
                if same_cache {
                    let mut uk: Vec<String> = un.iter().map(pkey).collect();
                    uk.sort();
                    w.out.cov.bump("unused_sets_compared");
                    if uk != committer_unused {
                        w.violate(
                            "C10|members_report_different_unused_proposals",
                            format!("member {m} (same cache as the committer) reports {} unused, committer {}; {ctx}", uk.len(), committer_unused.len()),
                        );
                    }
                }
                if !removed {
                    let o = observe(clones.get(&m).unwrap(), &probes)?;
                    let dd = obs_diff(&obs_c, &o);
                    if !dd.is_empty() {
                        w.violate(format!("C10|members_disagree_after_commit|{}", dd.join("+")), format!("member {m} vs committer {c}; {ctx}"));
                    }
                }
            }
            Ok(Ok(_)) => w.violate("C10|commit_wrong_event", format!("member {m}")),
            Ok(Err(e)) => {
                let e = format!("{e:?}");
                if lacks_referenced {
                    w.out.cov.bump(&format!("missing_proposal_refused:{}", ek(&e)));
                    let g = clones.get(&m).unwrap();
                    let d = residual_diff(w, m, &base, g);
                    if !d.is_empty() {
                        w.violate(format!("C10|state_changed_by_rejected_commit|missing_proposal|{}", d.join("+")), format!("member {m}: {d:?}"));
                    }
                } else {
                    w.violate(
                        format!("C10|honest_commit_rejected|{}", ek(&e)),
                        format!("member {m} (cache {:?}) rejected the commit: {e}; {ctx}; applied {:?}", m_has, applied.iter().map(|p| class_of(&p.proposal)).collect::<Vec<_>>()),
                    );
                }
            }
            Err(p) => w.violate(format!("C10|panic|receive|{}", p.chars().take(80).collect::<String>()), p),
        }
    }

    // ---- nothing the filter dropped may leave a trace: the next honest commit (a plain add by
    // another member) must be accepted by everybody who followed, the previous committer included
    let followers: Vec<usize> = act
        .iter()
        .copied()
        .filter(|m| clones.get(m).map(|g| g.current_epoch() == clones[&c].current_epoch()).unwrap_or(false))
        .filter(|m| clones[m].roster().members_iter().any(|x| x.index == clones[m].current_member_index()))
        .collect();
    let still_in = |m: usize| clones[&c].roster().members_iter().any(|x| x.signing_identity.signature_key.as_ref() == w.parties[m].pk.as_ref());
    let followers: Vec<usize> = followers.into_iter().filter(|m| still_in(*m)).collect();
    if followers.len() >= 2 && followers.contains(&c) {
        let m2 = *followers.iter().find(|m| **m != c).unwrap();
        // a newcomer that supports only the basic type, unless a custom credential is now in use
        let custom_in_use = applied.iter().any(|p| matches!(&p.proposal, Proposal::Add(a) if a.signing_identity().credential.as_basic().is_none()));
        let Some(newkp) = kp.fresh(w, if custom_in_use { 5 } else { 6 }) else { return Ok(()) };
        let g2 = clones.get_mut(&m2).unwrap();
        g2.clear_proposal_cache();
        let r = guarded(|| g2.commit_builder().add_member(newkp)?.build());
        let out2 = match r {
            Ok(Ok(o)) => o,
            Ok(Err(e)) => {
                w.violate(
                    format!("C10|follow_up_commit_cannot_be_built|{}", ek(&format!("{e:?}"))),
                    format!("member {m2} cannot add a fresh member after the commit of {c}: {e:?}; {ctx}"),
                );
                return Ok(());
            }
            Err(p) => {
                w.violate("C10|panic|follow_up_build", p);
                return Ok(());
            }
        };
        w.out.cov.bump("follow_up_commits");
        for &m in &followers {
            if m == m2 {
                continue;
            }
            let g = clones.get_mut(&m).unwrap();
            g.clear_proposal_cache();
            let cm = out2.commit_message.clone();
            match guarded(|| g.process_incoming_message(cm)) {
                Ok(Ok(ReceivedMessage::Commit(_))) => w.out.cov.bump("follow_up_accepted"),
                Ok(Ok(_)) => {}
                Ok(Err(e)) => w.violate(
                    format!("C10|follow_up_commit_rejected|{}|{}", if m == c { "previous_committer" } else { "receiver" }, ek(&format!("{e:?}"))),
                    format!("member {m} rejects the plain add committed by {m2} right after the commit of {c}: {e:?}; {ctx}"),
                ),
                Err(p) => w.violate("C10|panic|follow_up_receive", p),
            }
        }
    }
    Ok(())
}

/// An Add proposal sent by an outsider for itself (sender type new_member_proposal).
fn outsider_add(w: &mut World, clones: &BTreeMap<usize, VGroup>, src: usize) -> Option<MlsMessage> {
    let g = clones.get(&src)?;
    let gi = guarded(|| g.group_info_message_allowing_ext_commit(true)).ok()?.ok()?;
    let prov = w.cfg.provs[w.rng.below(w.cfg.provs.len())];
    let cs = w.suite_of(prov);
    let (sk, pk) = cs.signature_key_generate().ok()?;
    let stores = Stores::new(crate::store::Backend::Mem, 3);
    let name = format!("o{}", w.rng.next() % 1_000_000).into_bytes();
    let (client, _) = make_client(&name, prov, 996, w.cfg.suite, sk, pk, &stores, &VIdent::default(), w.cfg.rules(), None);
    guarded(|| client.external_add_proposal(&gi, None, vec![], Default::default(), Default::default(), None)).ok()?.ok()
}

// ---------------------------------------------------------------------------------------------
// E5: offenders inside somebody else's commit
// ---------------------------------------------------------------------------------------------

fn insider(w: &mut World) -> Result<(), String> {
    let act = w.active();
    if act.len() < 3 {
        return Ok(());
    }
    let c = act[w.rng.below(act.len())];
    let cleaf = w.leaf_of(c);
    let mut kp = KpMaker { bad_names: vec![], last_caps: (false, false) };
    let enc = |p: &Proposal| vh::encode_proposal_by_value(p).ok();
    let mut plans: Vec<(&'static str, Vec<Mutation>)> = vec![];
    let other = *act.iter().find(|m| **m != c).unwrap();
    let oleaf = w.leaf_of(other);
    if let Some(b) = RemoveProposal::removing(cleaf).ok().and_then(|r| enc(&Proposal::Remove(r))) {
        plans.push(("removal_of_committer", vec![Mutation::AppendProposals(vec![b])]));
    }
    if let Some(b) = RemoveProposal::removing(oleaf).ok().and_then(|r| enc(&Proposal::Remove(r))) {
        plans.push(("two_removals_of_one_leaf", vec![Mutation::AppendProposals(vec![b.clone(), b])]));
    }
    if let Some(b) = RemoveProposal::removing(40_000 + w.rng.below(100) as u32).ok().and_then(|r| enc(&Proposal::Remove(r))) {
        plans.push(("removal_of_nonmember", vec![Mutation::AppendProposals(vec![b])]));
    }
    if let Some(b) = enc(&Proposal::GroupContextExtensions(w.random_gce())) {
        plans.push(("more_than_one_group_context_extensions", vec![Mutation::AppendProposals(vec![b.clone(), b])]));
    }
    if let Some(b) = enc(&Proposal::GroupContextExtensions(unsupported_gce(w))) {
        plans.push(("unsupported_required_capabilities", vec![Mutation::AppendProposals(vec![b])]));
    }
    for (flavour, name) in [(1u8, "key_package_wrong_cipher_suite"), (2, "credential_rejected_by_identity_provider")] {
        if let Some(m) = kp.fresh(w, flavour) {
            let mut g = w.g(other).clone();
            if let Ok(Ok(pm)) = guarded(|| g.propose_add(m, vec![])) {
                let mut cg = w.g(c).clone();
                if let Ok(Ok(ReceivedMessage::Proposal(d))) = guarded(|| cg.process_incoming_message(pm)) {
                    if let Some(b) = enc(&d.proposal) {
                        plans.push((name, vec![Mutation::AppendProposals(vec![b])]));
                    }
                }
            }
        }
    }
    // an Update by value, and the same valid Add twice
    {
        let mut g = w.g(other).clone();
        if let Ok(Ok(pm)) = guarded(|| g.propose_update(vec![])) {
            let mut cg = w.g(c).clone();
            if let Ok(Ok(ReceivedMessage::Proposal(d))) = guarded(|| cg.process_incoming_message(pm)) {
                if let Some(b) = enc(&d.proposal) {
                    plans.push(("update_by_value", vec![Mutation::AppendProposals(vec![b])]));
                }
            }
        }
        if let Some(m) = kp.fresh(w, 0) {
            let mut g = w.g(other).clone();
            if let Ok(Ok(pm)) = guarded(|| g.propose_add(m, vec![])) {
                let mut cg = w.g(c).clone();
                if let Ok(Ok(ReceivedMessage::Proposal(d))) = guarded(|| cg.process_incoming_message(pm)) {
                    if let Some(b) = enc(&d.proposal) {
                        plans.push(("duplicate_key_package", vec![Mutation::AppendProposals(vec![b.clone(), b])]));
                    }
                }
            }
        }
        let mut g = w.g(other).clone();
        let id = w.rng.bytes(7);
        if let Ok(Ok(pm)) = guarded(|| g.propose_external_psk(ExternalPskId::new(id), vec![])) {
            let mut cg = w.g(c).clone();
            if let Ok(Ok(ReceivedMessage::Proposal(d))) = guarded(|| cg.process_incoming_message(pm)) {
                if let Some(b) = enc(&d.proposal) {
                    plans.push(("unknown_psk", vec![Mutation::AppendProposals(vec![b])]));
                }
            }
        }
        let keys: Vec<Vec<u8>> = w.psks.keys().cloned().collect();
        if let Some(id) = keys.first().cloned() {
            let mut g = w.g(other).clone();
            if let Ok(Ok(pm)) = guarded(|| g.propose_external_psk(ExternalPskId::new(id), vec![])) {
                let mut cg = w.g(c).clone();
                if let Ok(Ok(ReceivedMessage::Proposal(d))) = guarded(|| cg.process_incoming_message(pm)) {
                    if let Some(b) = enc(&d.proposal) {
                        plans.push(("duplicate_psk_id", vec![Mutation::AppendProposals(vec![b.clone(), b])]));
                    }
                }
            }
        }
        let mut g = w.g(other).clone();
        let suite = CipherSuite::from(w.cfg.suite);
        if let Ok(Ok(pm)) = guarded(|| g.propose_reinit(None, ProtocolVersion::MLS_10, suite, Default::default(), vec![])) {
            let mut cg = w.g(c).clone();
            if let Ok(Ok(ReceivedMessage::Proposal(d))) = guarded(|| cg.process_incoming_message(pm)) {
                if let Some(b) = enc(&d.proposal) {
                    plans.push(("reinit_mixed_with_others", vec![Mutation::AppendProposals(vec![b])]));
                }
            }
        }
    }
    plans.push(("missing_required_path", vec![Mutation::DropUpdatePath]));
    for (name, muts) in plans {
        if !w.rng.chance(2, 3) {
            continue;
        }
        let mut cg = w.g(c).clone();
        cg.clear_pending_commit();
        cg.clear_proposal_cache();
        // the honest part of the commit: nothing, or one custom proposal (so that a ReInit is "mixed")
        let cp = w.custom_proposal(false);
        let with_custom = name == "reinit_mixed_with_others" || w.rng.chance(1, 3);
        vh::set_mutations(muts);
        let r = guarded(|| {
            let mut b = cg.commit_builder();
            if with_custom {
                b = b.custom_proposal(cp);
            }
            b.build()
        });
        let applied = vh::clear_mutations();
        let out = match (r, applied.is_empty()) {
            (Ok(Ok(o)), false) => o,
            _ => {
                w.out.cov.bump(&format!("insider_not_built:{name}"));
                continue;
            }
        };
        for &m in &act {
            if m == c {
                continue;
            }
            let base = w.g(m).clone();
            let mut g = w.g(m).clone();
            g.clear_proposal_cache();
            let base = {
                let mut b = base;
                b.clear_proposal_cache();
                b
            };
            let cm = out.commit_message.clone();
            w.out.cov.eval(Some(fnv(format!("insider|{name}|{with_custom}").as_bytes())));
            match guarded(|| g.process_incoming_message(cm)) {
                Ok(Ok(_)) => w.violate(
                    format!("C10|invalid_set_accepted_from_other_member|{name}"),
                    format!("member {m} accepted a commit of {c} (leaf {cleaf}) whose proposal list breaks {name}"),
                ),
                Ok(Err(e)) => {
                    w.out.cov.bump(&format!("insider_refused:{name}:{}", ek(&format!("{e:?}"))));
                    w.out.cov.bump("insider_refused");
                    let d = residual_diff(w, m, &base, &g);
                    if !d.is_empty() {
                        w.violate(format!("C10|state_changed_by_rejected_commit|{name}|{}", d.join("+")), format!("member {m}: {d:?}"));
                    }
                }
                Err(p) => w.violate(format!("C10|panic|insider|{name}|{}", p.chars().take(60).collect::<String>()), p),
            }
        }
    }
    kp.cleanup(w);
    Ok(())
}
