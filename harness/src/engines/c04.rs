//! C04 — honest-failure scripts (no adversary): rejections caused by a missing PSK, a trimmed
//! prior epoch, the application's identity provider, a storage error, and failing builders.
//! Each runs on clones; the unchanged-state monitor and the follow-up oracle are those of the
//! tamper engine.

use mls_rs::group::verif_hooks as vh;
use mls_rs::group::CommitOutput;
use mls_rs::psk::ExternalPskId;
use mls_rs::{CipherSuite, ExtensionList, MlsMessage, ProtocolVersion};
use serde_json::json;

use super::tamper::Tamper;
use super::Args;
use crate::util::*;
use crate::world::*;

pub fn run(a: &Args) -> ShardOut {
    super::tamper::run(a, true)
}

fn build_on_clone(
    w: &World,
    who: usize,
    f: impl FnOnce(&mut VGroup) -> Result<CommitOutput, mls_rs::error::MlsError>,
) -> Option<(VGroup, CommitOutput)> {
    let mut g = w.g(who).clone();
    if g.has_pending_commit() {
        g.clear_pending_commit();
    }
    match guarded(|| f(&mut g)) {
        Ok(Ok(o)) => Some((g, o)),
        _ => None,
    }
}

/// which epochs `who` can still resolve as resumption PSK (pending inserts/updates + storage)
fn retained_epochs(w: &World, who: usize) -> Vec<u64> {
    let g = w.g(who);
    let rv = vh::repo_view(g);
    let mut v: Vec<u64> = rv
        .inserts
        .iter()
        .chain(rv.updates.iter())
        .map(|e| e.epoch_id())
        .collect();
    let d = w.parties[who].stores.gs.dump(&w.group_id, g.current_epoch());
    v.extend(d.epochs.keys().copied());
    v.sort();
    v.dedup();
    v
}

fn reject_then_check(
    w: &mut World,
    t: &mut Tamper,
    to: usize,
    scenario: &str,
    bad: &MlsMessage,
    next_genuine: Option<&MlsMessage>,
    before_follow_up: impl FnOnce(&mut World),
) {
    let base = w.g(to).clone();
    let mut g = base.clone();
    let m = bad.clone();
    let r = guarded(|| g.process_incoming_message(m));
    match r {
        Ok(Ok(_)) => {
            w.out.cov.bump(&format!("honest_failure_not_rejected:{scenario}"));
            before_follow_up(w);
        }
        Ok(Err(e)) => {
            let k = err_kind(&e).split('/').next().unwrap_or("").to_string();
            w.out.cov.bump(&format!("honest_failure:{scenario}:{k}"));
            w.out.cov.eval(Some(fnv(format!("{scenario}|{k}").as_bytes())));
            before_follow_up(w);
            t.unchanged_and_follow_up(w, to, "commit", scenario, &k, &base, g, next_genuine);
        }
        Err(p) => {
            before_follow_up(w);
            w.violate(format!("C04|panic|honest_failure|{scenario}"), p);
        }
    }
}

pub fn honest_failures(w: &mut World, t: &mut Tamper) {
    let act = w.active();
    if act.len() < 3 {
        return;
    }
    let c = act[0];
    let r = act[1];
    let d = act[2];
    w.log(json!({"op":"honest_failures","committer":c,"receiver":r,"next_committer":d}));

    // the commit the group moves on with after the rejected one was abandoned
    let next = build_on_clone(w, d, |g| g.commit(vec![])).map(|x| x.1.commit_message);

    // (i) external PSK the receiver lacks
    {
        let id = w.new_external_psk();
        if let Some((_, out)) = build_on_clone(w, c, |g| {
            g.commit_builder()
                .add_external_psk(ExternalPskId::new(id.clone()))?
                .build()
        }) {
            let val = w.parties[r].stores.psk.peek(&id);
            w.parties[r].stores.psk.del(&id);
            w.cur_commit = Some((c, vec![]));
            let genuine = out.commit_message.clone();
            let id2 = id.clone();
            reject_then_check(w, t, r, "missing_external_psk", &out.commit_message, Some(&genuine), move |w| {
                if let Some(v) = val {
                    w.parties[r].stores.psk.put(&id2, &v);
                }
            });
        }
    }

    // (ii) resumption PSK of an epoch the receiver no longer retains, with and without path;
    // (iii) the same while the receiver has an identity update of its own pending
    {
        let rc = retained_epochs(w, c);
        let rr = retained_epochs(w, r);
        let cur = w.epoch();
        let cand: Vec<u64> = rc
            .iter()
            .copied()
            .filter(|e| !rr.contains(e) && *e < cur)
            .collect();
        if let Some(&e) = cand.first() {
            let victim = act.iter().copied().find(|i| *i != c && *i != r && *i != d);
            for with_path in [true, false] {
                let vl = victim.map(|v| w.leaf_of(v));
                let built = build_on_clone(w, c, |g| {
                    let mut b = g.commit_builder().add_resumption_psk(e)?;
                    if with_path {
                        if let Some(l) = vl {
                            b = b.remove_member(l)?;
                        }
                    }
                    b.build()
                });
                if let Some((_, out)) = built {
                    w.cur_commit = Some((d, vec![]));
                    let sc = if out.contains_update_path {
                        "trimmed_resumption_epoch_with_path"
                    } else {
                        "trimmed_resumption_epoch_no_path"
                    };
                    reject_then_check(w, t, r, sc, &out.commit_message, next.as_ref(), |_| {});
                }
            }
            // (iii)
            let cs = w.suite_of(w.parties[r].prov);
            use mls_rs::CipherSuiteProvider;
            if let Ok((sk, pk)) = cs.signature_key_generate() {
                let si = mls_rs::identity::SigningIdentity::new(
                    mls_rs::identity::basic::BasicCredential::new(w.parties[r].name.clone()).into_credential(),
                    pk,
                );
                let mut rg = w.g(r).clone();
                if let Ok(Ok(p)) = guarded(|| rg.propose_update_with_identity(sk, si, vec![])) {
                    let mut cg = w.g(c).clone();
                    cg.clear_pending_commit();
                    let pm = p.clone();
                    if guarded(|| cg.process_incoming_message(pm)).map(|x| x.is_ok()) == Ok(true) {
                        if let Ok(Ok(out)) = guarded(|| cg.commit_builder().add_resumption_psk(e)?.build()) {
                            // r (holding its own pending update) rejects; afterwards it must still
                            // sign with the key that is in the tree
                            let base = rg.clone();
                            let mut g = rg.clone();
                            let m = out.commit_message.clone();
                            match guarded(|| g.process_incoming_message(m)) {
                                Ok(Err(e2)) => {
                                    let k = err_kind(&e2).split('/').next().unwrap_or("").to_string();
                                    w.out.cov.bump(&format!("honest_failure:own_identity_update_pending:{k}"));
                                    // the peers move on without the proposal: next commit by d
                                    // (built without r's proposal); r clears its own proposal too
                                    w.cur_commit = Some((d, vec![]));
                                    t.unchanged_and_follow_up(w, r, "commit", "own_identity_update_pending", &k, &base, g, next.as_ref());
                                }
                                Ok(Ok(_)) => w.out.cov.bump("honest_failure_not_rejected:own_identity_update_pending"),
                                Err(p) => w.violate("C04|panic|honest_failure|own_identity_update_pending", p),
                            }
                        }
                    }
                }
            }
        } else {
            w.out.cov.bump("honest_failure_unreachable:trimmed_resumption_epoch");
        }
    }

    // (iv) the application's identity provider rejects the added member
    {
        let x = w.new_party();
        if let Ok(kp) = w.key_package(x) {
            if let Some((_, out)) = build_on_clone(w, c, |g| g.commit_builder().add_member(kp.clone())?.build()) {
                let name = w.parties[x].name.clone();
                w.parties[r].ident.rejected.lock().unwrap().insert(name.clone());
                w.cur_commit = Some((c, vec![]));
                let genuine = out.commit_message.clone();
                reject_then_check(w, t, r, "identity_provider_rejects_added_member", &out.commit_message, Some(&genuine), move |w| {
                    w.parties[r].ident.rejected.lock().unwrap().remove(&name);
                });
            }
        }
    }

    // (v) a storage call fails while the receiver processes a commit (plain and re-init)
    {
        for reinit in [false, true] {
            let suite = w.cfg.suite;
            let built = build_on_clone(w, c, |g| {
                if reinit {
                    g.commit_builder()
                        .reinit(None, ProtocolVersion::MLS_10, CipherSuite::from(suite), ExtensionList::new())?
                        .build()
                } else {
                    g.commit(vec![])
                }
            });
            if let Some((_, out)) = built {
                // count the storage calls of a fault-free run on a clone
                let f = w.parties[r].stores.faults.clone();
                let before = f.calls.load(std::sync::atomic::Ordering::SeqCst);
                {
                    let mut g = w.g(r).clone();
                    let m = out.commit_message.clone();
                    let _ = guarded(|| g.process_incoming_message(m));
                }
                let n = f.calls.load(std::sync::atomic::Ordering::SeqCst) - before;
                for i in 0..n {
                    f.arm(i as i64);
                    w.cur_commit = Some((c, vec![]));
                    let genuine = out.commit_message.clone();
                    let f2 = f.clone();
                    let sc = if reinit { "storage_fault_on_reinit_commit" } else { "storage_fault_on_commit" };
                    reject_then_check(w, t, r, sc, &out.commit_message, Some(&genuine), move |_| f2.disarm());
                    f.disarm();
                }
            }
        }
    }

    // (vi) failing builders leave the member unchanged
    {
        let who = c;
        let existing_kp = {
            // a key package of somebody who is already a member
            let m = act[1];
            w.key_package(m).ok()
        };
        let unknown_psk = w.rng.bytes(8);
        let self_leaf = w.leaf_of(who);
        type B = Box<dyn FnOnce(&mut VGroup) -> Result<(), mls_rs::error::MlsError>>;
        let mut cases: Vec<(&'static str, B)> = vec![];
        if let Some(kp) = existing_kp {
            cases.push(("add_existing_member", Box::new(move |g| g.commit_builder().add_member(kp)?.build().map(|_| ()))));
        }
        cases.push(("unknown_external_psk", Box::new(move |g| {
            g.commit_builder()
                .add_external_psk(ExternalPskId::new(unknown_psk))?
                .build()
                .map(|_| ())
        })));
        cases.push(("two_group_context_extensions", Box::new(|g| {
            g.commit_builder()
                .set_group_context_ext(ExtensionList::new())?
                .set_group_context_ext(ExtensionList::new())?
                .build()
                .map(|_| ())
        })));
        cases.push(("remove_self", Box::new(move |g| g.commit_builder().remove_member(self_leaf)?.build().map(|_| ()))));
        cases.push(("remove_blank_leaf", Box::new(|g| g.commit_builder().remove_member(5_000)?.build().map(|_| ()))));
        cases.push(("resumption_psk_of_future_epoch", Box::new(|g| {
            let e = g.current_epoch() + 7;
            g.commit_builder().add_resumption_psk(e)?.build().map(|_| ())
        })));
        cases.push(("propose_remove_blank_leaf", Box::new(|g| g.propose_remove(5_000, vec![]).map(|_| ()))));
        for (name, f) in cases {
            let base = {
                let mut b = w.g(who).clone();
                b.clear_pending_commit();
                b
            };
            let mut g = base.clone();
            match guarded(|| f(&mut g)) {
                Ok(Err(e)) => {
                    let k = err_kind(&e).split('/').next().unwrap_or("").to_string();
                    w.out.cov.bump(&format!("failed_build:{name}:{k}"));
                    w.out.cov.eval(Some(fnv(format!("failed_build|{name}|{k}").as_bytes())));
                    t.unchanged_and_follow_up(w, who, "failed_build", name, &k, &base, g, None);
                }
                Ok(Ok(())) => w.out.cov.bump(&format!("failed_build_not_refused:{name}")),
                Err(p) => w.violate(format!("C04|panic|failed_build|{name}"), p),
            }
        }
    }
    let _: Option<MlsMessage> = None;
}
