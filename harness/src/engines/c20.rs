//! C20 — tree index arithmetic equals the RFC 9420 Appendix C array-tree definitions.
//!
//! Reference: the left-balanced tree over node indices [0, 2n-2] defined by halving intervals
//! (the root of an interval is its midpoint, children are the midpoints of the two halves);
//! no bit tricks. Every function of the hook re-export is compared with it.

use mls_rs::group::verif_hooks::tree_math as tm;
use serde_json::json;

use super::Args;
use crate::util::*;

/// Interval descent: returns the chain of (lo, hi) intervals from the whole tree down to the
/// interval whose midpoint is `x` (x must be in [0, 2n-2]).
fn chain(n: u64, x: u64) -> Vec<(u64, u64)> {
    let (mut lo, mut hi) = (0u64, 2 * n - 2);
    let mut v = vec![(lo, hi)];
    loop {
        let mid = (lo + hi) / 2;
        if x == mid {
            return v;
        }
        if x < mid {
            hi = mid - 1;
        } else {
            lo = mid + 1;
        }
        v.push((lo, hi));
    }
}

fn mid(iv: (u64, u64)) -> u64 {
    (iv.0 + iv.1) / 2
}

struct Ref {
    root: u64,
    is_leaf: bool,
    left: Option<u64>,
    right: Option<u64>,
    parent_sibling: Option<(u64, u64)>,
    /// (path node, copath node) from the node's parent up to the root
    direct_copath: Vec<(u64, u64)>,
    /// leaf range [l, r) below the node
    subtree: (u64, u64),
}

fn reference(n: u64, x: u64) -> Ref {
    let c = chain(n, x);
    let me = *c.last().unwrap();
    let is_leaf = me.0 == me.1;
    let m = mid(me);
    let (left, right) = if is_leaf {
        (None, None)
    } else {
        (Some(mid((me.0, m - 1))), Some(mid((m + 1, me.1))))
    };
    let mut direct_copath = vec![];
    // walk up: the parent of the midpoint of c[i] is the midpoint of c[i-1]; the sibling is the
    // midpoint of the other half of c[i-1]
    for i in (1..c.len()).rev() {
        let p = c[i - 1];
        let pm = mid(p);
        let child = c[i];
        let sib = if child.1 < pm {
            mid((pm + 1, p.1))
        } else {
            mid((p.0, pm - 1))
        };
        direct_copath.push((pm, sib));
    }
    Ref {
        root: mid((0, 2 * n - 2)),
        is_leaf,
        left,
        right,
        parent_sibling: direct_copath.first().copied(),
        direct_copath,
        subtree: (me.0 / 2, me.1 / 2 + 1),
    }
}

fn bfs_reference(n: u64) -> Vec<u64> {
    let mut level = vec![(0u64, 2 * n - 2)];
    let mut out = vec![];
    while !level.is_empty() {
        let mut next = vec![];
        for iv in &level {
            let m = mid(*iv);
            out.push(m);
            if iv.0 != iv.1 {
                next.push((iv.0, m - 1));
                next.push((m + 1, iv.1));
            }
        }
        level = next;
    }
    out
}

/// level of the lowest common ancestor of two leaves (leaf level = 0), by interval descent
fn lca_level_reference(n: u64, a: u64, b: u64) -> u32 {
    let (mut lo, mut hi) = (0u64, 2 * n - 2);
    loop {
        let size = hi - lo + 1; // 2^(k+1) - 1 for level k
        let m = (lo + hi) / 2;
        let (xa, xb) = (2 * a, 2 * b);
        if lo == hi {
            return 0;
        }
        if xa < m && xb < m {
            hi = m - 1;
        } else if xa > m && xb > m {
            lo = m + 1;
        } else {
            return (size + 1).trailing_zeros() - 1;
        }
    }
}

fn check_node(out: &mut ShardOut, n: u64, x: u64, full: bool) {
    let nn = n as u32;
    let xx = x as u32;
    let in_tree = x <= 2 * n - 2;
    let key = fnv(&[n.to_le_bytes(), x.to_le_bytes()].concat());
    out.cov.eval(Some(key));
    let got_in = match guarded(|| tm::is_in_tree(xx, nn)) {
        Ok(v) => v,
        Err(p) => {
            out.violate("C20", "C20|panic|is_in_tree", format!("n={n} x={x}: {p}"));
            return;
        }
    };
    if got_in != in_tree {
        out.violate(
            "C20",
            format!("C20|is_in_tree|expected_{in_tree}"),
            format!("n={n} x={x}: library says {got_in}"),
        );
    }
    if !in_tree {
        out.cov.bump("outside_nodes");
        match guarded(|| tm::direct_copath(xx, nn)) {
            Ok(p) if p.is_empty() => {}
            Ok(p) => out.violate(
                "C20",
                "C20|outside_node_has_path",
                format!("n={n} x={x}: direct_copath = {p:?}"),
            ),
            Err(p) => out.violate("C20", "C20|panic|direct_copath_outside", format!("n={n} x={x}: {p}")),
        }
        return;
    }
    out.cov.bump("inside_nodes");
    let r = reference(n, x);
    let got = guarded(|| {
        (
            tm::root(nn),
            tm::is_leaf(xx),
            tm::left(xx),
            tm::right(xx),
            tm::parent_sibling(xx, nn),
            tm::direct_copath(xx, nn),
            tm::subtree(xx),
        )
    });
    let (root, is_leaf, left, right, ps, dc, st) = match got {
        Ok(g) => g,
        Err(p) => {
            out.violate("C20", "C20|panic|node_functions", format!("n={n} x={x}: {p}"));
            return;
        }
    };
    let mut bad = |what: &str, exp: String, got: String| {
        out.violate(
            "C20",
            format!("C20|{what}"),
            format!("n={n} x={x}: expected {exp}, library gave {got}"),
        );
    };
    if root as u64 != r.root {
        bad("root", format!("{}", r.root), format!("{root}"));
    }
    if is_leaf != r.is_leaf {
        bad("is_leaf", format!("{}", r.is_leaf), format!("{is_leaf}"));
    }
    if left.map(|v| v as u64) != r.left {
        bad("left", format!("{:?}", r.left), format!("{left:?}"));
    }
    if right.map(|v| v as u64) != r.right {
        bad("right", format!("{:?}", r.right), format!("{right:?}"));
    }
    if ps.map(|(a, b)| (a as u64, b as u64)) != r.parent_sibling {
        bad("parent_sibling", format!("{:?}", r.parent_sibling), format!("{ps:?}"));
    }
    let dc64: Vec<(u64, u64)> = dc.iter().map(|(a, b)| (*a as u64, *b as u64)).collect();
    if dc64 != r.direct_copath {
        bad("direct_copath", format!("{:?}", r.direct_copath), format!("{dc64:?}"));
    }
    if full || x % 2 == 1 {
        if (st.0 as u64, st.1 as u64) != r.subtree {
            bad("subtree", format!("{:?}", r.subtree), format!("{st:?}"));
        }
    }
}

pub fn run(a: &Args) -> ShardOut {
    let mut out = ShardOut::default();
    let mut rng = Rng::derive(a.seed, "C20", a.shard);
    let nsh = a.nshards.max(1);
    // exhaustive part: every power-of-two leaf count 2^0..2^12 (thorough: 2^20), every node index in [0, 2n]
    let emax = if a.thorough { 20u32 } else { 12 };
    for e in 0..=emax {
        if (e as u64) % nsh != a.shard % nsh {
            continue;
        }
        let n = 1u64 << e;
        for x in 0..=(2 * n) {
            check_node(&mut out, n, x, true);
        }
        out.cov.bump("sizes_exhaustive");
        // bfs order
        match guarded(|| tm::bfs_top_down(n as usize)) {
            Ok(v) => {
                let r = bfs_reference(n);
                out.cov.eval(Some(fnv(format!("bfs{n}").as_bytes())));
                if v.iter().map(|x| *x as u64).collect::<Vec<_>>() != r {
                    out.violate(
                        "C20",
                        "C20|bfs_order",
                        format!("n={n}: expected {:?}.., got {:?}..", &r[..r.len().min(12)], &v[..v.len().min(12)]),
                    );
                }
            }
            Err(p) => out.violate("C20", "C20|panic|bfs", format!("n={n}: {p}")),
        }
        // LCA level: all leaf pairs up to 2^9 (thorough: 2^11), sampled above
        let all_pairs = e <= if a.thorough { 12 } else { 9 };
        let mut pair = |out: &mut ShardOut, x: u64, y: u64| {
            let exp = lca_level_reference(n, x, y);
            match guarded(|| tm::leaf_lca_level(x as u32, y as u32)) {
                Ok(g) => {
                    if g != exp {
                        out.violate(
                            "C20",
                            "C20|leaf_lca_level",
                            format!("n={n} leaves {x},{y}: expected {exp}, library gave {g}"),
                        );
                    }
                }
                Err(p) => out.violate("C20", "C20|panic|leaf_lca_level", format!("{x},{y}: {p}")),
            }
            out.cov.evaluations += 1;
        };
        if all_pairs {
            for x in 0..n {
                for y in x..n {
                    pair(&mut out, x, y);
                }
            }
            out.cov.add("lca_pairs_exhaustive_sizes", 1);
        } else {
            for _ in 0..200_000 {
                let x = rng.next() % n;
                let y = rng.next() % n;
                pair(&mut out, x, y);
            }
        }
    }
    // sampled part: sizes up to the 2^24 leaf limit, indices around every level boundary
    for e in (emax + 1)..=24u32 {
        if (e as u64) % nsh != a.shard % nsh {
            continue;
        }
        let n = 1u64 << e;
        let top = 2 * n - 2;
        let mut xs: Vec<u64> = vec![0, 1, 2, top, top - 1, top + 1, top + 2, n - 1, n, n - 2];
        for l in 0..=e {
            // nodes of level l are (2^l - 1) + k * 2^(l+1)
            let first = (1u64 << l) - 1;
            let step = 1u64 << (l + 1);
            let count = (top - first) / step + 1;
            for k in [0, 1, count / 2, count.saturating_sub(2), count - 1] {
                if k < count {
                    xs.push(first + k * step);
                }
            }
            for _ in 0..(if a.thorough { 400 } else { 40 }) {
                xs.push(first + (rng.next() % count) * step);
            }
        }
        for x in xs {
            check_node(&mut out, n, x, false);
        }
        for _ in 0..(if a.thorough { 200_000 } else { 20_000 }) {
            let x = rng.next() % n;
            let y = rng.next() % n;
            let exp = lca_level_reference(n, x, y);
            if let Ok(g) = guarded(|| tm::leaf_lca_level(x as u32, y as u32)) {
                if g != exp {
                    out.violate("C20", "C20|leaf_lca_level", format!("n={n} leaves {x},{y}: expected {exp}, got {g}"));
                }
            }
            out.cov.evaluations += 1;
        }
        out.cov.bump("sizes_sampled");
    }
    // leaf index bound 2^24 - 1
    if a.shard % nsh == 0 {
        for (x, exp) in [
            (0u32, true),
            ((1 << 24) - 2, true),
            ((1 << 24) - 1, true),
            (1 << 24, false),
            ((1 << 24) + 1, false),
            (u32::MAX, false),
        ] {
            let g = tm::leaf_index_try_from(x);
            out.cov.eval(Some(fnv(&x.to_le_bytes())));
            if g != exp {
                out.violate("C20", "C20|leaf_index_bound", format!("LeafIndex::try_from({x}) ok={g}, expected {exp}"));
            }
        }
    }
    out.cov.sample(json!({"n": 8, "x": 3, "reference": {"root": reference(8,3).root, "parent_sibling": reference(8,3).parent_sibling, "direct_copath": reference(8,3).direct_copath, "subtree": reference(8,3).subtree}}));
    out.cov.sample(json!({"n": 4096, "x": 4095, "bfs_prefix": bfs_reference(8)}));
    out
}
