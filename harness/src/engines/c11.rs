//! C11 — pending commits do not change the group until applied; one successor per epoch.
//!
//! A small reference model per member (pending: none | some, epoch) predicts the result of every
//! operation of a racing round (build, detached build, clear, apply, detached apply, own echo,
//! foreign commit, stale commit); results, `has_pending_commit`, `current_epoch` and the state
//! diff are compared with the prediction. For up to three racers every choice of winner is
//! resolved on clones and checked; one of them is then performed for real.

use mls_rs::group::verif_hooks as vh;
use mls_rs::group::{CommitOutput, CommitSecrets, ReceivedMessage};
use mls_rs::MlsMessage;
use serde_json::json;

use super::Args;
use crate::driver::*;
use crate::util::*;
use crate::world::*;

struct Built {
    who: usize,
    out: CommitOutput,
    /// Some for detached commits
    secrets: Option<CommitSecrets>,
    epoch: u64,
}

fn ek<E: std::fmt::Debug>(e: &E) -> String {
    err_kind(e).split('/').next().unwrap_or("").to_string()
}

/// allowed differences between the state before and after building a commit
fn build_diff_ok(d: &[&'static str], detached: bool, encrypted: bool) -> bool {
    d.iter().all(|x| match *x {
        "pending_commit" => !detached,
        // the committer's own handshake ratchet advances when control messages are encrypted
        "epoch_secrets" => encrypted,
        _ => false,
    })
}

pub fn run(a: &Args) -> ShardOut {
    let mut total = ShardOut::default();
    let (histories, rounds) = if a.thorough { (60, 25) } else { (14, 14) };
    for h in 0..histories {
        if let Some(only) = super::only_history() {
            if only != h {
                continue;
            }
        }
        let mut rng = Rng::derive(a.seed, "C11", a.shard * 10_000 + h);
        let mut cfg = WorldCfg::draw(&mut rng, a.thorough);
        cfg.max_members = cfg.max_members.min(6);
        let mut w = World::new(cfg.clone(), rng, "C11");
        let res = history(&mut w, rounds);
        if let Err(e) = res {
            if e.contains("PANIC") && panic_in_repo(&e) {
                w.violate(format!("C11|panic|{}", e.chars().take(90).collect::<String>()), e);
            } else {
                w.out.inconclusive.push(format!("history {h}: {e}"));
            }
        }
        w.out.cov.bump("histories");
        w.out.cov.sample(json!({"cfg": cfg.to_json(), "first_ops": w.script.iter().take(20).cloned().collect::<Vec<_>>()}));
        total.cov.merge(&w.out.cov);
        total.violations.extend(w.out.violations.drain(..));
        total.inconclusive.extend(w.out.inconclusive.drain(..));
    }
    total
}

fn history(w: &mut World, rounds: u64) -> Result<(), String> {
    let n0 = w.rng.range(2, 5);
    w.bootstrap(n0, &mut NoHooks)?;
    let dc = DriveCfg::default();
    for _ in 0..rounds {
        let act = w.active();
        if act.len() < 2 {
            break;
        }
        // a few proposals so that commits are not all empty
        let np = w.rng.below(3);
        for _ in 0..np {
            let by = act[w.rng.below(act.len())];
            if let Some(k) = w.draw_prop(by, &dc) {
                if let Ok(m) = w.propose(by, &k) {
                    for to in w.active().into_iter().filter(|i| *i != by) {
                        w.deliver(to, &m).map_err(|e| format!("honest proposal rejected: {e}"))?;
                    }
                }
            }
        }
        race_round(w)?;
    }
    Ok(())
}

fn race_round(w: &mut World) -> Result<(), String> {
    let act = w.active();
    let epoch = w.epoch();
    let encrypted = w.cfg.encrypt_controls;
    let nr = w.rng.range(1, 3.min(act.len()));
    let mut racers = act.clone();
    w.rng.shuffle(&mut racers);
    racers.truncate(nr);
    w.log(json!({"op":"race","racers":racers,"epoch":epoch}));
    let mut built: Vec<Built> = vec![];
    for &r in &racers {
        let detached = w.rng.chance(1, 3);
        let before = w.g(r).clone();
        w.out.cov.eval(Some(fnv(format!("build|{detached}|{encrypted}|{}|{}|{}|{}|{}", before.has_pending_commit(), racers.len(), act.len().min(8), before.get_cached_proposals().len().min(3), w.cfg.suite).as_bytes())));
        // the model: no pending commit yet in this epoch
        let res = {
            let g = w.gm(r);
            if detached {
                guarded(|| g.commit_detached(vec![]).map(|(o, s)| (o, Some(s))))
            } else {
                guarded(|| g.commit(vec![]).map(|o| (o, None)))
            }
        };
        let (out, secrets) = match res {
            Ok(Ok(x)) => x,
            Ok(Err(e)) => {
                w.violate(format!("C11|build_refused|{}", ek(&e)), format!("member {r} cannot build a commit in epoch {epoch} without a pending one: {e:?}"));
                continue;
            }
            Err(p) => return Err(format!("PANIC in commit build: {p}")),
        };
        w.out.cov.bump(if detached { "built_detached" } else { "built_pending" });
        // effects of building
        let d = vh::state_diff(&before, w.g(r));
        if !build_diff_ok(&d, detached, encrypted) {
            w.violate(
                format!("C11|build_changed_state|{}|{}", if detached { "detached" } else { "pending" }, d.join("+")),
                format!("member {r}: building a commit changed {d:?}"),
            );
        }
        if w.g(r).current_epoch() != epoch {
            w.violate("C11|build_advanced_epoch", format!("member {r} is at {} after building in {epoch}", w.g(r).current_epoch()));
        }
        if w.g(r).has_pending_commit() == detached {
            w.violate(
                format!("C11|pending_flag_after_build|{}", if detached { "detached" } else { "pending" }),
                format!("member {r}: has_pending_commit = {}", w.g(r).has_pending_commit()),
            );
        }
        // a second build must be refused while one is pending (and must not disturb it)
        if !detached {
            let snap = w.g(r).clone();
            let g = w.gm(r);
            match guarded(|| g.commit(vec![]).map(|_| ())) {
                Ok(Err(e)) if ek(&e) == "ExistingPendingCommit" => {
                    w.out.cov.bump("second_build_refused");
                    let d = vh::state_diff(&snap, w.g(r));
                    if !d.is_empty() {
                        w.violate(format!("C11|refused_build_changed_state|{}", d.join("+")), format!("member {r}"));
                    }
                }
                Ok(Err(e)) => w.violate(format!("C11|second_build_wrong_error|{}", ek(&e)), format!("member {r}: {e:?}")),
                Ok(Ok(())) => w.violate("C11|two_pending_commits", format!("member {r} built a second commit while one was pending")),
                Err(p) => return Err(format!("PANIC in second commit build: {p}")),
            }
            // clear + rebuild works (on a clone, the real pending commit stays)
            let mut c = w.g(r).clone();
            c.clear_pending_commit();
            if c.has_pending_commit() {
                w.violate("C11|clear_did_not_clear", format!("member {r}"));
            }
            match guarded(|| c.commit(vec![]).map(|_| ())) {
                Ok(Ok(())) => w.out.cov.bump("rebuild_after_clear_ok"),
                Ok(Err(e)) => w.violate(format!("C11|cannot_build_after_clear|{}", ek(&e)), format!("member {r}: {e:?}")),
                Err(p) => return Err(format!("PANIC: {p}")),
            }
        }
        let was_detached = secrets.is_some();
        built.push(Built {
            who: r,
            out,
            secrets,
            epoch,
        });
        // a member may hold a detached commit AND a pending one for the same epoch
        if was_detached && w.rng.chance(1, 2) {
            let g = w.gm(r);
            if let Ok(Ok(out2)) = guarded(|| g.commit(vec![])) {
                w.out.cov.bump("built_pending_next_to_detached");
                built.push(Built {
                    who: r,
                    out: out2,
                    secrets: None,
                    epoch,
                });
            }
        }
    }
    // every member (racer or not) can still read traffic of the current epoch
    {
        let act = w.active();
        let s = act[w.rng.below(act.len())];
        let mut sg = w.g(s).clone();
        sg.clear_proposal_cache();
        if let Ok(Ok(m)) = guarded(|| sg.encrypt_application_message(b"during-race", vec![])) {
            for &to in act.iter().filter(|i| **i != s) {
                let mut g = w.g(to).clone();
                let mm = m.clone();
                w.out.cov.eval(Some(fnv(format!("read_during_race|{}", w.g(to).has_pending_commit()).as_bytes())));
                match guarded(|| g.process_incoming_message(mm)) {
                    Ok(Ok(ReceivedMessage::ApplicationMessage(_))) => w.out.cov.bump("read_with_pending_ok"),
                    Ok(Ok(_)) => {}
                    Ok(Err(e)) => w.violate(
                        format!("C11|cannot_read_current_epoch|pending={}|{}", w.g(to).has_pending_commit(), ek(&e)),
                        format!("member {to} cannot read a message of epoch {epoch}: {e:?}"),
                    ),
                    Err(p) => return Err(format!("PANIC: {p}")),
                }
            }
        }
    }
    if built.is_empty() {
        return Ok(());
    }
    // resolve every choice of winner on clones
    let act = w.active();
    for wi in 0..built.len() {
        let mut clones: Vec<(usize, VGroup)> = act.iter().map(|i| (*i, w.g(*i).clone())).collect();
        resolve(w, &mut clones, &built, wi, false)?;
        w.out.cov.bump("winner_orders_resolved");
    }
    // and one for real
    let wi = w.rng.below(built.len());
    let mut real: Vec<(usize, VGroup)> = act
        .iter()
        .map(|i| (*i, w.parties[*i].group.take().expect("group")))
        .collect();
    let r = resolve(w, &mut real, &built, wi, true);
    for (i, g) in real {
        w.parties[i].group = Some(g);
    }
    r?;
    // members the winning commit removed are out
    let now = w.active().iter().map(|i| w.g(*i).current_epoch()).max().unwrap_or(0);
    for i in w.active() {
        if w.g(i).current_epoch() < now {
            w.retire(i, Status::Outside);
        }
    }
    // joiners (by-reference adds that were committed)
    let winner = &built[wi];
    let cands: Vec<usize> = w
        .parties
        .iter()
        .filter(|p| p.status == Status::Outside && !p.key_packages.is_empty())
        .map(|p| p.id)
        .collect();
    for pid in cands {
        if w.addressed_by(pid, &winner.out.welcome_messages) {
            match w.join_from_welcomes(pid, &winner.out.welcome_messages, winner.out.ratchet_tree.clone()) {
                Ok(()) => {
                    w.parties[pid].joined_epoch = epoch + 1;
                    w.parties[pid].key_packages.clear();
                }
                Err(_) => {
                    w.parties[pid].key_packages.clear();
                    w.parties[pid].status = Status::Ghost;
                }
            }
        }
    }
    w.apps.clear();
    Ok(())
}

/// The delivery service picked `built[wi]`: the winner applies (pending / echo / detached), all
/// others receive it (losers with or without clearing first), stale commits are then offered.
fn resolve(w: &mut World, gs: &mut Vec<(usize, VGroup)>, built: &[Built], wi: usize, real: bool) -> Result<(), String> {
    let winner = &built[wi];
    let epoch = winner.epoch;
    let probes = w.export_probes.clone();
    let msg: &MlsMessage = &winner.out.commit_message;
    let mode = w.rng.below(2);
    for (i, g) in gs.iter_mut() {
        let is_winner = *i == winner.who;
        let racer = built.iter().find(|b| b.who == *i);
        w.out.cov.eval(Some(fnv(format!("resolve|{is_winner}|{}|{}|{mode}|{}|{}", racer.is_some(), racer.map(|r| r.secrets.is_some()).unwrap_or(false), built.len(), w.cfg.suite).as_bytes())));
        if is_winner {
            let res = if let Some(s) = &winner.secrets {
                let s = s.clone();
                guarded(|| g.apply_detached_commit(s).map(|_| ()))
            } else if mode == 0 {
                guarded(|| g.apply_pending_alt().map(|_| ()))
            } else {
                let m = msg.clone();
                guarded(|| g.process_incoming_message(m).map(|_| ()))
            };
            match res {
                Ok(Ok(())) => {}
                Ok(Err(e)) => {
                    w.violate(
                        format!("C11|winner_cannot_apply|{}|{}", if winner.secrets.is_some() { "detached" } else if mode == 0 { "pending" } else { "echo" }, ek(&e)),
                        format!("member {i}: {e:?}"),
                    );
                    continue;
                }
                Err(p) => return Err(format!("PANIC applying own commit: {p}")),
            }
        } else {
            // a losing racer either clears first or just receives
            if racer.is_some() && w.rng.chance(1, 2) {
                g.clear_pending_commit();
            }
            let m = msg.clone();
            match guarded(|| g.process_incoming_message(m)) {
                Ok(Ok(ReceivedMessage::Commit(_))) => {}
                Ok(Ok(_)) => w.violate("C11|commit_receipt_wrong_event", format!("member {i}")),
                Ok(Err(e)) => {
                    w.violate(format!("C11|foreign_commit_refused|racer={}|{}", racer.is_some(), ek(&e)), format!("member {i}: {e:?}"));
                    continue;
                }
                Err(p) => return Err(format!("PANIC receiving commit: {p}")),
            }
        }
        if g.has_pending_commit() && g.current_epoch() == epoch + 1 {
            w.violate(
                format!("C11|pending_survives_epoch_change|winner={is_winner}|detached_winner={}", winner.secrets.is_some()),
                format!("member {i} still has a pending commit after moving to epoch {}", g.current_epoch()),
            );
        }
    }
    // agreement of everybody who advanced
    let mut reference: Option<(usize, Obs)> = None;
    for (i, g) in gs.iter() {
        if g.current_epoch() != epoch + 1 {
            // removed by the commit: stays behind
            continue;
        }
        match observe(g, &probes) {
            Ok(o) => match &reference {
                None => reference = Some((*i, o)),
                Some((j, r)) => {
                    let d = obs_diff(r, &o);
                    w.out.cov.bump("agreement_checked");
                    if !d.is_empty() {
                        w.violate(format!("C11|disagree_after_resolution|{}", d.join("+")), format!("member {i} vs member {j}: {d:?}"));
                    }
                }
            },
            Err(e) => w.violate("C11|observe_failed", format!("member {i}: {e}")),
        }
    }
    // stale commits: every other built commit of the old epoch, and the losers' detached secrets
    for (bi, b) in built.iter().enumerate() {
        if bi == wi {
            continue;
        }
        for (i, g) in gs.iter_mut() {
            if g.current_epoch() != epoch + 1 {
                continue;
            }
            let before = g.clone();
            let m = b.out.commit_message.clone();
            w.out.cov.eval(Some(fnv(format!("stale_commit|{}", *i == b.who).as_bytes())));
            match guarded(|| g.process_incoming_message(m)) {
                Ok(Err(_)) => {
                    w.out.cov.bump("stale_commit_refused");
                    let d = vh::state_diff(&before, g);
                    let d: Vec<_> = d.into_iter().filter(|x| *x != "epoch_secrets" || vh::epoch_secrets_equiv(&before, g, 6).is_some()).collect();
                    if !d.is_empty() {
                        w.violate(format!("C11|stale_commit_changed_state|{}", d.join("+")), format!("member {i}"));
                        *g = before;
                    }
                }
                Ok(Ok(_)) => {
                    w.violate(
                        format!("C11|commit_for_other_epoch_accepted|own={}", *i == b.who),
                        format!("member {i} at epoch {} accepted a commit built for epoch {}", before.current_epoch(), b.epoch),
                    );
                    *g = before;
                }
                Err(p) => return Err(format!("PANIC on stale commit: {p}")),
            }
            if *i == b.who {
                if let Some(s) = &b.secrets {
                    let before = g.clone();
                    let s = s.clone();
                    w.out.cov.eval(Some(fnv(b"stale_detached")));
                    match guarded(|| g.apply_detached_commit(s).map(|_| ())) {
                        Ok(Err(_)) => {
                            w.out.cov.bump("stale_detached_refused");
                            let d = vh::state_diff(&before, g);
                            if !d.is_empty() {
                                w.violate(format!("C11|stale_detached_changed_state|{}", d.join("+")), format!("member {i}"));
                                *g = before;
                            }
                        }
                        Ok(Ok(())) => {
                            w.violate(
                                "C11|stale_detached_commit_applied",
                                format!("member {i} at epoch {} applied a detached commit built for epoch {} (now at {})", before.current_epoch(), b.epoch, g.current_epoch()),
                            );
                            *g = before;
                        }
                        Err(p) => return Err(format!("PANIC on stale detached commit: {p}")),
                    }
                }
            }
        }
    }
    // applying with nothing pending is refused
    if let Some((i, g)) = gs.iter_mut().find(|(_, g)| g.current_epoch() == epoch + 1) {
        let before = g.clone();
        match guarded(|| g.apply_pending_alt().map(|_| ())) {
            Ok(Err(e)) if ek(&e) == "PendingCommitNotFound" => w.out.cov.bump("apply_without_pending_refused"),
            Ok(Err(e)) => w.violate(format!("C11|apply_without_pending_wrong_error|{}", ek(&e)), format!("member {i}")),
            Ok(Ok(())) => {
                w.violate("C11|apply_without_pending_succeeded", format!("member {i} moved from {} to {}", before.current_epoch(), g.current_epoch()));
                *g = before;
            }
            Err(p) => return Err(format!("PANIC: {p}")),
        }
    }
    let _ = real;
    Ok(())
}
