//! C18 — a PSK commit binds the new epoch to knowledge of the PSKs.
//!
//! The history moves a group through epochs while members write / reload their storage at
//! different moments (so each member retains a different set of past epochs, tracked by the C19
//! retention model) and members join late. At every epoch a number of *trials* run on clones of
//! all members: a list of 1..5 PSKs (external and resumption, by value and by reference, any
//! order), an assignment member -> {committer's value, another value, nothing} per external PSK,
//! resumption epochs at the boundary of the members' retention and join epochs. Expected: exactly
//! the members holding the committer's value for every PSK accept and agree with the committer
//! on everything observable; everybody else rejects, is unchanged, and can still follow an
//! alternative commit; a joiner added by the same commit needs the same PSKs for its Welcome; an
//! external committer that injects a PSK is followed exactly by the holders.
//! Pure part: changing value / id / nonce / order / multiplicity of any PSK changes every secret
//! that RFC 9420 derives after the PSK is folded in (everything but the joiner secret).

use std::collections::{BTreeMap, BTreeSet};

use mls_rs::group::proposal::Proposal;
use mls_rs::group::verif_hooks as vh;
use mls_rs::group::verif_hooks::kdf::PskIn;
use mls_rs::group::{CommitEffect, ReceivedMessage};
use mls_rs::psk::ExternalPskId;
use mls_rs::MlsMessage;
use serde_json::json;

use super::tamper::residual_diff;
use super::Args;
use crate::anycrypto::{AnyCrypto, Prov};
use crate::driver::*;
use crate::util::*;
use crate::world::*;

#[derive(Default, Clone)]
struct Model {
    pending: BTreeSet<u64>,
    stored: BTreeSet<u64>,
}

impl Model {
    fn holds(&self, e: u64, cur: u64) -> bool {
        e == cur || self.pending.contains(&e) || self.stored.contains(&e)
    }
}

#[derive(Clone, Copy, PartialEq, Eq, Debug)]
enum Hold {
    Same,
    Other,
    Missing,
}

#[derive(Clone, Debug)]
enum Item {
    External { id: Vec<u8>, same: Vec<u8>, other: Vec<u8> },
    Resumption { epoch: u64 },
}

fn ek(e: &str) -> String {
    e.split('(').next().unwrap_or(e).chars().take(50).collect()
}

pub fn run(a: &Args) -> ShardOut {
    let mut total = ShardOut::default();
    let (histories, rounds, trials) = if a.thorough { (40, 16, 8) } else { (10, 10, 5) };
    for h in 0..histories {
        if let Some(only) = super::only_history() {
            if only != h {
                continue;
            }
        }
        let mut rng = Rng::derive(a.seed, "C18", a.shard * 10_000 + h);
        let mut cfg = WorldCfg::draw(&mut rng, a.thorough);
        cfg.max_members = cfg.max_members.clamp(4, 7);
        cfg.retention = [1, 2, 3, 5][((a.shard + h) % 4) as usize];
        cfg.allow_external_commit = true;
        let mut w = World::new(cfg.clone(), rng, "C18");
        if let Err(e) = history(&mut w, rounds, trials) {
            if e.contains("PANIC") && panic_in_repo(&e) {
                w.violate(format!("C18|panic|{}", e.chars().take(90).collect::<String>()), e);
            } else {
                w.out.inconclusive.push(format!("history {h}: {e}"));
            }
        }
        w.out.cov.bump("histories");
        w.out.cov.sample(json!({"cfg": cfg.to_json(), "first_ops": w.script.iter().take(20).cloned().collect::<Vec<_>>()}));
        total.cov.merge(&w.out.cov);
        total.violations.extend(w.out.violations.drain(..));
        total.inconclusive.extend(w.out.inconclusive.drain(..));
    }
    pure(a, &mut total);
    total
}

fn write(w: &mut World, models: &mut BTreeMap<usize, Model>, who: usize) -> Result<(), String> {
    let r = w.cfg.retention as usize;
    {
        let g = w.gm(who);
        match guarded(|| g.write_to_storage()) {
            Ok(Ok(())) => {}
            Ok(Err(e)) => return Err(format!("write_to_storage: {e:?}")),
            Err(p) => return Err(format!("PANIC in write_to_storage: {p}")),
        }
    }
    let m = models.entry(who).or_default();
    let mut all: Vec<u64> = m.stored.union(&m.pending).copied().collect();
    all.sort();
    m.stored = all.iter().rev().take(r).copied().collect();
    m.pending.clear();
    Ok(())
}

struct NoReload;
impl Hooks for NoReload {
    fn allow_reload(&self) -> bool {
        false
    }
}

fn history(w: &mut World, rounds: u64, trials: usize) -> Result<(), String> {
    let n0 = w.rng.range(3, 5);
    w.bootstrap(n0, &mut NoReload)?;
    let mut models: BTreeMap<usize, Model> = BTreeMap::new();
    for i in w.active() {
        let cur = w.g(i).current_epoch();
        let d = w.parties[i].stores.gs.dump(&w.group_id, cur + 2);
        let vr = vh::repo_view(w.g(i));
        models.insert(
            i,
            Model {
                stored: d.epochs.keys().copied().collect(),
                pending: vr.inserts.iter().map(|e| e.epoch_id()).collect(),
            },
        );
    }
    for round in 0..rounds {
        if w.active().len() < 2 {
            break;
        }
        for t in 0..trials {
            // every shape regularly, the rest random
            let shape = match (round as usize * trials + t) % 6 {
                0 => Shape::AllHold,
                1 => Shape::Mixed,
                2 => Shape::CommitterLacks,
                3 => Shape::External,
                4 => Shape::ForeignGroup,
                _ => {
                    if w.rng.chance(1, 3) {
                        Shape::AllHold
                    } else {
                        Shape::Mixed
                    }
                }
            };
            trial(w, &models, shape)?;
        }
        evolve(w, &mut models)?;
    }
    Ok(())
}

#[derive(Clone, Copy, PartialEq, Eq, Debug)]
enum Shape {
    AllHold,
    Mixed,
    CommitterLacks,
    External,
    ForeignGroup,
}

/// One epoch of honest history without PSKs; members write / reload at different moments.
fn evolve(w: &mut World, models: &mut BTreeMap<usize, Model>) -> Result<(), String> {
    let act = w.active();
    let mut props: Vec<(usize, MlsMessage)> = vec![];
    let np = w.rng.below(3);
    for _ in 0..np {
        let by = act[w.rng.below(act.len())];
        let k = match w.rng.below(4) {
            0 if w.active().len() < w.cfg.max_members => {
                let p = w.new_party();
                w.key_package(p).ok().map(PropKind::Add)
            }
            1 if act.len() > 3 => {
                let others: Vec<usize> = act.iter().copied().filter(|i| *i != by).collect();
                let t = others[w.rng.below(others.len())];
                Some(PropKind::Remove(w.leaf_of(t)))
            }
            _ => Some(PropKind::Update),
        };
        let Some(k) = k else { continue };
        if let Ok(m) = w.propose(by, &k) {
            props.push((by, m));
        }
    }
    for to in w.active() {
        for (by, m) in &props {
            if *by != to {
                w.deliver(to, m).map_err(|e| format!("honest proposal rejected by {to}: {e}"))?;
            }
        }
    }
    let act = w.active();
    let c = act[w.rng.below(act.len())];
    let before: BTreeMap<usize, u64> = w.active().into_iter().map(|i| (i, w.g(i).current_epoch())).collect();
    let info = w.commit_round(
        vec![CommitPlan {
            committer: c,
            ..Default::default()
        }],
        &mut NoReload,
    )?;
    if info.is_none() {
        for i in w.active() {
            w.gm(i).clear_proposal_cache();
        }
        return Ok(());
    }
    for i in w.active() {
        let now = w.g(i).current_epoch();
        match before.get(&i) {
            Some(b) if *b < now => {
                models.entry(i).or_default().pending.insert(*b);
            }
            None => {
                models.insert(i, Model::default());
                w.out.cov.bump("late_joiner");
            }
            _ => {}
        }
    }
    let gone: Vec<usize> = models.keys().copied().filter(|i| !w.active().contains(i)).collect();
    for g in gone {
        models.remove(&g);
    }
    // storage maintenance at member-specific moments
    for i in w.active() {
        match w.rng.below(5) {
            0 | 1 => {
                write(w, models, i)?;
                w.out.cov.bump("member_wrote");
            }
            2 => {
                write(w, models, i)?;
                w.write_and_reload(i)?;
                w.out.cov.bump("member_reloaded");
            }
            _ => {}
        }
    }
    Ok(())
}

fn why_not(holds: &[(Hold, &Item)], joined: u64) -> &'static str {
    for (h, it) in holds {
        match (h, it) {
            (Hold::Missing, Item::External { .. }) => return "external_psk_missing",
            (Hold::Other, Item::External { .. }) => return "external_psk_other_value",
            (Hold::Missing, Item::Resumption { epoch }) if *epoch < joined => return "resumption_epoch_before_join",
            (Hold::Missing, Item::Resumption { .. }) => return "resumption_epoch_trimmed",
            _ => {}
        }
    }
    "holds_all"
}

fn trial(w: &mut World, models: &BTreeMap<usize, Model>, shape: Shape) -> Result<(), String> {
    let act = w.active();
    if act.len() < 2 {
        return Ok(());
    }
    let cur = w.epoch();
    let c = act[w.rng.below(act.len())];
    let r = w.cfg.retention;
    let empty = Model::default();
    let cm = models.get(&c).unwrap_or(&empty).clone();
    // ---- the PSK list
    let n = if shape == Shape::External { w.rng.range(1, 3) } else { w.rng.range(1, 5) };
    let mut items: Vec<Item> = vec![];
    let mut by_ref: Vec<Option<usize>> = vec![];
    for _ in 0..n {
        let ext = shape == Shape::External || w.rng.chance(1, 2);
        if ext {
            // (distinct ids within a trial: the stores are keyed by id)
            let id = loop {
                let idlen = w.rng.range(1, 20);
                let id = w.rng.bytes(idlen);
                if !items.iter().any(|i| matches!(i, Item::External { id: other, .. } if *other == id)) {
                    break id;
                }
            };
            items.push(Item::External {
                id,
                same: {
                    let l = w.rng.range(1, 64);
                    w.rng.bytes(l)
                },
                other: {
                    let l = w.rng.range(1, 64);
                    w.rng.bytes(l)
                },
            });
        } else {
            // epochs around everybody's retention boundary; must be one the committer holds
            let lo = cur.saturating_sub(r + 3);
            let cands: Vec<u64> = (lo..=cur).filter(|e| cm.holds(*e, cur)).collect();
            let e = cands[w.rng.below(cands.len())];
            items.push(Item::Resumption { epoch: e });
        }
        by_ref.push(if shape != Shape::External && w.rng.chance(1, 2) { Some(act[w.rng.below(act.len())]) } else { None });
    }
    // ---- who holds what
    let mut hold: BTreeMap<usize, Vec<Hold>> = BTreeMap::new();
    for &m in &act {
        let mm = models.get(&m).unwrap_or(&empty);
        let mut v = vec![];
        for it in &items {
            v.push(match it {
                Item::External { .. } => {
                    if m == c || shape == Shape::AllHold {
                        Hold::Same
                    } else {
                        match w.rng.below(8) {
                            0 => Hold::Other,
                            1 => Hold::Missing,
                            _ => Hold::Same,
                        }
                    }
                }
                Item::Resumption { epoch } => {
                    if mm.holds(*epoch, cur) {
                        if m != c {
                            w.out.cov.bump(if *epoch == cur {
                                "receiver_holds:current_epoch"
                            } else if mm.pending.contains(epoch) {
                                "receiver_holds:unwritten_past_epoch"
                            } else {
                                "receiver_holds:stored_past_epoch"
                            });
                        }
                        Hold::Same
                    } else {
                        Hold::Missing
                    }
                }
            });
        }
        hold.insert(m, v);
    }
    let install = |w: &World, who: usize, holds: &[Hold]| {
        for (it, h) in items.iter().zip(holds.iter()) {
            if let Item::External { id, same, other } = it {
                match h {
                    Hold::Same => w.parties[who].stores.psk.put(id, same),
                    Hold::Other => w.parties[who].stores.psk.put(id, other),
                    Hold::Missing => w.parties[who].stores.psk.del(id),
                }
            }
        }
    };
    for &m in &act {
        install(w, m, &hold[&m]);
    }
    let cleanup = |w: &World| {
        for p in &w.parties {
            for it in &items {
                if let Item::External { id, .. } = it {
                    p.stores.psk.del(id);
                }
            }
        }
    };
    w.log(json!({"op":"psk_trial","shape":format!("{shape:?}"),"committer":c,"epoch":cur,
        "items": items.iter().zip(by_ref.iter()).map(|(i, b)| match i { Item::External{..} => json!({"external":true,"by_ref":b}), Item::Resumption{epoch} => json!({"resumption":epoch,"by_ref":b}) }).collect::<Vec<_>>(),
        "holds": hold.iter().map(|(m, v)| json!([m, format!("{v:?}")])).collect::<Vec<_>>() }));
    let res = trial_inner(w, models, shape, c, cur, &items, &by_ref, &hold);
    cleanup(w);
    res
}

#[allow(clippy::too_many_arguments)]
fn trial_inner(
    w: &mut World,
    models: &BTreeMap<usize, Model>,
    shape: Shape,
    c: usize,
    cur: u64,
    items: &[Item],
    by_ref: &[Option<usize>],
    hold: &BTreeMap<usize, Vec<Hold>>,
) -> Result<(), String> {
    let act = w.active();
    let probes = w.export_probes.clone();
    let n_res = items.iter().filter(|i| matches!(i, Item::Resumption { .. })).count();
    let n_ext = items.len() - n_res;
    let n_ref = by_ref.iter().filter(|b| b.is_some()).count();
    w.out.cov.bump(&format!("trial:{shape:?}"));
    w.out.cov.bump(&format!("psk_list_len:{}", items.len()));

    // ---- a resumption PSK that names a past epoch of ANOTHER group: nobody here holds it, whatever
    // this group's own epoch of that number is (unwritten, stored, trimmed)
    if shape == Shape::ForeignGroup {
        use mls_rs::mls_rs_codec::MlsDecode;
        let empty = Model::default();
        let cm = models.get(&c).unwrap_or(&empty);
        let lo = cur.saturating_sub(w.cfg.retention + 2);
        let e = lo + w.rng.below((cur - lo + 1) as usize) as u64;
        let where_ = if e == cur {
            "current"
        } else if cm.pending.contains(&e) {
            "unwritten"
        } else if cm.stored.contains(&e) {
            "stored"
        } else {
            "not_retained"
        };
        let nh = match w.cfg.suite {
            1 | 2 | 3 => 32,
            7 => 48,
            _ => 64,
        };
        let mut b = vec![0u8, 4, 2, 1];
        crate::wire::put_opaque(&mut b, &w.rng.bytes(16));
        b.extend_from_slice(&e.to_be_bytes());
        crate::wire::put_opaque(&mut b, &w.rng.bytes(nh));
        let Ok(prop) = Proposal::mls_decode(&mut b.as_slice()) else {
            w.out.inconclusive.push("C18: could not build a foreign-group PSK proposal".into());
            return Ok(());
        };
        let mut cg = w.g(c).clone();
        let base = w.g(c).clone();
        w.out.cov.eval(Some(fnv(format!("foreign|{where_}").as_bytes())));
        w.out.cov.bump(&format!("foreign_group_psk:{where_}"));
        match guarded(|| cg.commit_builder().raw_proposal(prop).build()) {
            Ok(Ok(out)) => {
                // which other members would follow
                let mut followers = vec![];
                for &m in act.iter().filter(|m| **m != c) {
                    let mut g = w.g(m).clone();
                    let cmsg = out.commit_message.clone();
                    if matches!(guarded(|| g.process_incoming_message(cmsg)), Ok(Ok(_))) {
                        followers.push(m);
                    }
                }
                w.violate(
                    format!("C18|commit_bound_to_resumption_psk_of_another_group|{where_}"),
                    format!("member {c} at epoch {cur} built a commit with a resumption PSK that names epoch {e} of a group nobody here is in (its own group's epoch {e} is {where_}); accepted by {followers:?}"),
                );
            }
            Ok(Err(e2)) => {
                w.out.cov.bump(&format!("foreign_group_psk_refused:{}", ek(&format!("{e2:?}"))));
                let d = residual_diff(w, c, &base, &cg);
                if !d.is_empty() {
                    w.violate(format!("C18|state_changed_by_refused_build|{}", d.join("+")), format!("member {c}: {d:?}"));
                }
            }
            Err(p) => w.violate(format!("C18|panic|build|{}", p.chars().take(80).collect::<String>()), p),
        }
        return Ok(());
    }

    // ---- the committer lacks one PSK: it must not be able to bind a commit to it
    if shape == Shape::CommitterLacks {
        let mut cg = w.g(c).clone();
        let base = w.g(c).clone();
        let k = w.rng.below(items.len());
        let what = match &items[k] {
            Item::External { id, .. } => {
                w.parties[c].stores.psk.del(id);
                "external"
            }
            Item::Resumption { .. } => "resumption",
        };
        // a resumption epoch the committer does not hold: beyond its retention or in the future
        let empty = Model::default();
        let cm = models.get(&c).unwrap_or(&empty);
        let lacking_epoch = {
            let lo = cur.saturating_sub(w.cfg.retention + 4);
            let mut c: Vec<u64> = (lo..cur).filter(|e| !cm.holds(*e, cur)).collect();
            c.push(cur + 1 + w.rng.below(3) as u64);
            c[w.rng.below(c.len())]
        };
        let its = items.to_vec();
        let r = guarded(|| {
            let mut b = cg.commit_builder();
            for (j, it) in its.iter().enumerate() {
                b = match it {
                    Item::External { id, .. } => b.add_external_psk(ExternalPskId::new(id.clone()))?,
                    Item::Resumption { epoch } => b.add_resumption_psk(if j == k { lacking_epoch } else { *epoch })?,
                };
            }
            b.build()
        });
        w.out.cov.eval(Some(fnv(format!("lacks|{what}|{}|{}", items.len(), lacking_epoch > cur).as_bytes())));
        match r {
            Ok(Ok(_)) => w.violate(
                format!("C18|commit_built_without_holding_psk|{what}"),
                format!("member {c} at epoch {cur} built a commit with a {what} PSK it does not hold (resumption epoch {lacking_epoch})"),
            ),
            Ok(Err(e)) => {
                w.out.cov.bump(&format!("committer_lacks_refused:{}", ek(&format!("{e:?}"))));
                let d = residual_diff(w, c, &base, &cg);
                if !d.is_empty() {
                    w.violate(format!("C18|state_changed_by_refused_build|{}", d.join("+")), format!("member {c}: {d:?}"));
                }
            }
            Err(p) => w.violate(format!("C18|panic|build|{}", p.chars().take(80).collect::<String>()), p),
        }
        return Ok(());
    }

    // ---- clones of everybody
    let mut clones: BTreeMap<usize, VGroup> = act.iter().map(|&m| (m, w.g(m).clone())).collect();
    // alternative PSK-free commit of the same epoch (what the group would take instead)
    let mk_alt = |g: &VGroup| {
        let mut alt_g = g.clone();
        alt_g.clear_proposal_cache();
        guarded(|| alt_g.commit_builder().build()).ok().and_then(|r| r.ok()).map(|o| o.commit_message)
    };
    let mut alt = mk_alt(w.g(c));

    // ---- external commit variant: an outsider joins and injects external PSKs
    if shape == Shape::External {
        let src = act[w.rng.below(act.len())];
        let gi = match guarded(|| w.g(src).group_info_message_allowing_ext_commit(true)) {
            Ok(Ok(gi)) => gi,
            _ => return Ok(()),
        };
        let prov = w.cfg.provs[w.rng.below(w.cfg.provs.len())];
        let cs = w.suite_of(prov);
        use mls_rs::CipherSuiteProvider;
        let (sk, pk) = cs.signature_key_generate().map_err(|e| format!("{e:?}"))?;
        let stores = Stores::new(w.cfg.backend, w.cfg.retention);
        for it in items {
            if let Item::External { id, same, .. } = it {
                stores.psk.put(id, same);
            }
        }
        let (client, _) = make_client(b"xjoin", prov, 999, w.cfg.suite, sk, pk, &stores, &VIdent::default(), w.cfg.rules(), None);
        let its = items.to_vec();
        let r = guarded(|| {
            let mut b = client.external_commit_builder()?;
            for it in &its {
                if let Item::External { id, .. } = it {
                    b = b.with_external_psk(ExternalPskId::new(id.clone()));
                }
            }
            b.build(gi)
        });
        let (xg, commit) = match r {
            Ok(Ok(x)) => x,
            Ok(Err(e)) => {
                w.violate(format!("C18|external_committer_holding_psks_cannot_commit|{}", ek(&format!("{e:?}"))), format!("{e:?}"));
                return Ok(());
            }
            Err(p) => {
                w.violate(format!("C18|panic|external_commit|{}", p.chars().take(80).collect::<String>()), p);
                return Ok(());
            }
        };
        let obs_c = observe(&xg, &probes)?;
        for &m in &act {
            let expect = hold[&m].iter().all(|h| *h == Hold::Same);
            // the drawn "committer" c is an ordinary receiver here; its holdings were forced to Same
            judge_receiver(w, m, &mut clones, &commit, expect, &hold[&m], items, &obs_c, alt.as_ref(), &probes, "external_commit")?;
        }
        return Ok(());
    }

    // ---- by-reference proposals, delivered to everybody in receiver-specific order
    let mut prop_msgs: Vec<(usize, MlsMessage)> = vec![];
    let mut value_items: Vec<Item> = vec![];
    for (it, b) in items.iter().zip(by_ref.iter()) {
        match b {
            Some(p) => {
                let g = clones.get_mut(p).unwrap();
                let r = match it {
                    Item::External { id, .. } => {
                        let id = ExternalPskId::new(id.clone());
                        guarded(|| g.propose_external_psk(id, vec![]))
                    }
                    Item::Resumption { epoch } => {
                        let e = *epoch;
                        guarded(|| g.propose_resumption_psk(e, vec![]))
                    }
                };
                match r {
                    Ok(Ok(m)) => prop_msgs.push((*p, m)),
                    Ok(Err(e)) => {
                        // a proposer that cannot even propose: leave this PSK out of the trial
                        w.out.cov.bump(&format!("proposer_refused:{}", ek(&format!("{e:?}"))));
                        return Ok(());
                    }
                    Err(p) => {
                        w.violate(format!("C18|panic|propose|{}", p.chars().take(80).collect::<String>()), p);
                        return Ok(());
                    }
                }
            }
            None => value_items.push(it.clone()),
        }
    }
    for &m in &act {
        let mut mine: Vec<&(usize, MlsMessage)> = prop_msgs.iter().filter(|(p, _)| *p != m).collect();
        w.rng.shuffle(&mut mine);
        for (_, msg) in mine {
            let g = clones.get_mut(&m).unwrap();
            let mm = msg.clone();
            match guarded(|| g.process_incoming_message(mm)) {
                Ok(Ok(ReceivedMessage::Proposal(_))) => {}
                Ok(Ok(_)) => w.violate("C18|psk_proposal_wrong_event", format!("member {m}")),
                Ok(Err(e)) => {
                    w.violate(format!("C18|honest_psk_proposal_rejected|{}", ek(&format!("{e:?}"))), format!("member {m}: {e:?}"));
                    return Ok(());
                }
                Err(p) => {
                    w.violate(format!("C18|panic|proposal|{}", p.chars().take(80).collect::<String>()), p);
                    return Ok(());
                }
            }
        }
    }
    // the committer may have used handshake generations for its own proposals: the alternative
    // commit comes from its state after them, with an empty cache
    alt = mk_alt(clones.get(&c).unwrap());

    // ---- optional joiner added by the same commit
    let with_joiner = act.len() < w.cfg.max_members && if n_res == 0 { w.rng.chance(2, 3) } else { w.rng.chance(1, 4) };
    let force_path = w.rng.chance(1, 3);
    let mut joiner: Option<(VClient, Stores, MlsMessage, Vec<Hold>)> = None;
    if with_joiner {
        let prov = w.cfg.provs[w.rng.below(w.cfg.provs.len())];
        let cs = w.suite_of(prov);
        use mls_rs::CipherSuiteProvider;
        let (sk, pk) = cs.signature_key_generate().map_err(|e| format!("{e:?}"))?;
        let stores = Stores::new(w.cfg.backend, w.cfg.retention);
        let mut jh = vec![];
        for it in items {
            match it {
                Item::External { id, same, other } => {
                    let h = if shape == Shape::AllHold {
                        Hold::Same
                    } else {
                        match w.rng.below(6) {
                            0 => Hold::Other,
                            1 => Hold::Missing,
                            _ => Hold::Same,
                        }
                    };
                    match h {
                        Hold::Same => stores.psk.put(id, same),
                        Hold::Other => stores.psk.put(id, other),
                        Hold::Missing => {}
                    }
                    jh.push(h);
                }
                // a newcomer cannot hold a past epoch of this group
                Item::Resumption { .. } => jh.push(Hold::Missing),
            }
        }
        let name = format!("j{}", w.rng.next() % 100_000).into_bytes();
        let (client, _) = make_client(&name, prov, 998, w.cfg.suite, sk, pk, &stores, &VIdent::default(), w.cfg.rules(), None);
        if let Ok(Ok(kp)) = guarded(|| client.generate_key_package_message(Default::default(), Default::default(), None)) {
            joiner = Some((client, stores, kp, jh));
        }
    }

    // ---- the commit
    let vi = value_items.clone();
    let kp = joiner.as_ref().map(|j| j.2.clone());
    let path_prop = force_path.then(|| w.custom_proposal(true));
    let cg = clones.get_mut(&c).unwrap();
    let r = guarded(|| {
        let mut b = cg.commit_builder();
        for it in &vi {
            b = match it {
                Item::External { id, .. } => b.add_external_psk(ExternalPskId::new(id.clone()))?,
                Item::Resumption { epoch } => b.add_resumption_psk(*epoch)?,
            };
        }
        if let Some(kp) = kp {
            b = b.add_member(kp)?;
        }
        if let Some(p) = path_prop {
            b = b.custom_proposal(p);
        }
        b.build()
    });
    let out = match r {
        Ok(Ok(o)) => o,
        Ok(Err(e)) => {
            w.violate(
                format!("C18|member_holding_all_psks_cannot_commit|{}", ek(&format!("{e:?}"))),
                format!("member {c} at epoch {cur} holds every PSK of the list ({n_ext} external, {n_res} resumption, {n_ref} by reference) but build failed: {e:?}"),
            );
            return Ok(());
        }
        Err(p) => {
            w.violate(format!("C18|panic|build|{}", p.chars().take(80).collect::<String>()), p);
            return Ok(());
        }
    };
    let desc = match guarded(|| cg.apply_pending_alt()) {
        Ok(Ok(d)) => d,
        Ok(Err(e)) => {
            w.violate(format!("C18|committer_cannot_apply_own_psk_commit|{}", ek(&format!("{e:?}"))), format!("member {c}: {e:?}"));
            return Ok(());
        }
        Err(p) => {
            w.violate(format!("C18|panic|apply|{}", p.chars().take(80).collect::<String>()), p);
            return Ok(());
        }
    };
    let applied_psks = match &desc.effect {
        CommitEffect::NewEpoch(ne) => ne.applied_proposals.iter().filter(|p| matches!(p.proposal, Proposal::Psk(_))).count(),
        _ => 0,
    };
    if applied_psks != items.len() {
        w.violate(
            "C18|valid_psk_proposal_not_applied",
            format!("member {c} holds every PSK; {} of {} PSK proposals were applied ({n_ref} by reference)", applied_psks, items.len()),
        );
        return Ok(());
    }
    let obs_c = observe(clones.get(&c).unwrap(), &probes)?;
    w.out.cov.bump(if out.contains_update_path { "psk_commit_with_path" } else { "psk_commit_without_path" });
    w.out.cov.bump(&format!("psk_mix:ext{}_res{}_ref{}", n_ext.min(3), n_res.min(3), n_ref.min(3)));

    // ---- receivers
    for &m in &act {
        if m == c {
            continue;
        }
        let expect = hold[&m].iter().all(|h| *h == Hold::Same);
        judge_receiver(w, m, &mut clones, &out.commit_message, expect, &hold[&m], items, &obs_c, alt.as_ref(), &probes, "commit")?;
    }

    // ---- the joiner
    if let Some((client, _stores, _kp, jh)) = joiner {
        let expect = jh.iter().all(|h| *h == Hold::Same);
        let tree = out.ratchet_tree.clone();
        let holds: Vec<(Hold, &Item)> = jh.iter().copied().zip(items.iter()).collect();
        let why = why_not(&holds, u64::MAX);
        w.out.cov.eval(Some(fnv(format!("join|{expect}|{why}|{}", items.len()).as_bytes())));
        w.out.cov.bump(if expect { "joiner_expected_to_join" } else { "joiner_expected_to_fail" });
        let mut joined = None;
        let mut last = String::from("no welcome");
        for wm in &out.welcome_messages {
            let t = tree.clone();
            match guarded(|| client.join_group(t, wm, None)) {
                Ok(Ok((g, _))) => {
                    joined = Some(g);
                    break;
                }
                Ok(Err(e)) => last = format!("{e:?}"),
                Err(p) => {
                    w.violate(format!("C18|panic|join|{}", p.chars().take(80).collect::<String>()), p);
                    return Ok(());
                }
            }
        }
        match (joined, expect) {
            (Some(g), true) => {
                let o = observe(&g, &probes)?;
                let d = obs_diff(&obs_c, &o);
                if !d.is_empty() {
                    w.violate(format!("C18|joiner_disagrees|{}", d.join("+")), format!("joiner vs committer {c}: {d:?}"));
                }
            }
            (Some(_), false) => w.violate(
                format!("C18|joined_without_psk|{why}"),
                format!("a newcomer used the Welcome of a commit with {n_ext} external / {n_res} resumption PSKs although {why}"),
            ),
            (None, true) => w.violate(format!("C18|joiner_holding_all_psks_cannot_join|{}", ek(&last)), last),
            (None, false) => w.out.cov.bump(&format!("joiner_refused:{why}:{}", ek(&last))),
        }
    }
    Ok(())
}

#[allow(clippy::too_many_arguments)]
fn judge_receiver(
    w: &mut World,
    m: usize,
    clones: &mut BTreeMap<usize, VGroup>,
    commit: &MlsMessage,
    expect: bool,
    holds: &[Hold],
    items: &[Item],
    obs_c: &Obs,
    alt: Option<&MlsMessage>,
    probes: &[(Vec<u8>, Vec<u8>, usize)],
    kind: &str,
) -> Result<(), String> {
    let hv: Vec<(Hold, &Item)> = holds.iter().copied().zip(items.iter()).collect();
    let why = why_not(&hv, w.parties[m].joined_epoch);
    let base = clones.get(&m).unwrap().clone();
    let mut g = clones.remove(&m).unwrap();
    let cm = commit.clone();
    let r = guarded(|| g.process_incoming_message(cm));
    w.out.cov.eval(Some(fnv(format!("{kind}|{expect}|{why}|{}|{}", items.len(), hv.iter().filter(|(h, _)| *h != Hold::Same).count()).as_bytes())));
    w.out.cov.bump(if expect { "receiver_expected_to_accept" } else { "receiver_expected_to_reject" });
    match r {
        Ok(Ok(ReceivedMessage::Commit(_))) => {
            if expect {
                let o = observe(&g, probes)?;
                let d = obs_diff(obs_c, &o);
                if !d.is_empty() {
                    w.violate(format!("C18|holders_disagree|{kind}|{}", d.join("+")), format!("member {m} vs committer: {d:?}"));
                }
                w.out.cov.bump("holder_accepted_and_agrees");
            } else {
                w.violate(
                    format!("C18|accepted_without_psk|{kind}|{why}"),
                    format!("member {m} ({holds:?}) accepted a {kind} with PSKs although {why}"),
                );
            }
        }
        Ok(Ok(_)) => w.violate("C18|commit_wrong_event", format!("member {m}")),
        Ok(Err(e)) => {
            let e = format!("{e:?}");
            if expect {
                w.violate(
                    format!("C18|holder_rejected|{kind}|{}", ek(&e)),
                    format!("member {m} holds every PSK ({holds:?}) but rejected the {kind}: {e}"),
                );
            } else {
                w.out.cov.bump(&format!("refused:{why}:{}", ek(&e)));
                let d = residual_diff(w, m, &base, &g);
                if !d.is_empty() {
                    w.violate(
                        format!("C18|state_changed_by_rejected_psk_commit|{why}|{}", d.join("+")),
                        format!("member {m}: rejected ({}) but changed {d:?}", ek(&e)),
                    );
                }
                // it can still follow the group when the group takes another commit instead
                if let Some(alt) = alt {
                    let am = alt.clone();
                    match guarded(|| g.process_incoming_message(am)) {
                        Ok(Ok(ReceivedMessage::Commit(_))) => w.out.cov.bump("rejector_follows_alternative_commit"),
                        Ok(Ok(_)) => {}
                        Ok(Err(e2)) => w.violate(
                            format!("C18|rejector_cannot_follow_alternative_commit|{why}|{}", ek(&format!("{e2:?}"))),
                            format!("member {m} rejected the PSK {kind} ({}) and now refuses a PSK-free commit of the same epoch: {e2:?}", ek(&e)),
                        ),
                        Err(p) => w.violate(format!("C18|panic|alternative|{}", p.chars().take(80).collect::<String>()), p),
                    }
                }
            }
        }
        Err(p) => w.violate(format!("C18|panic|receive|{}", p.chars().take(80).collect::<String>()), p),
    }
    Ok(())
}

// ---------------------------------------------------------------------------------------------
// pure sensitivity: any change of the PSK list changes every secret of the epoch
// ---------------------------------------------------------------------------------------------

fn enc_psk_id(ext: bool, id: &[u8], epoch: u64, nonce: &[u8]) -> Vec<u8> {
    let mut o = vec![];
    if ext {
        o.push(1);
        crate::wire::put_opaque(&mut o, id);
    } else {
        o.push(2);
        o.push(1);
        crate::wire::put_opaque(&mut o, id);
        o.extend_from_slice(&epoch.to_be_bytes());
    }
    crate::wire::put_opaque(&mut o, nonce);
    o
}

#[derive(Clone)]
struct P {
    ext: bool,
    id: Vec<u8>,
    epoch: u64,
    nonce: Vec<u8>,
    val: Vec<u8>,
}

fn outputs(cs: &crate::anycrypto::AnySuite, init: &[u8], cs_secret: &[u8], ctx: &[u8], ps: &[P]) -> Option<Vec<(&'static str, Vec<u8>)>> {
    let psks: Vec<PskIn> = ps
        .iter()
        .map(|p| PskIn {
            id_bytes: enc_psk_id(p.ext, &p.id, p.epoch, &p.nonce),
            psk: p.val.clone(),
        })
        .collect();
    let s = guarded(|| vh::kdf::key_schedule(cs, init, cs_secret, ctx, &psks, 4)).ok()?.ok()?;
    let keys = guarded(|| vh::kdf::secret_tree_all_keys(cs, &s.secret_tree_bytes, 1, false, &[0])).ok()?.ok()?;
    let hkeys = guarded(|| vh::kdf::secret_tree_all_keys(cs, &s.secret_tree_bytes, 2, true, &[0])).ok()?.ok()?;
    let psk_secret = guarded(|| vh::kdf::psk_secret(cs, &psks)).ok()?.ok()?;
    Some(vec![
        ("psk_secret", psk_secret),
        ("welcome_key", s.welcome_key),
        ("welcome_nonce", s.welcome_nonce),
        ("confirmation_key", s.confirmation_key),
        ("exporter", s.exporter),
        ("epoch_authenticator", s.authentication),
        ("external", s.external),
        ("membership", s.membership),
        ("init", s.init),
        ("sender_data", s.sender_data),
        ("resumption", s.resumption),
        ("application_key", keys[0].1.clone()),
        ("application_nonce", keys[0].2.clone()),
        ("handshake_key", hkeys[0].1.clone()),
    ])
}

fn pure(a: &Args, out: &mut ShardOut) {
    let mut rng = Rng::derive(a.seed, "C18-pure", a.shard);
    let sets = if a.thorough { 40 } else { 4 };
    for prov in Prov::ALL {
        for suite in prov.suites() {
            let Some(cs) = AnyCrypto::new(prov).suite(suite) else { continue };
            let nh = match suite {
                1 | 2 | 3 => 32,
                7 => 48,
                _ => 64,
            };
            for _ in 0..sets {
                let init = rng.bytes(nh);
                let commit_secret = if rng.chance(1, 2) { vec![0u8; nh] } else { rng.bytes(nh) };
                // a syntactically valid GroupContext
                let mut ctx = vec![0, 1];
                ctx.extend_from_slice(&suite.to_be_bytes());
                crate::wire::put_opaque(&mut ctx, &rng.bytes(8));
                ctx.extend_from_slice(&(rng.next() % 1000).to_be_bytes());
                crate::wire::put_opaque(&mut ctx, &rng.bytes(nh));
                crate::wire::put_opaque(&mut ctx, &rng.bytes(nh));
                crate::wire::put_opaque(&mut ctx, &[]);
                let n = rng.range(1, 4);
                let mut base: Vec<P> = vec![];
                for _ in 0..n {
                    base.push(P {
                        ext: rng.chance(1, 2),
                        id: {
                            let l = rng.range(1, 16);
                            rng.bytes(l)
                        },
                        epoch: rng.next() % 50,
                        nonce: rng.bytes(nh),
                        val: {
                            let l = rng.range(1, 64);
                            rng.bytes(l)
                        },
                    });
                }
                let Some(b) = outputs(&cs, &init, &commit_secret, &ctx, &base) else {
                    out.inconclusive.push(format!("C18 pure: derivation failed for {} suite {suite}", prov.name()));
                    continue;
                };
                let mut variants: Vec<(&'static str, Vec<P>)> = vec![];
                let k = rng.below(base.len());
                let flip = |v: &mut Vec<u8>, rng: &mut Rng| {
                    let i = rng.below(v.len());
                    v[i] ^= 1 << rng.below(8);
                };
                {
                    let mut v = base.clone();
                    flip(&mut v[k].val, &mut rng);
                    variants.push(("value_bit", v));
                }
                {
                    let mut v = base.clone();
                    v[k].val.push(0);
                    variants.push(("value_extended_by_zero", v));
                }
                {
                    let mut v = base.clone();
                    flip(&mut v[k].id, &mut rng);
                    variants.push(("id_bit", v));
                }
                {
                    let mut v = base.clone();
                    flip(&mut v[k].nonce, &mut rng);
                    variants.push(("nonce_bit", v));
                }
                {
                    let mut v = base.clone();
                    v[k].ext = !v[k].ext;
                    variants.push(("psk_type", v));
                }
                if !base[k].ext {
                    let mut v = base.clone();
                    v[k].epoch += 1;
                    variants.push(("resumption_epoch", v));
                }
                if base.len() >= 2 {
                    let j = (k + 1) % base.len();
                    let mut v = base.clone();
                    v.swap(k, j);
                    variants.push(("order_swapped", v));
                    let mut v = base.clone();
                    v.remove(k);
                    variants.push(("one_dropped", v));
                    // values exchanged between two ids
                    let mut v = base.clone();
                    let (x, y) = (v[k].val.clone(), v[j].val.clone());
                    if x != y {
                        v[k].val = y;
                        v[j].val = x;
                        variants.push(("values_exchanged", v));
                    }
                }
                {
                    let mut v = base.clone();
                    v.push(base[k].clone());
                    variants.push(("one_duplicated", v));
                }
                variants.push(("no_psk_at_all", vec![]));
                for (name, v) in variants {
                    out.cov.eval(Some(fnv(format!("pure|{}|{suite}|{name}|{}", prov.name(), base.len()).as_bytes())));
                    out.cov.bump(&format!("pure_variant:{name}"));
                    let Some(o) = outputs(&cs, &init, &commit_secret, &ctx, &v) else {
                        out.inconclusive.push(format!("C18 pure: variant derivation failed for {} suite {suite} {name}", prov.name()));
                        continue;
                    };
                    for ((what, x), (_, y)) in b.iter().zip(o.iter()) {
                        out.cov.bump("pure_secret_pairs_compared");
                        if x == y {
                            out.violate(
                                "C18",
                                format!("C18|secret_insensitive_to_psk_change|{name}|{what}"),
                                format!("{} suite {suite}: {what} is unchanged ({}) when the PSK list changes by {name} (list of {})", prov.name(), hx(x), base.len()),
                            );
                        }
                    }
                }
            }
        }
    }
}
