//! C15 — a failing storage call never loses or corrupts the group (fault enumeration).
//!
//! For every operation of a seeded script the engine first runs it fault-free on a twin (clone of
//! the member + checkpointed stores) to count the storage calls it makes, then, for every call
//! position i (thorough: every pair i<j), restarts from the state before the operation with that
//! call failing: the operation must return Err, the member and its stores must be unchanged, and
//! after the fault clears the repeated operation must succeed and end in the twin's state with
//! the twin's stored history.

use std::collections::BTreeMap;
use std::sync::atomic::Ordering;

use mls_rs::group::verif_hooks as vh;
use mls_rs::group::{CommitEffect, ReceivedMessage};
use mls_rs::psk::ExternalPskId;
use mls_rs::MlsMessage;
use mls_rs::storage_provider::KeyPackageData;
use serde_json::json;

use super::Args;
use crate::driver::*;
use crate::store::{Backend, GroupDump};
use crate::util::*;
use crate::world::*;

#[derive(Clone, PartialEq)]
struct StoresDump {
    gs: GroupDump,
    kp: Vec<(Vec<u8>, KeyPackageData)>,
    psk: BTreeMap<Vec<u8>, Vec<u8>>,
}

fn dump(w: &World, who: usize, hi: u64) -> StoresDump {
    let s = &w.parties[who].stores;
    StoresDump {
        gs: s.gs.dump(&w.group_id, hi),
        kp: s.kp.dump(),
        psk: s.psk.dump(),
    }
}

fn restore(w: &World, who: usize, d: &StoresDump) {
    let s = &w.parties[who].stores;
    s.gs.restore(&w.group_id, &d.gs);
    s.kp.restore(&d.kp);
    s.psk.restore(&d.psk);
}

/// stored histories equal by value (snapshot bytes are not canonical)
fn stores_equal(a: &StoresDump, b: &StoresDump) -> Result<(), String> {
    if a.gs.max_epoch_id != b.gs.max_epoch_id {
        return Err(format!("max_epoch_id {:?} vs {:?}", a.gs.max_epoch_id, b.gs.max_epoch_id));
    }
    if a.gs.epochs.keys().collect::<Vec<_>>() != b.gs.epochs.keys().collect::<Vec<_>>() {
        return Err(format!(
            "stored epoch ids {:?} vs {:?}",
            a.gs.epochs.keys().collect::<Vec<_>>(),
            b.gs.epochs.keys().collect::<Vec<_>>()
        ));
    }
    for (id, ea) in &a.gs.epochs {
        let eb = &b.gs.epochs[id];
        if ea != eb {
            match (vh::EpochRec::decode(ea), vh::EpochRec::decode(eb)) {
                (Ok(x), Ok(y)) if x == y => {}
                _ => return Err(format!("stored epoch record {id} differs")),
            }
        }
    }
    match (&a.gs.state, &b.gs.state) {
        (None, None) => {}
        (Some(x), Some(y)) => {
            if x != y && !matches!(vh::stored_snapshots_equal(x, y), Ok(true)) {
                return Err("stored group snapshot differs".into());
            }
        }
        _ => return Err("stored group snapshot present on one side only".into()),
    }
    if a.kp.iter().map(|x| &x.0).collect::<Vec<_>>() != b.kp.iter().map(|x| &x.0).collect::<Vec<_>>() {
        return Err("key package store differs".into());
    }
    if a.psk != b.psk {
        return Err("psk store differs".into());
    }
    Ok(())
}

/// storage invariants of a written member: contiguous epoch ids, every record decodes to its own
/// id, no more than R records, max_epoch_id consistent
fn storage_invariants(w: &World, who: usize, d: &StoresDump) -> Result<(), String> {
    let r = w.parties[who].stores.gs.retention as usize;
    let ids: Vec<u64> = d.gs.epochs.keys().copied().collect();
    if ids.len() > r {
        return Err(format!("{} records stored, retention {r}", ids.len()));
    }
    for w2 in ids.windows(2) {
        if w2[1] != w2[0] + 1 {
            return Err(format!("stored epoch ids not contiguous: {ids:?}"));
        }
    }
    if d.gs.max_epoch_id != ids.last().copied() {
        return Err(format!("max_epoch_id {:?} but ids {ids:?}", d.gs.max_epoch_id));
    }
    for (id, b) in &d.gs.epochs {
        match vh::EpochRec::decode(b) {
            Ok(e) if e.epoch_id() == *id => {}
            Ok(e) => return Err(format!("record stored under id {id} is epoch {}", e.epoch_id())),
            Err(e) => return Err(format!("record {id} does not decode: {e:?}")),
        }
    }
    Ok(())
}

/// Result of running an operation on a group object.
#[derive(Clone, Debug, PartialEq)]
enum OpOut {
    Unit,
    Event(&'static str),
    Msg,
}

type Op<'a> = &'a dyn Fn(&mut VGroup) -> Result<OpOut, mls_rs::error::MlsError>;

struct Enum15 {
    pairs: bool,
    pair_budget: usize,
}

fn state_same(w: &World, who: usize, a: &VGroup, b: &VGroup) -> Vec<&'static str> {
    let mut d = vh::state_diff(a, b);
    if d.contains(&"epoch_secrets") && vh::epoch_secrets_equiv(a, b, 6).is_none() {
        d.retain(|x| *x != "epoch_secrets");
    }
    if d.contains(&"repo_inserts") {
        let (ra, rb) = (vh::repo_view(a), vh::repo_view(b));
        let cs = w.suite_of(w.parties[who].prov);
        if ra.inserts.len() == rb.inserts.len()
            && ra.inserts.iter().zip(rb.inserts.iter()).all(|(x, y)| vh::epoch_rec_equiv(&cs, x, y, 6).is_none())
        {
            d.retain(|x| *x != "repo_inserts");
        }
    }
    d
}

impl Enum15 {
    /// Enumerate the fault points of `op` applied to member `who`. `deterministic`: the result
    /// state of a retry must equal the twin's exactly (otherwise only structurally).
    /// Returns the twin after the fault-free run (None if the operation itself fails).
    fn run(
        &mut self,
        w: &mut World,
        who: usize,
        name: &'static str,
        deterministic: bool,
        op: Op,
    ) -> Option<VGroup> {
        let faults = w.parties[who].stores.faults.clone();
        faults.disarm();
        let pre_g = w.g(who).clone();
        let hi = pre_g.current_epoch() + 2;
        let pre_store = dump(w, who, hi);
        // fault-free twin
        let mut twin = pre_g.clone();
        faults.start_log();
        let r0 = guarded(|| op(&mut twin));
        let calls = faults.stop_log();
        let post_store = dump(w, who, hi);
        restore(w, who, &pre_store);
        let out0 = match r0 {
            Ok(Ok(o)) => o,
            Ok(Err(e)) => {
                w.out.cov.bump(&format!("op_failed_without_fault:{name}:{}", err_kind(&e).split('/').next().unwrap_or("")));
                return None;
            }
            Err(p) => {
                w.violate(format!("C15|panic|{name}|no_fault"), p);
                return None;
            }
        };
        w.out.cov.bump(&format!("op:{name}"));
        w.out.cov.add(&format!("storage_calls:{name}"), calls.len() as u64);
        let k = calls.len();
        let mut points: Vec<(usize, Option<usize>)> = (0..k).map(|i| (i, None)).collect();
        if self.pairs && k >= 2 {
            let mut n = 0;
            'outer: for i in 0..k {
                for j in i..k {
                    // the second fault hits the j-th call counted from the start of the retry
                    points.push((i, Some(j)));
                    n += 1;
                    if n >= self.pair_budget {
                        break 'outer;
                    }
                }
            }
        }
        for (i, second) in points {
            let call = calls[i];
            let mut g = pre_g.clone();
            faults.arm(i as i64);
            let r = guarded(|| op(&mut g));
            faults.disarm();
            let tag = format!("{name}|{call}");
            w.out.cov.eval(Some(fnv(format!("{tag}|{i}|{second:?}|{:?}|R{}", w.cfg.backend, w.cfg.retention).as_bytes())));
            w.out.cov.bump(&format!("fault_point:{call}"));
            match r {
                Ok(Ok(_)) => {
                    w.violate(
                        format!("C15|fault_swallowed|{tag}"),
                        format!("member {who}: {name} returned Ok although storage call #{i} ({call}) failed"),
                    );
                    restore(w, who, &pre_store);
                    continue;
                }
                Ok(Err(_)) => {}
                Err(p) => {
                    w.violate(format!("C15|panic|{tag}"), p);
                    restore(w, who, &pre_store);
                    continue;
                }
            }
            // unchanged member and stores. One documented exception: write_to_storage touches two
            // independent stores (group state, then key-package deletion) and cannot be atomic
            // across them; when the *second* one fails the group write has happened. That is
            // accepted as long as member and storage then equal the fault-free result except for
            // the still pending key-package deletion (and the retry completes it, checked below).
            let two_store_partial = name == "write_to_storage" && call == "kp.delete";
            if two_store_partial {
                let mut d = state_same(w, who, &twin, &g);
                d.retain(|x| *x != "repo_kp_removal");
                let now = dump(w, who, hi);
                let mut expect = post_store.clone();
                expect.kp = pre_store.kp.clone();
                let st = stores_equal(&expect, &now);
                if !d.is_empty() || st.is_err() {
                    w.violate(
                        format!("C15|partial_write_inconsistent|{tag}|{}", d.join("+")),
                        format!("member {who}: write_to_storage failed at the key-package deletion; member differs from the written state in {d:?}, storage: {st:?}"),
                    );
                }
                w.out.cov.bump("two_store_partial_write_checked");
            }
            let d = if two_store_partial { vec![] } else { state_same(w, who, &pre_g, &g) };
            if !d.is_empty() {
                w.violate(
                    format!("C15|state_changed_by_failed_op|{tag}|{}", d.join("+")),
                    format!("member {who}: {name} failed at storage call #{i} ({call}) and changed {d:?}"),
                );
            }
            let now = dump(w, who, hi);
            if let (Err(e), false) = (stores_equal(&pre_store, &now), two_store_partial) {
                w.violate(
                    format!("C15|storage_changed_by_failed_op|{tag}"),
                    format!("member {who}: {name} failed at storage call #{i} ({call}) but storage changed: {e}"),
                );
            }
            // optional second transient fault during the retry, then the final retry
            if let Some(j) = second {
                faults.arm(j as i64);
                let r = guarded(|| op(&mut g));
                faults.disarm();
                w.out.cov.bump("fault_pairs");
                match r {
                    Ok(Ok(_)) => {
                        // the retry made fewer calls than j: it simply succeeded
                        self.compare_final(w, who, &tag, deterministic, &twin, &g, &post_store, hi, &out0, None);
                        restore(w, who, &pre_store);
                        continue;
                    }
                    Ok(Err(_)) => {}
                    Err(p) => {
                        w.violate(format!("C15|panic|{tag}|second_fault"), p);
                        restore(w, who, &pre_store);
                        continue;
                    }
                }
            }
            let r2 = guarded(|| op(&mut g));
            match r2 {
                Ok(Ok(o)) => {
                    self.compare_final(w, who, &tag, deterministic, &twin, &g, &post_store, hi, &out0, Some(o));
                }
                Ok(Err(e)) => {
                    w.violate(
                        format!("C15|retry_fails|{tag}|{}", err_kind(&e).split('/').next().unwrap_or("")),
                        format!("member {who}: after the fault at call #{i} ({call}) cleared, repeating {name} fails: {e:?}"),
                    );
                }
                Err(p) => w.violate(format!("C15|panic|{tag}|retry"), p),
            }
            restore(w, who, &pre_store);
        }
        // the caller performs the operation for real afterwards, from the true pre-state
        restore(w, who, &pre_store);
        Some(twin)
    }

    #[allow(clippy::too_many_arguments)]
    fn compare_final(
        &mut self,
        w: &mut World,
        who: usize,
        tag: &str,
        deterministic: bool,
        twin: &VGroup,
        g: &VGroup,
        post_store: &StoresDump,
        hi: u64,
        out0: &OpOut,
        out: Option<OpOut>,
    ) {
        w.out.cov.bump("retry_ok");
        if let Some(o) = out {
            if &o != out0 {
                w.violate(format!("C15|retry_result_differs|{tag}"), format!("{out0:?} vs {o:?}"));
            }
        }
        let now = dump(w, who, hi);
        if deterministic {
            let d = state_same(w, who, twin, g);
            if !d.is_empty() {
                w.violate(
                    format!("C15|final_state_differs|{tag}|{}", d.join("+")),
                    format!("member {who}: after fault and retry the member differs from the fault-free run in {d:?}"),
                );
            }
            if let Err(e) = stores_equal(post_store, &now) {
                w.violate(
                    format!("C15|final_storage_differs|{tag}"),
                    format!("member {who}: after fault and retry the stored history differs from the fault-free run: {e}"),
                );
            }
        } else {
            if twin.current_epoch() != g.current_epoch() || twin.has_pending_commit() != g.has_pending_commit() {
                w.violate(
                    format!("C15|final_state_differs|{tag}|structure"),
                    format!("epoch {} vs {}, pending {} vs {}", twin.current_epoch(), g.current_epoch(), twin.has_pending_commit(), g.has_pending_commit()),
                );
            }
        }
        if now.gs.state.is_some() {
            if let Err(e) = storage_invariants(w, who, &now) {
                w.violate(format!("C15|storage_invariant|{tag}"), format!("member {who}: {e}"));
            }
        }
    }

    /// Constructors (join / load): the same enumeration for operations that create the object.
    fn run_ctor(
        &mut self,
        w: &mut World,
        who: usize,
        name: &'static str,
        op: &dyn Fn(&VClient) -> Result<VGroup, mls_rs::error::MlsError>,
    ) -> Option<VGroup> {
        let faults = w.parties[who].stores.faults.clone();
        faults.disarm();
        let hi = w.epoch() + 2;
        let pre_store = dump(w, who, hi);
        faults.start_log();
        let r0 = {
            let c = &w.parties[who].client;
            guarded(|| op(c))
        };
        let calls = faults.stop_log();
        let post_store = dump(w, who, hi);
        restore(w, who, &pre_store);
        let twin = match r0 {
            Ok(Ok(g)) => g,
            Ok(Err(e)) => {
                w.out.cov.bump(&format!("op_failed_without_fault:{name}:{}", err_kind(&e).split('/').next().unwrap_or("")));
                return None;
            }
            Err(p) => {
                w.violate(format!("C15|panic|{name}|no_fault"), p);
                return None;
            }
        };
        w.out.cov.bump(&format!("op:{name}"));
        w.out.cov.add(&format!("storage_calls:{name}"), calls.len() as u64);
        for (i, call) in calls.iter().enumerate() {
            let tag = format!("{name}|{call}");
            w.out.cov.eval(Some(fnv(format!("{tag}|{i}|{:?}|R{}", w.cfg.backend, w.cfg.retention).as_bytes())));
            w.out.cov.bump(&format!("fault_point:{call}"));
            faults.arm(i as i64);
            let r = {
                let c = &w.parties[who].client;
                guarded(|| op(c))
            };
            faults.disarm();
            match r {
                Ok(Ok(_)) => {
                    w.violate(format!("C15|fault_swallowed|{tag}"), format!("party {who}: {name} returned a group although storage call #{i} ({call}) failed"));
                }
                Ok(Err(_)) => {
                    let now = dump(w, who, hi);
                    if let Err(e) = stores_equal(&pre_store, &now) {
                        w.violate(format!("C15|storage_changed_by_failed_op|{tag}"), format!("party {who}: {e}"));
                    }
                    let r2 = {
                        let c = &w.parties[who].client;
                        guarded(|| op(c))
                    };
                    match r2 {
                        Ok(Ok(g)) => {
                            w.out.cov.bump("retry_ok");
                            let d = state_same(w, who, &twin, &g);
                            if !d.is_empty() {
                                w.violate(format!("C15|final_state_differs|{tag}|{}", d.join("+")), format!("party {who}: {d:?}"));
                            }
                        }
                        Ok(Err(e)) => w.violate(
                            format!("C15|retry_fails|{tag}|{}", err_kind(&e).split('/').next().unwrap_or("")),
                            format!("party {who}: repeating {name} after the fault cleared fails: {e:?}"),
                        ),
                        Err(p) => w.violate(format!("C15|panic|{tag}|retry"), p),
                    }
                }
                Err(p) => w.violate(format!("C15|panic|{tag}"), p),
            }
            restore(w, who, &pre_store);
        }
        let _ = &post_store;
        restore(w, who, &pre_store);
        Some(twin)
    }
}

fn ev_kind(r: &ReceivedMessage) -> OpOut {
    OpOut::Event(match r {
        ReceivedMessage::ApplicationMessage(_) => "application",
        ReceivedMessage::Commit(c) => match c.effect {
            CommitEffect::NewEpoch(_) => "commit_new_epoch",
            CommitEffect::Removed { .. } => "commit_removed",
            CommitEffect::ReInit(_) => "commit_reinit",
        },
        ReceivedMessage::Proposal(_) => "proposal",
        _ => "other",
    })
}

pub fn run(a: &Args) -> ShardOut {
    let mut total = ShardOut::default();
    let (histories, rounds) = if a.thorough { (40, 16) } else { (8, 10) };
    for h in 0..histories {
        if let Some(only) = super::only_history() {
            if only != h {
                continue;
            }
        }
        let mut rng = Rng::derive(a.seed, "C15", a.shard * 10_000 + h);
        let mut cfg = WorldCfg::draw(&mut rng, a.thorough);
        cfg.max_members = cfg.max_members.min(7);
        cfg.backend = match (a.shard + h) % 3 {
            0 => Backend::Mem,
            1 => Backend::Sql,
            _ => Backend::Tee,
        };
        let mut w = World::new(cfg.clone(), rng, "C15");
        let mut e = Enum15 {
            pairs: a.thorough && h % 2 == 0,
            pair_budget: 24,
        };
        if let Err(err) = history(&mut w, &mut e, rounds) {
            if err.contains("PANIC") && panic_in_repo(&err) {
                w.violate(format!("C15|panic|honest_flow|{}", err.chars().take(80).collect::<String>()), err);
            } else {
                w.out.inconclusive.push(format!("history {h}: {err}"));
            }
        }
        w.out.cov.bump("histories");
        w.out.cov.bump(&format!("backend:{:?}", cfg.backend));
        w.out.cov.sample(json!({"cfg": cfg.to_json(), "first_ops": w.script.iter().take(20).cloned().collect::<Vec<_>>()}));
        total.cov.merge(&w.out.cov);
        total.violations.extend(w.out.violations.drain(..));
        total.inconclusive.extend(w.out.inconclusive.drain(..));
    }
    total
}

/// One scripted history in which every library operation is fault-enumerated before it is
/// performed for real.
fn history(w: &mut World, e: &mut Enum15, rounds: u64) -> Result<(), String> {
    // creation: create_group makes no storage call until the first write; enumerate the write
    let n0 = w.rng.range(3, 5);
    w.bootstrap(n0, &mut NoHooks)?;
    let mut old_apps: Vec<SentApp> = vec![];
    for round in 0..rounds {
        let act = w.active();
        if act.len() < 2 {
            break;
        }
        w.log(json!({"op":"c15_round","n":round}));
        // application message of this epoch, kept for late delivery in the next epochs
        let sender = act[w.rng.below(act.len())];
        if let Some(m) = w.send_app(sender, &mut NoHooks)? {
            old_apps.push(m);
        }
        // a by-reference proposal, its receipt is enumerated for every receiver
        let proposer = act[w.rng.below(act.len())];
        let dc = DriveCfg::default();
        let mut prop_msg = None;
        if let Some(k) = w.draw_prop(proposer, &dc) {
            let k2 = k.clone();
            // building the proposal (may consult storage: PSK / prior epochs)
            if matches!(k, PropKind::ExternalPsk(_) | PropKind::ResumptionPsk(_) | PropKind::Update | PropKind::Remove(_) | PropKind::Gce(_)) {
                let kk = k.clone();
                e.run(w, proposer, "propose", false, &move |g| {
                    match &kk {
                        PropKind::ExternalPsk(id) => g.propose_external_psk(ExternalPskId::new(id.clone()), vec![]),
                        PropKind::ResumptionPsk(ep) => g.propose_resumption_psk(*ep, vec![]),
                        PropKind::Update => g.propose_update(vec![]),
                        PropKind::Remove(l) => g.propose_remove(*l, vec![]),
                        PropKind::Gce(l) => g.propose_group_context_extensions(l.clone(), vec![]),
                        _ => unreachable!(),
                    }
                    .map(|_| OpOut::Msg)
                });
            }
            if let Ok(m) = w.propose(proposer, &k2) {
                prop_msg = Some(m);
            }
        }
        if let Some(m) = &prop_msg {
            for to in w.active().into_iter().filter(|i| *i != proposer) {
                let mm = m.clone();
                e.run(w, to, "process_proposal", true, &move |g| g.process_incoming_message(mm.clone()).map(|r| ev_kind(&r)));
                if let Err(err) = w.deliver(to, m) {
                    return Err(format!("honest proposal rejected by {to}: {err}"));
                }
            }
        }
        // late application message of an earlier epoch (prior-epoch lookup in storage)
        if let Some(old) = old_apps.iter().find(|m| m.epoch < w.epoch()).cloned() {
            let rcv: Vec<usize> = w
                .active()
                .into_iter()
                .filter(|i| *i != old.sender && w.parties[*i].joined_epoch <= old.epoch)
                .collect();
            if let Some(&to) = rcv.first() {
                let mm = old.msg.clone();
                e.run(w, to, "process_late_application", true, &move |g| g.process_incoming_message(mm.clone()).map(|r| ev_kind(&r)));
                let _ = w.deliver(to, &old.msg);
            }
            old_apps.retain(|m| m.msg != old.msg);
        }
        // commit: by value, with PSKs now and then
        let act = w.active();
        let c = act[w.rng.below(act.len())];
        let mut by_value: Vec<ByValue> = vec![];
        match w.rng.below(6) {
            0 => {
                let id = w.new_external_psk();
                by_value.push(ByValue::ExternalPsk(id));
            }
            1 => {
                let cur = w.epoch();
                let maxjoin = act.iter().map(|i| w.parties[*i].joined_epoch).max().unwrap_or(cur);
                let ep = if cur > 0 && maxjoin < cur { cur - 1 } else { cur };
                by_value.push(ByValue::ResumptionPsk(ep));
            }
            2 | 3 => {
                if act.len() < w.cfg.max_members {
                    let p = w.new_party();
                    // key package generation is itself enumerated
                    e_keypackage(w, e, p);
                    if let Ok(kp) = w.key_package(p) {
                        by_value.push(ByValue::Add(kp));
                    }
                }
            }
            4 => {
                if act.len() > 3 {
                    let t = *act.iter().find(|i| **i != c).unwrap();
                    by_value.push(ByValue::Remove(w.leaf_of(t)));
                }
            }
            _ => {}
        }
        let bv = by_value.clone();
        let build = move |g: &mut VGroup| {
            let mut b = g.commit_builder();
            for x in bv.clone() {
                b = match x {
                    ByValue::Add(kp) => b.add_member(kp)?,
                    ByValue::Remove(l) => b.remove_member(l)?,
                    ByValue::ExternalPsk(id) => b.add_external_psk(ExternalPskId::new(id))?,
                    ByValue::ResumptionPsk(ep) => b.add_resumption_psk(ep)?,
                    ByValue::Gce(l) => b.set_group_context_ext(l)?,
                    ByValue::Custom(cu) => b.custom_proposal(cu),
                };
            }
            b.build().map(|_| OpOut::Msg)
        };
        if w.g(c).has_pending_commit() {
            w.gm(c).clear_pending_commit();
        }
        e.run(w, c, "commit", false, &build);
        // now for real
        let plan = CommitPlan {
            committer: c,
            by_value,
            ..Default::default()
        };
        let mut hk = Recv { e, ok: true };
        let info = w.commit_round(vec![plan], &mut hk)?;
        if info.is_none() {
            for i in w.active() {
                w.gm(i).clear_proposal_cache();
            }
        }
        // writes and reloads
        for i in w.active() {
            if w.rng.chance(1, 2) {
                e.run(w, i, "write_to_storage", true, &|g| g.write_to_storage().map(|_| OpOut::Unit));
                let g = w.gm(i);
                if let Ok(Err(err)) = guarded(|| g.write_to_storage()) {
                    return Err(format!("write_to_storage: {err:?}"));
                }
                if w.rng.chance(1, 2) {
                    let gid = w.group_id.clone();
                    if let Some(loaded) = e.run_ctor(w, i, "load_group", &move |c| c.load_group(&gid)) {
                        // the loaded object must equal the written one
                        let d = vh::state_diff(w.g(i), &loaded);
                        if !d.is_empty() {
                            w.out.cov.bump("load_differs_from_written_reported_by_C06");
                        }
                    }
                }
            }
        }
    }
    Ok(())
}

fn e_keypackage(w: &mut World, e: &mut Enum15, p: usize) {
    // key package generation has no group object: enumerate through the ctor path with a dummy
    // result (the store must be unchanged after a failure and hold one more package after retry)
    let faults = w.parties[p].stores.faults.clone();
    let before = w.parties[p].stores.kp.dump().len();
    faults.start_log();
    let r = {
        let c = &w.parties[p].client;
        guarded(|| c.generate_key_package_message(Default::default(), Default::default(), None))
    };
    let calls = faults.stop_log();
    if !matches!(r, Ok(Ok(_))) {
        return;
    }
    let after_ok = w.parties[p].stores.kp.dump().len();
    w.out.cov.bump("op:generate_key_package");
    w.out.cov.add("storage_calls:generate_key_package", calls.len() as u64);
    for (i, call) in calls.iter().enumerate() {
        let base = w.parties[p].stores.kp.dump().len();
        faults.arm(i as i64);
        let r = {
            let c = &w.parties[p].client;
            guarded(|| c.generate_key_package_message(Default::default(), Default::default(), None))
        };
        faults.disarm();
        w.out.cov.eval(Some(fnv(format!("generate_key_package|{call}|{i}").as_bytes())));
        w.out.cov.bump(&format!("fault_point:{call}"));
        match r {
            Ok(Ok(_)) => w.violate(format!("C15|fault_swallowed|generate_key_package|{call}"), format!("party {p}")),
            Ok(Err(_)) => {
                if w.parties[p].stores.kp.dump().len() != base {
                    w.violate(format!("C15|storage_changed_by_failed_op|generate_key_package|{call}"), format!("party {p}"));
                }
                let r2 = {
                    let c = &w.parties[p].client;
                    guarded(|| c.generate_key_package_message(Default::default(), Default::default(), None))
                };
                match r2 {
                    Ok(Ok(_)) => {
                        w.out.cov.bump("retry_ok");
                        if w.parties[p].stores.kp.dump().len() != base + 1 {
                            w.violate(format!("C15|final_storage_differs|generate_key_package|{call}"), format!("party {p}"));
                        }
                    }
                    Ok(Err(e2)) => w.violate(format!("C15|retry_fails|generate_key_package|{call}"), format!("{e2:?}")),
                    Err(pn) => w.violate(format!("C15|panic|generate_key_package|{call}"), pn),
                }
            }
            Err(pn) => w.violate(format!("C15|panic|generate_key_package|{call}"), pn),
        }
    }
    let _ = (before, after_ok, e.pairs);
}

/// Hooks used while the real commit round runs: enumerate apply / receive / join just before
/// the driver performs them.
struct Recv<'a> {
    e: &'a mut Enum15,
    ok: bool,
}

impl Hooks for Recv<'_> {
    fn after_build(&mut self, w: &mut World, who: usize, _out: &mls_rs::group::CommitOutput) {
        // applying the pending commit
        self.e.run(w, who, "apply_pending_commit", true, &|g| g.apply_pending_alt().map(|d| {
            OpOut::Event(match d.effect {
                CommitEffect::NewEpoch(_) => "commit_new_epoch",
                CommitEffect::Removed { .. } => "commit_removed",
                CommitEffect::ReInit(_) => "commit_reinit",
            })
        }));
        let _ = self.ok;
    }

    fn before_receive(&mut self, w: &mut World, to: usize, msg: &MlsMessage) {
        let m = msg.clone();
        self.e.run(w, to, "process_commit", true, &move |g| g.process_incoming_message(m.clone()).map(|r| ev_kind(&r)));
    }

    fn on_message(&mut self, w: &mut World, kind: &'static str, _from: usize, msg: &MlsMessage) {
        if kind != "welcome" {
            return;
        }
        let cands: Vec<usize> = w
            .parties
            .iter()
            .filter(|p| p.status == Status::Outside && !p.key_packages.is_empty())
            .map(|p| p.id)
            .collect();
        for pid in cands {
            if !w.addressed_by(pid, std::slice::from_ref(msg)) {
                continue;
            }
            // tree delivered out of band is not available here; only enumerate when the welcome
            // carries it (otherwise join needs the tree from the CommitOutput)
            let wm = msg.clone();
            let probe = {
                let c = &w.parties[pid].client;
                guarded(|| c.join_group(None, &wm, None)).map(|r| r.is_ok()) == Ok(true)
            };
            if !probe {
                continue;
            }
            let wm2 = msg.clone();
            self.e.run_ctor(w, pid, "join_group", &move |c| c.join_group(None, &wm2, None).map(|x| x.0));
        }
    }

    fn allow_reload(&self) -> bool {
        false
    }
}

#[allow(dead_code)]
fn unused(_: Ordering) {}
