//! World monitors: C02 (entitled recipients only; outsiders cannot follow), C07 (joiners),
//! C08 (tree validity, tree hash, leaf placement), C09 (private keys match the tree).
//! Each is a `Hooks` implementation observing the honest random driver; C02 and C08 also write an
//! event log that independent Python checkers judge offline.

use std::collections::{BTreeMap, BTreeSet};

use mls_rs::external_client::builder::ExternalClientBuilder;
use mls_rs::group::verif_hooks as vh;
use mls_rs::group::{ExportedTree, Node, ReceivedMessage};
use mls_rs::{CipherSuiteProvider, MlsMessage};
use mls_rs_core::crypto::{HpkePublicKey, HpkeSecretKey};
use serde_json::{json, Value};

use super::{tree_shapes, Args};
use crate::anycrypto::AnyCrypto;
use crate::driver::*;
use crate::util::*;
use crate::world::*;

fn ek(e: &str) -> String {
    e.split('(').next().unwrap_or(e).chars().take(60).collect()
}

pub fn run_world(
    a: &Args,
    prop: &'static str,
    sizes: ((u64, u64), (u64, u64)),
    mk: &mut dyn FnMut(&mut WorldCfg, u64) -> (Box<dyn Hooks>, DriveCfg),
    fin: &mut dyn FnMut(&mut World, Box<dyn Hooks>),
) -> ShardOut {
    let mut total = ShardOut::default();
    let (histories, rounds) = if a.thorough { sizes.1 } else { sizes.0 };
    let mut extra: BTreeMap<String, Vec<Value>> = BTreeMap::new();
    for h in 0..histories {
        if let Some(only) = super::only_history() {
            if only != h {
                continue;
            }
        }
        let mut rng = Rng::derive(a.seed, prop, a.shard * 10_000 + h);
        let mut cfg = WorldCfg::draw(&mut rng, a.thorough);
        let (mut hooks, dc) = mk(&mut cfg, h);
        let mut w = World::new(cfg.clone(), rng, prop);
        if cfg.record {
            w.rec.enable(&["hpke_seal", "hpke_seal_psk"]);
        }
        if prop == "C07" {
            w.rejoin_hygiene = false;
            w.p_last_resort = (1, 4);
        }
        hooks.init(&mut w);
        let n0 = w.rng.range(2, cfg.max_members.min(8));
        let mut res = w.bootstrap(n0, hooks.as_mut());
        if res.is_ok() {
            for _ in 0..rounds {
                if let Err(e) = w.round(&dc, hooks.as_mut()) {
                    res = Err(e);
                    break;
                }
            }
        }
        if let Err(e) = res {
            if e.contains("PANIC") && panic_in_repo(&e) {
                w.violate(format!("{prop}|panic|{}", e.chars().take(90).collect::<String>()), e.clone());
            } else {
                w.out.inconclusive.push(format!("history {h}: {e}"));
            }
        }
        fin(&mut w, hooks);
        w.out.cov.bump("histories");
        w.out.cov.sample(json!({"cfg": cfg.to_json(), "first_ops": w.script.iter().take(20).cloned().collect::<Vec<_>>()}));
        total.cov.merge(&w.out.cov);
        total.violations.extend(w.out.violations.drain(..));
        total.inconclusive.extend(w.out.inconclusive.drain(..));
        for (k, v) in std::mem::take(&mut w.out.extra) {
            if let Value::Array(a) = v {
                extra.entry(k).or_default().extend(a);
            }
        }
    }
    for (k, v) in extra {
        total.extra.insert(k, Value::Array(v));
    }
    total
}

fn push_extra(w: &mut World, key: &str, v: Value) {
    let e = w.out.extra.entry(key.to_string()).or_insert_with(|| Value::Array(vec![]));
    if let Value::Array(a) = e {
        a.push(v);
    }
}

// ---------------------------------------------------------------------------------------------
// C08
// ---------------------------------------------------------------------------------------------

#[derive(Default)]
pub struct C08 {
    logged: BTreeSet<u64>,
    last_leaves: usize,
    shrank: bool,
}

/// expected leaf index of each applied add: leftmost blank after the removes, in order
fn expected_placement(old_tree: &[u8], removed: &[u32], n_adds: usize) -> Option<Vec<u32>> {
    let t = ExportedTree::from_bytes(old_tree).ok()?;
    let nodes = t.nodes();
    let mut occ: Vec<bool> = (0..=(nodes.len() / 2)).map(|l| nodes.get(2 * l).map(|n| n.is_some()).unwrap_or(false)).collect();
    for r in removed {
        if let Some(o) = occ.get_mut(*r as usize) {
            *o = false;
        }
    }
    // the tree is truncated after removals: trailing blanks disappear, but a new leaf can only be
    // placed at an index below the (power of two) capacity or by growing it
    let mut out = vec![];
    for _ in 0..n_adds {
        let pos = occ.iter().position(|o| !*o).unwrap_or_else(|| {
            occ.push(false);
            occ.len() - 1
        });
        occ[pos] = true;
        out.push(pos as u32);
    }
    Some(out)
}

impl Hooks for C08 {
    fn after_commit(&mut self, w: &mut World, info: &RoundInfo) {
        let act = w.active();
        let suite = w.cfg.suite;
        for &i in &act {
            let role = if i == info.committer {
                "committer"
            } else if info.joiners.contains(&i) {
                "joiner"
            } else {
                "receiver"
            };
            // (1) the complete validation an observer performs on tree + signed GroupInfo
            let prov = w.parties[i].prov;
            let ident = w.parties[i].ident.clone();
            let gi = match w.g(i).group_info_message(false) {
                Ok(g) => g,
                Err(e) => {
                    w.violate(format!("C08|group_info_failed|{role}"), format!("member {i}: {e:?}"));
                    continue;
                }
            };
            let tree = w.g(i).export_tree().into_owned();
            let tb = tree.to_bytes().unwrap_or_default();
            w.out.cov.eval(Some(fnv(&tb) ^ fnv(role.as_bytes())));
            w.out.cov.bump(&format!("validated:{role}"));
            let r = guarded(|| {
                ExternalClientBuilder::new()
                    .crypto_provider(AnyCrypto::new(prov))
                    .identity_provider(ident)
                    .build()
                    .observe_group(gi, Some(tree), None)
                    .map(|_| ())
            });
            match r {
                Ok(Ok(())) => {}
                Ok(Err(e)) => w.violate(
                    format!("C08|exported_tree_fails_validation|{role}|{}", ek(&format!("{e:?}"))),
                    format!("member {i} ({role}) exports a tree that an observer rejects at epoch {}: {e:?}", info.epoch_before + 1),
                ),
                Err(p) => w.violate(format!("C08|panic|observe|{role}"), p),
            }
            // (2) independent recomputation of the tree hash (offline)
            let th = {
                use mls_rs::mls_rs_codec::MlsEncode;
                w.g(i).context().tree_hash.mls_encode_to_vec().unwrap_or_default()
            };
            let key = fnv(&tb) ^ fnv(&th);
            if self.logged.insert(key) && self.logged.len() <= 160 {
                push_extra(w, "c08_trees", json!({"suite": suite, "tree": hx(&tb), "tree_hash_enc": hx(&th), "role": role, "epoch": info.epoch_before + 1}));
            }
            // (3) no trailing blank
            if let Ok(t) = ExportedTree::from_bytes(&tb) {
                if matches!(t.nodes().last(), Some(None)) || t.nodes().is_empty() {
                    w.violate(format!("C08|tree_ends_in_blank|{role}"), format!("member {i}"));
                }
            }
        }
        // leaf placement of the adds of this commit
        if !info.external && !info.added_names.is_empty() {
            if let (Some(exp), Ok(newt)) = (
                expected_placement(&info.old_tree, &info.removed_leaves, info.added_names.len()),
                ExportedTree::from_bytes(&info.new_tree),
            ) {
                for (name, want) in info.added_names.iter().zip(exp.iter()) {
                    let got = newt.nodes().iter().enumerate().find_map(|(idx, n)| match n {
                        Some(Node::Leaf(l)) if idx % 2 == 0 => {
                            let nm = l.signing_identity.credential.as_basic().map(|b| b.identifier.clone()).unwrap_or_default();
                            (&nm == name).then_some((idx / 2) as u32)
                        }
                        _ => None,
                    });
                    w.out.cov.bump("placement_checked");
                    w.out.cov.eval(Some(fnv(format!("place|{want}|{}", info.removed_leaves.len()).as_bytes())));
                    if got != Some(*want) {
                        w.violate(
                            "C08|added_leaf_not_in_leftmost_blank",
                            format!("add of {:?}: expected leaf {want}, found {got:?} (removed {:?})", String::from_utf8_lossy(name), info.removed_leaves),
                        );
                    }
                }
            }
        }
        // coverage of tree shapes
        let n = ExportedTree::from_bytes(&info.new_tree).map(|t| t.nodes().len() / 2 + 1).unwrap_or(0);
        if n > self.last_leaves && self.last_leaves > 0 {
            w.out.cov.bump("shape:tree_grew");
            if self.shrank {
                w.out.cov.bump("shape:regrew_after_shrink");
            }
        }
        if n < self.last_leaves {
            w.out.cov.bump("shape:tree_shrank");
            self.shrank = true;
        }
        self.last_leaves = n;
        for s in tree_shapes(&info.new_tree) {
            w.out.cov.bump(&format!("shape:{s}"));
        }
    }
}

pub fn run_c08(a: &Args) -> ShardOut {
    run_world(
        a,
        "C08",
        ((6, 30), (40, 120)),
        &mut |cfg, _| {
            cfg.max_members = cfg.max_members.max(6);
            (
                Box::new(C08::default()),
                DriveCfg {
                    bias_add: 4,
                    bias_remove: 4,
                    max_props: 5,
                    ..DriveCfg::default()
                },
            )
        },
        &mut |_, _| {},
    )
}

// ---------------------------------------------------------------------------------------------
// C09
// ---------------------------------------------------------------------------------------------

#[derive(Default)]
pub struct C09 {
    /// member -> (leaf public key, leaf private key) as of the previous epoch
    prev_leaf: BTreeMap<usize, (Vec<u8>, Vec<u8>)>,
}

fn all_public_keys(tree: &[u8]) -> BTreeSet<Vec<u8>> {
    let mut s = BTreeSet::new();
    if let Ok(t) = ExportedTree::from_bytes(tree) {
        for n in t.nodes().iter().flatten() {
            s.insert(n.public_key().as_ref().to_vec());
        }
    }
    s
}

impl Hooks for C09 {
    fn after_commit(&mut self, w: &mut World, info: &RoundInfo) {
        let act = w.active();
        for &i in &act {
            let role = if i == info.committer {
                "committer"
            } else if info.joiners.contains(&i) {
                "joiner"
            } else {
                "receiver"
            };
            let (leaf, keys) = vh::private_tree_view(w.g(i));
            let path = vh::direct_path_public(w.g(i), leaf);
            let unmerged = vh::direct_path_unmerged(w.g(i), leaf);
            let cs = w.suite_of(w.parties[i].prov);
            let lvl = if i == info.committer { 0 } else { vh::tree_math::leaf_lca_level(leaf, info.committer_new_leaf) };
            for (pos, (node, pk)) in path.iter().enumerate() {
                let sk = keys.get(pos).cloned().flatten();
                w.out.cov.eval(Some(fnv(format!("{role}|{pos}|{}|{}|{lvl}", sk.is_some(), pk.is_some()).as_bytes())));
                match (sk, pk) {
                    (Some(_), None) => w.violate(
                        format!("C09|key_stored_for_blank_node|{role}"),
                        format!("member {i} ({role}, leaf {leaf}) stores a private key for blank node {node} (path position {pos})"),
                    ),
                    (Some(sk), Some(pk)) => {
                        w.out.cov.bump("private_key_checked");
                        let pkk = HpkePublicKey::from(pk.clone());
                        let skk = HpkeSecretKey::from(sk);
                        let pt = b"c09-probe".to_vec();
                        let ok = cs
                            .hpke_seal(&pkk, b"c09", None, &pt)
                            .ok()
                            .and_then(|ct| cs.hpke_open(&ct, &skk, &pkk, b"c09", None).ok())
                            .map(|o| o.to_vec() == pt)
                            .unwrap_or(false);
                        if !ok {
                            w.violate(
                                format!("C09|private_key_does_not_match_node|{role}|pos{}", pos.min(3)),
                                format!("member {i} ({role}, leaf {leaf}, lca level {lvl} with committer): the key stored for node {node} (path position {pos}) does not open what is sealed to that node's public key"),
                            );
                        }
                    }
                    (None, Some(_)) => {
                        // a member is entitled to the key of every non-blank node of its direct path
                        // at which it is not listed as unmerged
                        if unmerged.get(pos).map(|u| u.contains(&leaf)).unwrap_or(false) {
                            w.out.cov.bump("key_not_held_because_unmerged");
                        } else {
                            w.violate(
                                format!("C09|entitled_key_not_held|{role}"),
                                format!("member {i} ({role}, leaf {leaf}, lca level {lvl} with committer) holds no private key for node {node} (path position {pos}), which is not blank and does not list the member as unmerged"),
                            );
                        }
                    }
                    (None, None) => {}
                }
            }
            if keys.len() > path.len() {
                if keys[path.len()..].iter().any(|k| k.is_some()) {
                    w.violate(format!("C09|key_stored_beyond_direct_path|{role}"), format!("member {i}"));
                }
            }
            if keys.first().cloned().flatten().is_none() {
                w.violate(format!("C09|no_leaf_private_key|{role}"), format!("member {i}"));
            }
        }
        // freshness of the committer's path
        if info.has_path {
            let old = all_public_keys(&info.old_tree);
            let c = info.committer;
            if w.parties[c].status == Status::Active {
                let path = vh::direct_path_public(w.g(c), info.committer_new_leaf);
                for (pos, (node, pk)) in path.iter().enumerate() {
                    if let Some(pk) = pk {
                        w.out.cov.bump("freshness_checked");
                        if old.contains(pk) {
                            w.violate(
                                format!("C09|path_key_not_fresh|pos{}", pos.min(3)),
                                format!("after the path commit of {c} node {node} (position {pos} of its direct path) carries a key that was already in the previous tree"),
                            );
                        }
                    }
                }
            }
        }
        // an old own leaf private key must be gone once the member replaced its leaf itself
        for &i in &act {
            let (leaf, keys) = vh::private_tree_view(w.g(i));
            let path = vh::direct_path_public(w.g(i), leaf);
            let cur_pk = path.first().and_then(|x| x.1.clone()).unwrap_or_default();
            let cur_sk = keys.first().cloned().flatten().unwrap_or_default();
            if let Some((old_pk, old_sk)) = self.prev_leaf.get(&i) {
                if *old_pk != cur_pk && !old_sk.is_empty() {
                    w.out.cov.bump("leaf_rekey_checked");
                    let snap = vh::snapshot_bytes(w.g(i)).unwrap_or_default();
                    if snap.windows(old_sk.len()).any(|x| x == old_sk.as_slice()) {
                        w.violate(
                            format!("C09|old_leaf_private_key_retained|{}", if i == info.committer { "own_commit" } else { "own_update" }),
                            format!("member {i} replaced its leaf key but its state still contains the old leaf private key"),
                        );
                    }
                }
            }
            self.prev_leaf.insert(i, (cur_pk, cur_sk));
        }
        for s in tree_shapes(&info.new_tree) {
            w.out.cov.bump(&format!("shape:{s}"));
        }
    }

    fn on_removed(&mut self, _w: &mut World, who: usize) {
        self.prev_leaf.remove(&who);
    }
}

pub fn run_c09(a: &Args) -> ShardOut {
    run_world(
        a,
        "C09",
        ((6, 25), (40, 80)),
        &mut |_, _| (Box::new(C09::default()), DriveCfg::default()),
        &mut |_, _| {},
    )
}

// ---------------------------------------------------------------------------------------------
// C02
// ---------------------------------------------------------------------------------------------

#[derive(Default)]
pub struct C02 {
    commits_logged: usize,
}

impl C02 {
    fn feed_outsiders(&mut self, w: &mut World, kind: &'static str, msg: &MlsMessage) {
        // every former object of every party (removed or replaced), and never-added parties
        let mut formers: Vec<(usize, usize)> = vec![];
        for p in &w.parties {
            for (k, _) in p.former.iter().enumerate() {
                formers.push((p.id, k));
            }
        }
        let msg_epoch = msg.epoch();
        for (pid, k) in formers {
            let (left_at, g0) = {
                let f = &w.parties[pid].former[k];
                (f.0, f.1.clone())
            };
            // only traffic of later epochs: the removing commit itself and anything of the epoch
            // the party was still a member of are not "later"
            if let Some(me) = msg_epoch {
                if me <= left_at {
                    continue;
                }
            }
            let mut g = g0;
            let m = msg.clone();
            w.out.cov.eval(Some(fnv(format!("outsider|{kind}|{}", msg_epoch.map(|e| (e - left_at).min(4)).unwrap_or(9)).as_bytes())));
            w.out.cov.bump(&format!("outsider_fed:{kind}"));
            match guarded(|| g.process_incoming_message(m)) {
                Ok(Err(_)) => {}
                Ok(Ok(ReceivedMessage::Welcome)) | Ok(Ok(ReceivedMessage::KeyPackage(_))) => {}
                Ok(Ok(ev)) => w.violate(
                    format!("C02|former_member_processed_later_traffic|{kind}|{}", kind_of(&ev)),
                    format!("party {pid} left at epoch {left_at} and still processed a {kind} of epoch {msg_epoch:?}"),
                ),
                Err(p) => w.violate(format!("C02|panic|former_member|{kind}"), p),
            }
        }
        // a never-added client tries every Welcome
        if kind == "welcome" {
            let outs: Vec<usize> = w.parties.iter().filter(|p| p.status == Status::Outside).map(|p| p.id).collect();
            for o in outs.into_iter().take(3) {
                if w.addressed_by(o, std::slice::from_ref(msg)) {
                    continue;
                }
                let c = &w.parties[o].client;
                w.out.cov.bump("outsider_fed:welcome_join_attempt");
                match guarded(|| c.join_group(None, msg, None).map(|_| ())) {
                    Ok(Ok(())) => w.violate("C02|outsider_joined_from_foreign_welcome", format!("party {o}")),
                    Ok(Err(_)) => {}
                    Err(p) => w.violate("C02|panic|outsider_join", p),
                }
            }
        }
    }
}

impl Hooks for C02 {
    fn on_message(&mut self, w: &mut World, kind: &'static str, _from: usize, msg: &MlsMessage) {
        self.feed_outsiders(w, kind, msg);
    }

    fn after_commit(&mut self, w: &mut World, info: &RoundInfo) {
        // secrets of the new epoch must not be known to any former object
        let act = w.active();
        if let Some(&m) = act.first() {
            let auth = w.g(m).epoch_authenticator().map(|s| s.as_bytes().to_vec()).unwrap_or_default();
            let exp = w.g(m).export_secret(b"verif", b"ctx", 32).map(|s| s.as_bytes().to_vec()).unwrap_or_default();
            for p in &w.parties {
                for (left_at, g) in &p.former {
                    let a2 = g.epoch_authenticator().map(|s| s.as_bytes().to_vec()).unwrap_or_default();
                    let e2 = g.export_secret(b"verif", b"ctx", 32).map(|s| s.as_bytes().to_vec()).unwrap_or_default();
                    if a2 == auth || e2 == exp {
                        let (pid, la) = (p.id, *left_at);
                        let sig = "C02|former_member_knows_later_epoch_secret".to_string();
                        let det = format!("party {pid} (left at {la}) holds the authenticator/exported secret of epoch {}", info.epoch_before + 1);
                        w.out.violate("C02", sig, det);
                    }
                }
            }
            w.out.cov.bump("secrets_compared_with_outsiders");
        }
        // event log for the offline recipient check
        if self.commits_logged < 120 {
            self.commits_logged += 1;
            let evs = w.rec.take();
            let seals: Vec<Value> = evs
                .iter()
                .filter(|e| e.who == info.committer as u32 && e.op == info.build_op)
                .map(|e| json!({"pk": hx(&e.a), "info": hx(&e.b), "kind": e.kind}))
                .collect();
            // the keys each removed / replaced party knew in the old tree are recomputed offline
            // from the old tree and the removed leaf indices
            push_extra(
                w,
                "c02_commits",
                json!({
                    "suite": w.cfg.suite,
                    "epoch": info.epoch_before + 1,
                    "external": info.external,
                    "has_path": info.has_path,
                    "committer_leaf": info.committer_new_leaf,
                    "old_tree": hx(&info.old_tree),
                    "new_tree": hx(&info.new_tree),
                    "added_leaves": info.added_leaves,
                    "added_kps": info.added_kps.iter().map(|k| hx(k)).collect::<Vec<_>>(),
                    "removed_leaves": info.removed_leaves,
                    "n_welcomes": info.welcomes.len(),
                    "commit": hx(&info.commit_msg.to_bytes().unwrap_or_default()),
                    "seals": seals,
                }),
            );
        } else {
            w.rec.take();
        }
        for s in tree_shapes(&info.new_tree) {
            w.out.cov.bump(&format!("shape:{s}"));
        }
    }
}

pub fn run_c02(a: &Args) -> ShardOut {
    run_world(
        a,
        "C02",
        ((5, 22), (30, 60)),
        &mut |cfg, _| {
            cfg.record = true;
            cfg.encrypt_controls = false; // the offline checker reads the UpdatePath of public commits
            (
                Box::new(C02::default()),
                DriveCfg {
                    bias_remove: 4,
                    p_external_commit: (1, 5),
                    ..DriveCfg::default()
                },
            )
        },
        &mut |_, _| {},
    )
}

// ---------------------------------------------------------------------------------------------
// C07
// ---------------------------------------------------------------------------------------------

#[derive(Default)]
pub struct C07 {
    /// GroupInfo (allowing external commits) of earlier epochs: (epoch, message, tree)
    stale_gi: Vec<(u64, MlsMessage, ExportedTree<'static>)>,
    old_trees: Vec<(u64, ExportedTree<'static>)>,
}

impl C07 {
    /// A joiner must be able to send, receive and commit right away (on clones).
    fn joiner_can_operate(&mut self, w: &mut World, j: usize, how: &str) {
        let act = w.active();
        let Some(&peer) = act.iter().find(|i| **i != j) else { return };
        let lvl = vh::tree_math::leaf_lca_level(w.leaf_of(j), w.leaf_of(peer));
        w.out.cov.eval(Some(fnv(format!("joiner_ops|{how}|{lvl}").as_bytes())));
        w.out.cov.bump(&format!("joiner_ops_checked:{how}"));
        let mut jg = w.g(j).clone();
        let mut pg = w.g(peer).clone();
        // send
        match guarded(|| jg.encrypt_application_message(b"hello from the joiner", vec![1, 2])) {
            Ok(Ok(m)) => match guarded(|| pg.process_incoming_message(m)) {
                Ok(Ok(ReceivedMessage::ApplicationMessage(d))) if d.data() == b"hello from the joiner" && d.sender_index == w.leaf_of(j) => {}
                Ok(Ok(_)) => w.violate(format!("C07|joiner_message_misreported|{how}"), format!("joiner {j}")),
                Ok(Err(e)) => w.violate(format!("C07|member_cannot_read_joiner|{how}|{}", ek(&format!("{e:?}"))), format!("joiner {j}, member {peer}: {e:?}")),
                Err(p) => w.violate(format!("C07|panic|read_joiner|{how}"), p),
            },
            Ok(Err(e)) => w.violate(format!("C07|joiner_cannot_send|{how}|{}", ek(&format!("{e:?}"))), format!("joiner {j}: {e:?}")),
            Err(p) => w.violate(format!("C07|panic|joiner_send|{how}"), p),
        }
        // receive
        match guarded(|| pg.encrypt_application_message(b"welcome", vec![])) {
            Ok(Ok(m)) => match guarded(|| jg.process_incoming_message(m)) {
                Ok(Ok(ReceivedMessage::ApplicationMessage(_))) => {}
                Ok(Ok(_)) => {}
                Ok(Err(e)) => w.violate(format!("C07|joiner_cannot_read_member|{how}|{}", ek(&format!("{e:?}"))), format!("joiner {j}, member {peer}: {e:?}")),
                Err(p) => w.violate(format!("C07|panic|joiner_read|{how}"), p),
            },
            _ => {}
        }
        // commit: everybody else must accept the joiner's empty commit
        match guarded(|| jg.commit(vec![])) {
            Ok(Ok(out)) => {
                for &o in act.iter().filter(|i| **i != j) {
                    let mut og = w.g(o).clone();
                    let m = out.commit_message.clone();
                    match guarded(|| og.process_incoming_message(m)) {
                        Ok(Ok(_)) => w.out.cov.bump("joiner_commit_accepted"),
                        Ok(Err(e)) => w.violate(
                            format!("C07|joiner_commit_rejected|{how}|{}", ek(&format!("{e:?}"))),
                            format!("member {o} rejects the first commit of joiner {j} ({how}): {e:?}"),
                        ),
                        Err(p) => w.violate(format!("C07|panic|joiner_commit|{how}"), p),
                    }
                }
            }
            Ok(Err(e)) => w.violate(format!("C07|joiner_cannot_commit|{how}|{}", ek(&format!("{e:?}"))), format!("joiner {j}: {e:?}")),
            Err(p) => w.violate(format!("C07|panic|joiner_commit_build|{how}"), p),
        }
    }
}

impl Hooks for C07 {
    fn after_build(&mut self, w: &mut World, _who: usize, out: &mls_rs::group::CommitOutput) {
        // mismatched combinations on the joiner side (the right ones are used by the driver)
        for wm in &out.welcome_messages {
            let cands: Vec<usize> = w.parties.iter().filter(|p| p.status == Status::Outside && !p.key_packages.is_empty()).map(|p| p.id).collect();
            for pid in cands {
                if !w.addressed_by(pid, std::slice::from_ref(wm)) {
                    continue;
                }
                // right Welcome + tree of another epoch
                if let Some(t) = &out.ratchet_tree {
                    let _ = t;
                    for (ep, old) in self.old_trees.iter().rev().take(2) {
                        let c = &w.parties[pid].client;
                        let o = old.clone();
                        w.out.cov.bump("negative:welcome_with_tree_of_other_epoch");
                        w.out.cov.eval(Some(fnv(b"neg_tree_other_epoch")));
                        match guarded(|| c.join_group(Some(o), wm, None).map(|_| ())) {
                            Ok(Ok(())) => w.violate("C07|joined_with_tree_of_another_epoch", format!("party {pid} joined with the tree of epoch {ep}")),
                            Ok(Err(_)) => {}
                            Err(p) => w.violate("C07|panic|join_with_wrong_tree", p),
                        }
                    }
                    // missing tree
                    let c = &w.parties[pid].client;
                    w.out.cov.bump("negative:welcome_without_required_tree");
                    match guarded(|| c.join_group(None, wm, None).map(|_| ())) {
                        Ok(Ok(())) => w.violate("C07|joined_without_tree", format!("party {pid}")),
                        Ok(Err(_)) => {}
                        Err(p) => w.violate("C07|panic|join_without_tree", p),
                    }
                }
            }
        }
    }

    fn after_commit(&mut self, w: &mut World, info: &RoundInfo) {
        super::c01::agreement_check(w, info);
        // retag what the shared agreement monitor reported
        for v in w.out.violations.iter_mut() {
            if v.sig.starts_with("C01|") {
                v.sig = v.sig.replacen("C01|", "C07|joiner_state|", 1);
                v.prop = "C07".into();
            }
        }
        let joiners: Vec<(usize, &str)> = info
            .joiners
            .iter()
            .map(|j| (*j, "welcome"))
            .chain(info.external.then_some((info.committer, "external_commit")))
            .collect();
        let rejoiners: BTreeSet<usize> = joiners.iter().map(|x| x.0).filter(|j| w.rejoined_same_storage.contains(j)).collect();
        // first pass: every former member that came back with the same storage is probed (and its
        // storage then cleaned up), before anybody is asked to process further commits
        for (j, _) in joiners.clone() {
            if w.parties[j].status != Status::Active {
                continue;
            }
            if rejoiners.contains(&j) {
                // a former member that comes back with the same storage must be able to follow
                // the very next commit (probed on clones so that the verdict does not depend on
                // what the history does next)
                let peer = w.active().into_iter().find(|i| *i != j);
                if let Some(peer) = peer {
                    let mut pg = w.g(peer).clone();
                    pg.clear_pending_commit();
                    pg.clear_proposal_cache();
                    let mut jg = w.g(j).clone();
                    jg.clear_proposal_cache();
                    if let Ok(Ok(out)) = guarded(|| pg.commit(vec![])) {
                        w.out.cov.bump("rejoin_same_storage_probed");
                        w.out.cov.eval(Some(fnv(b"rejoin_same_storage")));
                        match guarded(|| jg.process_incoming_message(out.commit_message)) {
                            Ok(Ok(_)) => {}
                            Ok(Err(e)) => w.violate(
                                format!("C07|rejoined_member_with_same_storage_cannot_advance|{}", ek(&format!("{e:?}"))),
                                format!("party {j} was a member before, was removed, came back through a Welcome with the same storage (which still holds prior epochs of its earlier membership) and rejects the next honest commit: {e:?}"),
                            ),
                            Err(p) => w.violate("C07|panic|rejoin_same_storage", p),
                        }
                    }
                }
                // the application cleans up so that the history can go on
                let gid = w.group_id.clone();
                w.parties[j].stores.gs.delete_group(&gid);
                w.rejoined_same_storage.remove(&j);
            }
        }
        for (j, how) in joiners {
            if w.parties[j].status != Status::Active {
                continue;
            }
            let how2 = if rejoiners.contains(&j) { "welcome_rejoin_same_storage" } else { how };
            self.joiner_can_operate(w, j, how2);
            // key package consumption: gone after the joiner's first write, unless last resort
            if how == "welcome" {
                let ids: Vec<Vec<u8>> = w.parties[j].stores.kp.seen.lock().unwrap().clone();
                let before: usize = ids.iter().filter(|id| w.parties[j].stores.kp.has(id)).count();
                let g = w.gm(j);
                if let Ok(Ok(())) = guarded(|| g.write_to_storage()) {
                    let after: usize = ids.iter().filter(|id| w.parties[j].stores.kp.has(id)).count();
                    w.out.cov.bump("key_package_consumption_checked");
                    w.out.cov.eval(Some(fnv(format!("kp|{before}|{after}").as_bytes())));
                    let last_resort = w.parties[j].joined_with_last_resort;
                    if last_resort {
                        w.out.cov.bump("joined_with_last_resort_key_package");
                        if after != before {
                            w.violate(
                                "C07|last_resort_key_package_removed",
                                format!("joiner {j}: {before} stored key packages before its first write, {after} afterwards, although the used one is marked last-resort"),
                            );
                        }
                    } else if after + 1 != before {
                        w.violate(
                            "C07|used_key_package_not_removed",
                            format!("joiner {j}: {before} stored key packages before its first write, {after} afterwards (exactly the used one must disappear)"),
                        );
                    }
                    // the same Welcome cannot be used a second time with the same storage
                    for wm in &info.welcomes {
                        let c = &w.parties[j].client;
                        let t = (!w.cfg.ratchet_tree_extension).then(|| w.g(j).export_tree().into_owned());
                        w.out.cov.bump("negative:welcome_reused_after_write");
                        match guarded(|| c.join_group(t, wm, None).map(|_| ())) {
                            Ok(Ok(())) if last_resort => w.out.cov.bump("last_resort_welcome_usable_again"),
                            Ok(Ok(())) => w.violate("C07|welcome_usable_twice", format!("joiner {j} joined again from the same Welcome after persisting its group")),
                            Ok(Err(_)) => {}
                            Err(p) => w.violate("C07|panic|welcome_reuse", p),
                        }
                    }
                }
            }
        }
        // stale GroupInfo: an external commit built from an older epoch must be rejected by all
        if w.cfg.allow_external_commit {
            if let Some((ep, gi, tree)) = self.stale_gi.iter().rev().find(|x| x.0 < w.epoch()).cloned() {
                let j = w.new_party();
                let r = {
                    let c = &w.parties[j].client;
                    guarded(|| c.external_commit_builder()?.with_tree_data(tree).build(gi))
                };
                w.out.cov.bump("negative:external_commit_from_stale_group_info");
                w.out.cov.eval(Some(fnv(format!("stale_gi|{}", (w.epoch() - ep).min(4)).as_bytes())));
                if let Ok(Ok((sg, commit))) = r {
                    for o in w.active() {
                        let mut og = w.g(o).clone();
                        let m = commit.clone();
                        match guarded(|| og.process_incoming_message(m)) {
                            Ok(Ok(_)) => w.violate("C07|stale_external_commit_accepted", format!("member {o} accepted an external commit built from the GroupInfo of epoch {ep} at epoch {}", w.epoch())),
                            Ok(Err(_)) => {}
                            Err(p) => w.violate("C07|panic|stale_external_commit", p),
                        }
                    }
                    // the local object the joiner holds is not the group
                    if let Some(&m) = w.active().first() {
                        if sg.epoch_authenticator().map(|s| s.as_bytes().to_vec()).ok() == w.g(m).epoch_authenticator().map(|s| s.as_bytes().to_vec()).ok() {
                            w.violate("C07|stale_external_joiner_equals_group", format!("party {j}"));
                        }
                    }
                }
                w.parties[j].status = Status::Ghost;
            }
            if let Some(&m) = w.active().first() {
                if let Ok(gi) = w.g(m).group_info_message_allowing_ext_commit(false) {
                    self.stale_gi.push((w.epoch(), gi, w.g(m).export_tree().into_owned()));
                    if self.stale_gi.len() > 4 {
                        self.stale_gi.remove(0);
                    }
                }
            }
        }
        if let Some(&m) = w.active().first() {
            self.old_trees.push((w.epoch(), w.g(m).export_tree().into_owned()));
            if self.old_trees.len() > 4 {
                self.old_trees.remove(0);
            }
        }
        for s in tree_shapes(&info.new_tree) {
            w.out.cov.bump(&format!("shape:{s}"));
        }
    }

    fn allow_reload(&self) -> bool {
        true
    }
}

pub fn run_c07(a: &Args) -> ShardOut {
    run_world(
        a,
        "C07",
        ((6, 22), (40, 60)),
        &mut |_, _| {
            (
                Box::new(C07::default()),
                DriveCfg {
                    bias_add: 6,
                    bias_remove: 3,
                    p_external_commit: (1, 5),
                    ..DriveCfg::default()
                },
            )
        },
        &mut |_, _| {},
    )
}
