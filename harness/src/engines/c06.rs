//! C06 — a group restored from storage is the same group, at every crash point.
//!
//! Every member has a *primary* object and, once it has been reloaded, a *twin* that was never
//! reloaded. All deterministic traffic is applied to both and they are compared after every
//! step. Reload points are drawn after every kind of step (own proposal, received proposal,
//! commit creation with the pending commit present, commit application, received commit,
//! received application message). A crash monitor keeps the state as of the last write and
//! compares it with what a fresh process loads later, after further unwritten operations.
//! With the Tee backend the in-memory and SQLite providers are compared after every write.

use std::collections::BTreeMap;

use mls_rs::group::verif_hooks as vh;
use mls_rs::group::{CommitEffect, ReceivedMessage};
use mls_rs::psk::ExternalPskId;
use mls_rs::MlsMessage;
use serde_json::json;

use super::Args;
use crate::driver::*;
use crate::store::Backend;
use crate::util::*;
use crate::world::*;

struct St {
    twins: BTreeMap<usize, VGroup>,
    /// state as of the last write (post-write object) per member
    written: BTreeMap<usize, VGroup>,
    p_reload: (u32, u32),
    /// a second group of the same client, kept in the same storage
    siblings: BTreeMap<usize, VGroup>,
}

fn ek<E: std::fmt::Debug>(e: &E) -> String {
    err_kind(e).split('/').next().unwrap_or("").to_string()
}

/// differences that matter between a reloaded member and its never-reloaded twin: everything
/// except the bookkeeping of what has not been written yet
fn lockstep_diff(w: &World, who: usize, a: &VGroup, b: &VGroup) -> Vec<&'static str> {
    let mut d = vh::state_diff(a, b);
    d.retain(|x| *x != "repo_inserts" && *x != "repo_kp_removal");
    if d.contains(&"epoch_secrets") && vh::epoch_secrets_equiv(a, b, 6).is_none() {
        d.retain(|x| *x != "epoch_secrets");
    }
    let _ = (w, who);
    d
}

impl St {
    /// write + load in a "new process" and compare; the loaded object becomes the primary, the
    /// pre-write clone the twin.
    fn reload(&mut self, w: &mut World, who: usize, at: &'static str) {
        let gid = w.group_id.clone();
        let saved = w.g(who).clone();
        w.log(json!({"op":"reload","who":who,"at":at}));
        {
            let g = w.gm(who);
            match guarded(|| g.write_to_storage()) {
                Ok(Ok(())) => {}
                Ok(Err(e)) => {
                    w.violate(format!("C06|write_failed|{at}|{}", ek(&e)), format!("member {who}: {e:?}"));
                    return;
                }
                Err(p) => {
                    w.violate(format!("C06|panic|write|{at}"), p);
                    return;
                }
            }
        }
        // writing must not change the member itself (apart from forgetting what is now stored)
        let d = lockstep_diff(w, who, &saved, w.g(who));
        if !d.is_empty() {
            w.violate(format!("C06|write_changed_member|{at}|{}", d.join("+")), format!("member {who}"));
        }
        self.provider_equivalence(w, who, at);
        let p = &w.parties[who];
        let (client, _) = make_client(&p.name, p.prov, p.id as u32, w.cfg.suite, p.sk.clone(), p.pk.clone(), &p.stores, &p.ident, p.rules.clone(), None);
        let with_tree = w.rng.chance(1, 4);
        let loaded = if with_tree {
            // write without the tree, supply it separately
            let tree = w.g(who).export_tree().into_owned();
            let g = w.gm(who);
            let _ = guarded(|| g.write_to_storage_without_ratchet_tree());
            let r = guarded(|| client.load_group_with_ratchet_tree(&gid, tree));
            // put the full state back for later plain loads
            let g = w.gm(who);
            let _ = guarded(|| g.write_to_storage());
            r
        } else {
            guarded(|| client.load_group(&gid))
        };
        let loaded = match loaded {
            Ok(Ok(g)) => g,
            Ok(Err(e)) => {
                w.violate(format!("C06|load_failed|{at}|{}", ek(&e)), format!("member {who}: {e:?}"));
                return;
            }
            Err(p) => {
                w.violate(format!("C06|panic|load|{at}"), p);
                return;
            }
        };
        w.out.cov.eval(Some(fnv(format!("reload|{at}|{}|{}|{with_tree}", saved.has_pending_commit(), saved.get_cached_proposals().len().min(3)).as_bytes())));
        w.out.cov.bump(&format!("reload_at:{at}"));
        if saved.has_pending_commit() {
            w.out.cov.bump("reload_with_pending_commit");
        }
        if !saved.get_cached_proposals().is_empty() {
            w.out.cov.bump("reload_with_cached_proposals");
        }
        // identical complete state (the key-package-removal marker is executed at write time and
        // is deliberately not part of what is stored)
        let mut d = vh::state_diff(w.g(who), &loaded);
        d.retain(|x| *x != "repo_kp_removal");
        if !d.is_empty() {
            w.violate(
                format!("C06|loaded_differs_from_saved|{at}|{}", d.join("+")),
                format!("member {who}: the loaded group differs from the written one in {d:?} (pending={}, cached proposals={})", saved.has_pending_commit(), saved.get_cached_proposals().len()),
            );
        }
        if loaded.has_pending_commit() != saved.has_pending_commit()
            || loaded.get_cached_proposals().len() != saved.get_cached_proposals().len()
            || loaded.current_epoch() != saved.current_epoch()
        {
            w.violate(format!("C06|loaded_api_view_differs|{at}"), format!("member {who}"));
        }
        self.written.insert(who, loaded.clone());
        self.twins.insert(who, saved);
        let p = &mut w.parties[who];
        p.group = Some(loaded);
        p.client = client;
    }

    /// plain write (no reload) remembered for the crash monitor
    fn write_only(&mut self, w: &mut World, who: usize) {
        let g = w.gm(who);
        if let Ok(Ok(())) = guarded(|| g.write_to_storage()) {
            self.written.insert(who, w.g(who).clone());
            self.provider_equivalence(w, who, "write");
            if w.rng.chance(1, 3) {
                self.sibling_activity(w, who);
            }
        }
    }

    /// The same client keeps a second group in the same storage; that group runs ahead and is
    /// written. What is stored for the first group must not change.
    fn sibling_activity(&mut self, w: &mut World, who: usize) {
        let hi = w.g(who).current_epoch() + 2;
        let gid = w.group_id.clone();
        let before = w.parties[who].stores.gs.dump(&gid, hi);
        if !self.siblings.contains_key(&who) {
            let c = &w.parties[who].client;
            match guarded(|| c.create_group(Default::default(), Default::default(), None)) {
                Ok(Ok(g)) => {
                    self.siblings.insert(who, g);
                }
                _ => return,
            }
        }
        let target = w.g(who).current_epoch() + w.cfg.retention + 1 + w.rng.below(3) as u64;
        let g2 = self.siblings.get_mut(&who).unwrap();
        let mut steps = 0;
        while g2.current_epoch() < target && steps < 80 {
            steps += 1;
            if !matches!(guarded(|| g2.commit(vec![])), Ok(Ok(_))) || !matches!(guarded(|| g2.apply_pending_alt()), Ok(Ok(_))) {
                return;
            }
            if steps % 3 == 0 && !matches!(guarded(|| g2.write_to_storage()), Ok(Ok(()))) {
                return;
            }
        }
        if !matches!(guarded(|| g2.write_to_storage()), Ok(Ok(()))) {
            return;
        }
        let after = w.parties[who].stores.gs.dump(&gid, hi);
        w.out.cov.bump("sibling_group_writes");
        w.out.cov.eval(Some(fnv(format!("sibling|{:?}|{}", w.cfg.backend, before.epochs.len()).as_bytes())));
        let mut d = vec![];
        if before.max_epoch_id != after.max_epoch_id {
            d.push(format!("max_epoch_id {:?} -> {:?}", before.max_epoch_id, after.max_epoch_id));
        }
        if before.epochs.keys().collect::<Vec<_>>() != after.epochs.keys().collect::<Vec<_>>() {
            d.push(format!("stored epochs {:?} -> {:?}", before.epochs.keys().collect::<Vec<_>>(), after.epochs.keys().collect::<Vec<_>>()));
        } else if before.epochs != after.epochs {
            d.push("stored epoch records changed".into());
        }
        if before.state != after.state {
            d.push("stored snapshot changed".into());
        }
        if !d.is_empty() {
            w.violate(
                format!("C06|stored_history_changed_by_another_groups_write|{:?}", w.cfg.backend),
                format!("member {who} (retention {}): after its second group was written at epoch {}: {d:?}", w.cfg.retention, self.siblings[&who].current_epoch()),
            );
        }
        self.provider_equivalence(w, who, "write_of_second_group");
        self.crash_check(w, who);
    }

    /// the process died some unwritten operations after the last write: a fresh load returns
    /// exactly the state at that write
    fn crash_check(&mut self, w: &mut World, who: usize) {
        let Some(at_write) = self.written.get(&who).cloned() else { return };
        let gid = w.group_id.clone();
        let p = &w.parties[who];
        let (client, _) = make_client(&p.name, p.prov, p.id as u32, w.cfg.suite, p.sk.clone(), p.pk.clone(), &p.stores, &p.ident, p.rules.clone(), None);
        match guarded(|| client.load_group(&gid)) {
            Ok(Ok(l)) => {
                let behind = w.g(who).current_epoch() - at_write.current_epoch();
                w.out.cov.eval(Some(fnv(format!("crash|{behind}").as_bytes())));
                w.out.cov.bump("crash_points");
                let mut d = vh::state_diff(&at_write, &l);
                d.retain(|x| *x != "repo_kp_removal");
                if !d.is_empty() {
                    w.violate(
                        format!("C06|load_after_crash_differs_from_last_write|{}", d.join("+")),
                        format!("member {who}: {behind} epochs of unwritten operations later the load differs from the last written state in {d:?}"),
                    );
                }
            }
            Ok(Err(e)) => w.violate(format!("C06|load_after_crash_failed|{}", ek(&e)), format!("member {who}: {e:?}")),
            Err(p) => w.violate("C06|panic|load_after_crash", p),
        }
    }

    fn provider_equivalence(&mut self, w: &mut World, who: usize, at: &str) {
        let hi = w.g(who).current_epoch() + 2;
        let Some((m, s)) = w.parties[who].stores.gs.dump_both(&w.group_id, hi) else { return };
        w.out.cov.bump("provider_equivalence_checked");
        w.out.cov.eval(Some(fnv(format!("tee|{}|{:?}", m.epochs.len(), m.max_epoch_id.map(|x| x % 4)).as_bytes())));
        let mut diffs = vec![];
        if m.max_epoch_id != s.max_epoch_id {
            diffs.push(format!("max_epoch_id {:?} vs {:?}", m.max_epoch_id, s.max_epoch_id));
        }
        let (km, ks): (Vec<_>, Vec<_>) = (m.epochs.keys().copied().collect(), s.epochs.keys().copied().collect());
        if km != ks {
            diffs.push(format!("stored epoch ids in-memory {km:?} vs sqlite {ks:?}"));
        } else {
            for id in km {
                let (a, b) = (&m.epochs[&id], &s.epochs[&id]);
                if a != b && !matches!((vh::EpochRec::decode(a), vh::EpochRec::decode(b)), (Ok(x), Ok(y)) if x == y) {
                    diffs.push(format!("epoch record {id} differs"));
                }
            }
        }
        match (&m.state, &s.state) {
            (Some(a), Some(b)) => {
                if a != b && !matches!(vh::stored_snapshots_equal(a, b), Ok(true)) {
                    diffs.push("stored snapshot differs".into());
                }
            }
            (None, None) => {}
            _ => diffs.push("snapshot present in one provider only".into()),
        }
        if !diffs.is_empty() {
            w.violate(
                format!("C06|providers_expose_different_history|{}", diffs[0].split(' ').take(3).collect::<Vec<_>>().join("_").chars().filter(|c| !c.is_ascii_digit()).collect::<String>()),
                format!("member {who} after {at} (retention {}): {diffs:?}", w.cfg.retention),
            );
        }
    }

    fn maybe_reload(&mut self, w: &mut World, who: usize, at: &'static str) {
        if w.parties[who].status == Status::Active && w.rng.chance(self.p_reload.0, self.p_reload.1) {
            self.reload(w, who, at);
        }
    }

    /// deliver to the primary and, if there is one, the twin; compare afterwards
    fn deliver_both(&mut self, w: &mut World, to: usize, msg: &MlsMessage, what: &'static str) -> Result<ReceivedMessage, String> {
        let r = w.deliver(to, msg);
        if let Some(t) = self.twins.get_mut(&to) {
            let m = msg.clone();
            let rt = guarded(|| t.process_incoming_message(m));
            let ok_t = matches!(rt, Ok(Ok(_)));
            w.out.cov.bump("lockstep_steps");
            w.out.cov.eval(Some(fnv(format!("lockstep|{what}|{}", r.is_ok()).as_bytes())));
            if ok_t != r.is_ok() {
                w.violate(
                    format!("C06|twin_and_reloaded_disagree_on_result|{what}"),
                    format!("member {to}: reloaded {:?} vs twin ok={ok_t}", r.as_ref().map(|_| ()).map_err(|e| e.chars().take(80).collect::<String>())),
                );
            } else if w.parties[to].group.is_some() {
                let d = lockstep_diff(w, to, self.twins.get(&to).unwrap(), w.g(to));
                if !d.is_empty() {
                    w.violate(
                        format!("C06|twin_and_reloaded_diverge|{what}|{}", d.join("+")),
                        format!("member {to}: after {what} the reloaded member and its twin differ in {d:?}"),
                    );
                    // re-synchronise so that one divergence is reported once
                    let g = w.g(to).clone();
                    self.twins.insert(to, g);
                }
            }
        }
        r
    }

    /// an own, randomised operation was performed on the primary: the twin follows by copy
    fn resync(&mut self, w: &World, who: usize) {
        if self.twins.contains_key(&who) {
            self.twins.insert(who, w.g(who).clone());
        }
    }
}

pub fn run(a: &Args) -> ShardOut {
    let mut total = ShardOut::default();
    let (histories, rounds) = if a.thorough { (60, 30) } else { (16, 14) };
    for h in 0..histories {
        if let Some(only) = super::only_history() {
            if only != h {
                continue;
            }
        }
        let mut rng = Rng::derive(a.seed, "C06", a.shard * 10_000 + h);
        let mut cfg = WorldCfg::draw(&mut rng, a.thorough);
        cfg.max_members = cfg.max_members.min(7);
        cfg.backend = match (a.shard + h) % 3 {
            0 => Backend::Tee,
            1 => Backend::Sql,
            _ => Backend::Mem,
        };
        cfg.retention = [1, 2, 3, 5][((a.shard + h) % 4) as usize];
        let mut w = World::new(cfg.clone(), rng, "C06");
        let mut st = St {
            twins: BTreeMap::new(),
            written: BTreeMap::new(),
            siblings: BTreeMap::new(),
            p_reload: (1, 5),
        };
        if let Err(e) = history(&mut w, &mut st, rounds) {
            if e.contains("PANIC") && panic_in_repo(&e) {
                w.violate(format!("C06|panic|{}", e.chars().take(90).collect::<String>()), e);
            } else {
                w.out.inconclusive.push(format!("history {h}: {e}"));
            }
        }
        w.out.cov.bump("histories");
        w.out.cov.bump(&format!("backend:{:?}:R{}", cfg.backend, cfg.retention));
        w.out.cov.sample(json!({"cfg": cfg.to_json(), "first_ops": w.script.iter().take(25).cloned().collect::<Vec<_>>()}));
        total.cov.merge(&w.out.cov);
        total.violations.extend(w.out.violations.drain(..));
        total.inconclusive.extend(w.out.inconclusive.drain(..));
    }
    total
}

fn history(w: &mut World, st: &mut St, rounds: u64) -> Result<(), String> {
    let n0 = w.rng.range(3, 5);
    w.bootstrap(n0, &mut NoHooks)?;
    let dc = DriveCfg::default();
    let mut late: Vec<SentApp> = vec![];
    for _ in 0..rounds {
        let act = w.active();
        if act.len() < 2 {
            break;
        }
        // application messages: sender is a primary, every receiver gets it on both objects
        let s = act[w.rng.below(act.len())];
        if let Some(m) = w.send_app(s, &mut NoHooks)? {
            st.resync(w, s);
            for to in act.iter().copied().filter(|i| *i != s) {
                if w.rng.chance(1, 4) {
                    continue; // delivered late, in a later epoch
                }
                match st.deliver_both(w, to, &m.msg, "application") {
                    Ok(_) => {}
                    Err(e) => return Err(format!("honest application message rejected by {to}: {e}")),
                }
                st.maybe_reload(w, to, "received_application_message");
            }
            late.push(m);
        }
        // a burst delivered backwards: the receiver's ratchet holds skipped keys when it is saved
        if w.rng.chance(1, 2) {
            let s = act[w.rng.below(act.len())];
            let mut burst = vec![];
            for _ in 0..w.rng.range(2, 4) {
                if let Some(m) = w.send_app(s, &mut NoHooks)? {
                    burst.push(m);
                }
            }
            st.resync(w, s);
            for to in act.iter().copied().filter(|i| *i != s) {
                for (k, m) in burst.iter().enumerate().rev() {
                    match st.deliver_both(w, to, &m.msg, "application_out_of_order") {
                        Ok(_) => {}
                        Err(e) => return Err(format!("honest out-of-order application message rejected by {to}: {e}")),
                    }
                    if k + 1 == burst.len() {
                        // saved with skipped generations in the ratchet history
                        st.maybe_reload(w, to, "received_out_of_order_message");
                    }
                }
            }
        }
        // late application messages of earlier epochs (prior epochs partly unwritten)
        if let Some(old) = late.iter().find(|m| m.epoch + 1 == w.epoch()).cloned() {
            let rcv: Vec<usize> = w
                .active()
                .into_iter()
                .filter(|i| *i != old.sender && w.parties[*i].joined_epoch <= old.epoch)
                .collect();
            for to in rcv {
                // both objects must answer alike (whether or not the epoch is still retained)
                let _ = st.deliver_both(w, to, &old.msg, "late_application");
            }
        }
        late.retain(|m| m.epoch + 1 >= w.epoch());
        // by-reference proposals
        let np = w.rng.below(3);
        for _ in 0..np {
            let act = w.active();
            let by = act[w.rng.below(act.len())];
            let Some(k) = w.draw_prop(by, &dc) else { continue };
            let Ok(m) = w.propose(by, &k) else { continue };
            st.resync(w, by);
            st.maybe_reload(w, by, "own_proposal");
            for to in w.active().into_iter().filter(|i| *i != by) {
                match st.deliver_both(w, to, &m, "proposal") {
                    Ok(_) => {}
                    Err(e) => return Err(format!("honest proposal rejected by {to}: {e}")),
                }
                st.maybe_reload(w, to, "received_proposal");
            }
        }
        // commit creation: the pending commit is part of what is saved
        let act = w.active();
        let c = act[w.rng.below(act.len())];
        let mut by_value = vec![];
        if act.len() < w.cfg.max_members && w.rng.chance(1, 2) {
            let p = w.new_party();
            if let Ok(kp) = w.key_package(p) {
                by_value.push(ByValue::Add(kp));
            }
        }
        if w.rng.chance(1, 5) {
            let id = w.new_external_psk();
            by_value.push(ByValue::ExternalPsk(id));
        }
        if act.len() > 3 && w.rng.chance(1, 4) {
            let t = *act.iter().find(|i| **i != c).unwrap();
            by_value.push(ByValue::Remove(w.leaf_of(t)));
        }
        w.log(json!({"op":"commit","by":c,"by_value":by_value.iter().map(|b| b.describe()).collect::<Vec<_>>()}));
        let out = {
            let bv = by_value.clone();
            let g = w.gm(c);
            guarded(move || {
                let mut b = g.commit_builder();
                for x in bv {
                    b = match x {
                        ByValue::Add(kp) => b.add_member(kp)?,
                        ByValue::Remove(l) => b.remove_member(l)?,
                        ByValue::ExternalPsk(id) => b.add_external_psk(ExternalPskId::new(id))?,
                        ByValue::ResumptionPsk(e) => b.add_resumption_psk(e)?,
                        ByValue::Gce(l) => b.set_group_context_ext(l)?,
                        ByValue::Custom(cu) => b.custom_proposal(cu),
                    };
                }
                b.build()
            })
        };
        let out = match out {
            Ok(Ok(o)) => o,
            Ok(Err(_)) => {
                for i in w.active() {
                    w.gm(i).clear_proposal_cache();
                    st.resync(w, i);
                }
                continue;
            }
            Err(p) => return Err(format!("PANIC in commit build: {p}")),
        };
        st.resync(w, c);
        st.maybe_reload(w, c, "commit_created_pending");
        // crash monitor on somebody who has unwritten operations
        let who = act[w.rng.below(act.len())];
        st.crash_check(w, who);
        // the committer applies: both objects hold the same pending commit
        let applied = {
            let g = w.gm(c);
            guarded(|| g.apply_pending_alt())
        };
        match applied {
            Ok(Ok(_)) => {}
            Ok(Err(e)) => return Err(format!("apply_pending_commit: {e:?}")),
            Err(p) => return Err(format!("PANIC in apply_pending_commit: {p}")),
        }
        if let Some(t) = st.twins.get_mut(&c) {
            let rt = guarded(|| t.apply_pending_alt().map(|_| ()));
            w.out.cov.bump("lockstep_steps");
            if !matches!(rt, Ok(Ok(()))) {
                w.violate("C06|twin_and_reloaded_disagree_on_result|apply_pending_commit", format!("member {c}: twin {rt:?}"));
                st.resync(w, c);
            } else {
                let d = lockstep_diff(w, c, st.twins.get(&c).unwrap(), w.g(c));
                if !d.is_empty() {
                    w.violate(format!("C06|twin_and_reloaded_diverge|apply_pending_commit|{}", d.join("+")), format!("member {c}"));
                    st.resync(w, c);
                }
            }
        }
        st.maybe_reload(w, c, "commit_applied");
        let epoch_before = w.g(c).current_epoch() - 1;
        for to in w.active().into_iter().filter(|i| *i != c) {
            match st.deliver_both(w, to, &out.commit_message, "commit") {
                Ok(ReceivedMessage::Commit(d)) => {
                    if let CommitEffect::Removed { .. } = d.effect {
                        w.retire(to, Status::Outside);
                        st.twins.remove(&to);
                        st.written.remove(&to);
                        continue;
                    }
                }
                Ok(_) => {}
                Err(e) => return Err(format!("honest commit rejected by {to}: {e}")),
            }
            st.maybe_reload(w, to, "received_commit");
        }
        // joiners
        let cands: Vec<usize> = w
            .parties
            .iter()
            .filter(|p| p.status == Status::Outside && !p.key_packages.is_empty())
            .map(|p| p.id)
            .collect();
        for pid in cands {
            if w.addressed_by(pid, &out.welcome_messages) {
                match w.join_from_welcomes(pid, &out.welcome_messages, out.ratchet_tree.clone()) {
                    Ok(()) => {
                        w.parties[pid].joined_epoch = epoch_before + 1;
                        w.parties[pid].key_packages.clear();
                        st.maybe_reload(w, pid, "joined");
                    }
                    Err(e) if e.starts_with("OldGroupStateNotFound") => {
                        // Welcome with a resumption PSK: a newcomer cannot have it
                        w.parties[pid].key_packages.clear();
                        w.parties[pid].status = Status::Ghost;
                    }
                    Err(e) => return Err(format!("joiner {pid} cannot join: {e}")),
                }
            }
        }
        w.apps.clear();
        // some plain writes (no reload) so that crash points have something to compare with
        for i in w.active() {
            if w.rng.chance(1, 4) {
                st.write_only(w, i);
            }
        }
        w.out.cov.bump("commit_accepted");
    }
    Ok(())
}
