//! Small shared utilities: deterministic PRNG, panic capture, coverage counters, verdict records.

use std::cell::RefCell;
use std::collections::{BTreeMap, BTreeSet};
use std::panic::{catch_unwind, AssertUnwindSafe};

use serde_json::{json, Value};

#[derive(Clone, Debug)]
pub struct Rng(pub u64);

impl Rng {
    pub fn new(seed: u64) -> Self {
        let mut r = Rng(seed ^ 0x9E37_79B9_7F4A_7C15);
        r.next();
        r
    }
    pub fn derive(seed: u64, tag: &str, shard: u64) -> Self {
        let mut h: u64 = 0xcbf2_9ce4_8422_2325;
        for b in tag.bytes() {
            h ^= b as u64;
            h = h.wrapping_mul(0x0100_0000_01b3);
        }
        Rng::new(seed.wrapping_mul(0x9E37_79B9).wrapping_add(h).wrapping_add(shard.wrapping_mul(0x1234_5678_9abc_def1)))
    }
    pub fn next(&mut self) -> u64 {
        self.0 = self.0.wrapping_add(0x9E37_79B9_7F4A_7C15);
        let mut z = self.0;
        z = (z ^ (z >> 30)).wrapping_mul(0xBF58_476D_1CE4_E5B9);
        z = (z ^ (z >> 27)).wrapping_mul(0x94D0_49BB_1331_11EB);
        z ^ (z >> 31)
    }
    /// uniform in [0, n)
    pub fn below(&mut self, n: usize) -> usize {
        if n == 0 {
            0
        } else {
            (self.next() % n as u64) as usize
        }
    }
    pub fn range(&mut self, lo: usize, hi_incl: usize) -> usize {
        lo + self.below(hi_incl - lo + 1)
    }
    pub fn chance(&mut self, num: u32, den: u32) -> bool {
        (self.next() % den as u64) < num as u64
    }
    pub fn pick<'a, T>(&mut self, v: &'a [T]) -> Option<&'a T> {
        if v.is_empty() {
            None
        } else {
            Some(&v[self.below(v.len())])
        }
    }
    pub fn bytes(&mut self, n: usize) -> Vec<u8> {
        (0..n).map(|_| self.next() as u8).collect()
    }
    pub fn shuffle<T>(&mut self, v: &mut [T]) {
        for i in (1..v.len()).rev() {
            let j = self.below(i + 1);
            v.swap(i, j);
        }
    }
}

thread_local! {
    static LAST_PANIC: RefCell<Option<String>> = const { RefCell::new(None) };
}

pub fn install_panic_hook() {
    std::panic::set_hook(Box::new(|info| {
        let loc = info
            .location()
            .map(|l| format!("{}:{}", l.file(), l.line()))
            .unwrap_or_default();
        let msg = if let Some(s) = info.payload().downcast_ref::<&str>() {
            s.to_string()
        } else if let Some(s) = info.payload().downcast_ref::<String>() {
            s.clone()
        } else {
            "<non-string panic>".to_string()
        };
        LAST_PANIC.with(|p| *p.borrow_mut() = Some(format!("{loc}: {msg}")));
    }));
}

/// Run `f`, turning a panic into `Err(location: message)`.
pub fn guarded<T>(f: impl FnOnce() -> T) -> Result<T, String> {
    match catch_unwind(AssertUnwindSafe(f)) {
        Ok(v) => Ok(v),
        Err(_) => Err(LAST_PANIC
            .with(|p| p.borrow_mut().take())
            .unwrap_or_else(|| "<panic>".into())),
    }
}

/// True when the panic originated in the code under test (not in the harness).
pub fn panic_in_repo(msg: &str) -> bool {
    msg.contains("/repo/") || msg.contains("mls-rs")
}

pub fn hx(b: &[u8]) -> String {
    hex::encode(b)
}

pub fn fnv(b: &[u8]) -> u64 {
    let mut h: u64 = 0xcbf2_9ce4_8422_2325;
    for x in b {
        h ^= *x as u64;
        h = h.wrapping_mul(0x0100_0000_01b3);
    }
    h
}

/// Short error kind: the outermost enum variant name(s) of a `Debug`-formatted error.
pub fn err_kind<E: std::fmt::Debug>(e: &E) -> String {
    let s = format!("{e:?}");
    // keep identifier characters and parentheses structure up to depth 3, drop payload bytes
    let mut out = String::new();
    let mut depth = 0;
    let mut ident = String::new();
    for ch in s.chars() {
        if ch.is_alphanumeric() || ch == '_' {
            ident.push(ch);
        } else {
            if !ident.is_empty() {
                if ident.chars().next().map(|c| c.is_uppercase()).unwrap_or(false) && depth < 3 {
                    if !out.is_empty() {
                        out.push('/');
                    }
                    out.push_str(&ident);
                }
                ident.clear();
            }
            if ch == '(' || ch == '{' || ch == '[' {
                depth += 1;
            } else if ch == ')' || ch == '}' || ch == ']' {
                depth -= 1;
            }
            if out.len() > 80 {
                break;
            }
        }
    }
    if !ident.is_empty() && out.is_empty() {
        out = ident;
    }
    out
}

#[derive(Clone, Debug)]
pub struct Violation {
    pub prop: String,
    pub sig: String,
    pub detail: String,
}

#[derive(Default, Clone, Debug)]
pub struct Coverage {
    pub counters: BTreeMap<String, u64>,
    pub distinct: BTreeSet<u64>,
    pub evaluations: u64,
    pub samples: Vec<Value>,
}

impl Coverage {
    pub fn bump(&mut self, k: &str) {
        *self.counters.entry(k.to_string()).or_insert(0) += 1;
    }
    pub fn add(&mut self, k: &str, n: u64) {
        *self.counters.entry(k.to_string()).or_insert(0) += n;
    }
    pub fn get(&self, k: &str) -> u64 {
        self.counters.get(k).copied().unwrap_or(0)
    }
    pub fn eval(&mut self, distinct_key: Option<u64>) {
        self.evaluations += 1;
        if let Some(k) = distinct_key {
            self.distinct.insert(k);
        }
    }
    pub fn sample(&mut self, v: Value) {
        if self.samples.len() < 6 {
            self.samples.push(v);
        }
    }
    pub fn merge(&mut self, o: &Coverage) {
        for (k, v) in &o.counters {
            *self.counters.entry(k.clone()).or_insert(0) += v;
        }
        self.distinct.extend(o.distinct.iter().copied());
        self.evaluations += o.evaluations;
        for s in &o.samples {
            self.sample(s.clone());
        }
    }
}

/// Result of one engine shard, serialised for check.py.
#[derive(Default)]
pub struct ShardOut {
    pub cov: Coverage,
    pub violations: Vec<Violation>,
    pub inconclusive: Vec<String>,
    pub extra: BTreeMap<String, Value>,
}

impl ShardOut {
    pub fn violate(&mut self, prop: &str, sig: impl Into<String>, detail: impl Into<String>) {
        let sig = sig.into();
        if self.violations.iter().filter(|v| v.sig == sig).count() < 3 {
            self.violations.push(Violation {
                prop: prop.to_string(),
                sig,
                detail: detail.into(),
            });
        } else {
            self.cov.bump("violations_suppressed_duplicates");
        }
    }
    pub fn to_json(&self) -> Value {
        json!({
            "evaluations": self.cov.evaluations,
            "distinct": self.cov.distinct.iter().map(|x| format!("{x:016x}")).collect::<Vec<_>>(),
            "counters": self.cov.counters,
            "samples": self.cov.samples,
            "violations": self.violations.iter().map(|v| json!({"prop": v.prop, "sig": v.sig, "detail": v.detail})).collect::<Vec<_>>(),
            "inconclusive": self.inconclusive,
            "extra": self.extra,
        })
    }
}

/// Both public entry points for incoming messages do the same work: the harness alternates
/// between them (deterministically) so that neither is left unobserved.
pub fn use_timed_entry_point() -> bool {
    use std::sync::atomic::{AtomicU64, Ordering};
    static N: AtomicU64 = AtomicU64::new(0);
    let n = N.fetch_add(1, Ordering::Relaxed);
    // irregular pattern, so that "first delivery" and "retry" do not always use different ones
    (n.wrapping_mul(0x9E37_79B9_7F4A_7C15) >> 61) < 3
}
