//! Storage wrappers: the real in-memory / SQLite providers behind a fault schedule, a call
//! log, and dump/restore (checkpoint) support.

use std::collections::BTreeMap;
use std::sync::atomic::{AtomicI64, AtomicU64, Ordering};
use std::sync::{Arc, Mutex};

use mls_rs::storage_provider::in_memory::{InMemoryGroupStateStorage, InMemoryKeyPackageStorage};
use mls_rs::storage_provider::sqlite::{
    connection_strategy::MemoryStrategy, SqLiteDataStorageEngine,
};
use mls_rs::storage_provider::KeyPackageData;
use mls_rs_core::error::IntoAnyError;
use mls_rs_core::group::{EpochRecord, GroupState, GroupStateStorage};
use mls_rs_core::key_package::KeyPackageStorage;
use mls_rs_core::psk::{ExternalPskId, PreSharedKey, PreSharedKeyStorage};
use mls_rs_provider_sqlite::storage::{SqLiteGroupStateStorage, SqLiteKeyPackageStorage};
use zeroize::Zeroizing;

#[derive(Debug, Clone)]
pub struct StoreErr(pub String);
impl std::fmt::Display for StoreErr {
    fn fmt(&self, f: &mut std::fmt::Formatter<'_>) -> std::fmt::Result {
        write!(f, "{}", self.0)
    }
}
impl std::error::Error for StoreErr {}
impl IntoAnyError for StoreErr {
    fn into_dyn_error(self) -> Result<Box<dyn std::error::Error + Send + Sync>, Self> {
        Ok(Box::new(self))
    }
}

/// Fault schedule + call counter shared by the three stores of one client.
#[derive(Default)]
pub struct Faults {
    /// number of calls until the next injected failure (<0: never)
    pub fail_in: AtomicI64,
    /// second fault (pairs): number of calls after the first failure
    pub then_fail_in: AtomicI64,
    pub calls: AtomicU64,
    pub injected: AtomicU64,
    pub log: Mutex<Vec<&'static str>>,
    pub logging: std::sync::atomic::AtomicBool,
}

impl Faults {
    pub fn new() -> Arc<Self> {
        let f = Faults::default();
        f.fail_in.store(-1, Ordering::SeqCst);
        f.then_fail_in.store(-1, Ordering::SeqCst);
        Arc::new(f)
    }
    pub fn arm(&self, nth: i64) {
        self.fail_in.store(nth, Ordering::SeqCst);
        self.then_fail_in.store(-1, Ordering::SeqCst);
    }
    pub fn arm2(&self, nth: i64, then: i64) {
        self.fail_in.store(nth, Ordering::SeqCst);
        self.then_fail_in.store(then, Ordering::SeqCst);
    }
    pub fn disarm(&self) {
        self.fail_in.store(-1, Ordering::SeqCst);
        self.then_fail_in.store(-1, Ordering::SeqCst);
    }
    pub fn start_log(&self) {
        self.log.lock().unwrap().clear();
        self.logging.store(true, Ordering::SeqCst);
    }
    pub fn stop_log(&self) -> Vec<&'static str> {
        self.logging.store(false, Ordering::SeqCst);
        std::mem::take(&mut *self.log.lock().unwrap())
    }
    pub fn tick(&self, what: &'static str) -> Result<(), StoreErr> {
        self.calls.fetch_add(1, Ordering::SeqCst);
        if self.logging.load(Ordering::SeqCst) {
            self.log.lock().unwrap().push(what);
        }
        let v = self.fail_in.load(Ordering::SeqCst);
        if v == 0 {
            let nxt = self.then_fail_in.swap(-1, Ordering::SeqCst);
            self.fail_in.store(nxt, Ordering::SeqCst);
            self.injected.fetch_add(1, Ordering::SeqCst);
            return Err(StoreErr(format!("injected fault at {what}")));
        }
        if v > 0 {
            self.fail_in.store(v - 1, Ordering::SeqCst);
        }
        Ok(())
    }
}

#[derive(Clone, Copy, Debug, PartialEq, Eq)]
pub enum Backend {
    Mem,
    Sql,
    /// writes go to both, reads come from the in-memory one
    Tee,
}

#[derive(Clone, Debug, PartialEq, Eq, Default)]
pub struct GroupDump {
    pub state: Option<Vec<u8>>,
    pub max_epoch_id: Option<u64>,
    pub epochs: BTreeMap<u64, Vec<u8>>,
}

pub struct GroupBackends {
    pub mem: Option<InMemoryGroupStateStorage>,
    pub sql: Option<SqLiteGroupStateStorage>,
}

#[derive(Clone)]
pub struct VGroupStore {
    pub faults: Arc<Faults>,
    pub backend: Backend,
    pub retention: u64,
    pub inner: Arc<Mutex<GroupBackends>>,
}

fn new_sql_engine() -> SqLiteDataStorageEngine<MemoryStrategy> {
    SqLiteDataStorageEngine::new(MemoryStrategy).expect("sqlite engine")
}

impl VGroupStore {
    pub fn new(backend: Backend, retention: u64, faults: Arc<Faults>) -> Self {
        let mem = matches!(backend, Backend::Mem | Backend::Tee).then(|| {
            InMemoryGroupStateStorage::new()
                .with_max_epoch_retention(retention as usize)
                .unwrap()
        });
        let sql = matches!(backend, Backend::Sql | Backend::Tee).then(|| {
            new_sql_engine()
                .group_state_storage()
                .expect("sqlite group storage")
                .with_max_epoch_retention(retention)
        });
        VGroupStore {
            faults,
            backend,
            retention,
            inner: Arc::new(Mutex::new(GroupBackends { mem, sql })),
        }
    }

    fn dump_of<S: GroupStateStorage>(s: &S, gid: &[u8], hi: u64) -> GroupDump
    where
        S::Error: std::fmt::Debug,
    {
        let state = s.state(gid).unwrap().map(|z| z.to_vec());
        let max_epoch_id = s.max_epoch_id(gid).unwrap();
        let mut epochs = BTreeMap::new();
        let top = max_epoch_id.unwrap_or(0).max(hi) + 2;
        for id in 0..=top {
            if let Some(e) = s.epoch(gid, id).unwrap() {
                epochs.insert(id, e.to_vec());
            }
        }
        GroupDump {
            state,
            max_epoch_id,
            epochs,
        }
    }

    /// Raw contents (no fault ticks). `hi`: scan epoch ids up to at least this value.
    pub fn dump(&self, gid: &[u8], hi: u64) -> GroupDump {
        let g = self.inner.lock().unwrap();
        match (&g.mem, &g.sql) {
            (Some(m), _) => Self::dump_of(m, gid, hi),
            (None, Some(s)) => Self::dump_of(s, gid, hi),
            _ => unreachable!(),
        }
    }

    /// Both dumps for a Tee store.
    pub fn dump_both(&self, gid: &[u8], hi: u64) -> Option<(GroupDump, GroupDump)> {
        let g = self.inner.lock().unwrap();
        match (&g.mem, &g.sql) {
            (Some(m), Some(s)) => Some((Self::dump_of(m, gid, hi), Self::dump_of(s, gid, hi))),
            _ => None,
        }
    }

    /// Application-level hygiene: forget everything stored for `gid`.
    pub fn delete_group(&self, gid: &[u8]) {
        let mut g = self.inner.lock().unwrap();
        if let Some(m) = g.mem.as_mut() {
            m.delete_group(gid);
        }
        if let Some(s) = g.sql.as_mut() {
            s.delete_group(gid).unwrap();
        }
    }

    /// Replace the stored data of `gid` by `d` (checkpoint rollback).
    pub fn restore(&self, gid: &[u8], d: &GroupDump) {
        let mut g = self.inner.lock().unwrap();
        let recs = || -> Vec<EpochRecord> {
            d.epochs
                .iter()
                .map(|(id, b)| EpochRecord::new(*id, Zeroizing::new(b.clone())))
                .collect()
        };
        if let Some(m) = g.mem.as_mut() {
            m.delete_group(gid);
            if let Some(st) = &d.state {
                m.write(
                    GroupState {
                        id: gid.to_vec(),
                        data: Zeroizing::new(st.clone()),
                    },
                    recs(),
                    vec![],
                )
                .unwrap();
            }
        }
        if let Some(s) = g.sql.as_mut() {
            s.delete_group(gid).unwrap();
            if let Some(st) = &d.state {
                // insert one by one so that the provider's own trimming (driven by the largest
                // inserted id) cannot drop anything that the dump still had
                s.write(
                    GroupState {
                        id: gid.to_vec(),
                        data: Zeroizing::new(st.clone()),
                    },
                    recs(),
                    vec![],
                )
                .unwrap();
            }
        }
    }
}

impl GroupStateStorage for VGroupStore {
    type Error = StoreErr;

    fn state(&self, group_id: &[u8]) -> Result<Option<Zeroizing<Vec<u8>>>, StoreErr> {
        self.faults.tick("group.state")?;
        let g = self.inner.lock().unwrap();
        match (&g.mem, &g.sql) {
            (Some(m), _) => Ok(m.state(group_id).unwrap()),
            (None, Some(s)) => s.state(group_id).map_err(|e| StoreErr(format!("{e:?}"))),
            _ => unreachable!(),
        }
    }

    fn epoch(&self, group_id: &[u8], epoch_id: u64) -> Result<Option<Zeroizing<Vec<u8>>>, StoreErr> {
        self.faults.tick("group.epoch")?;
        let g = self.inner.lock().unwrap();
        match (&g.mem, &g.sql) {
            (Some(m), _) => Ok(m.epoch(group_id, epoch_id).unwrap()),
            (None, Some(s)) => s
                .epoch(group_id, epoch_id)
                .map_err(|e| StoreErr(format!("{e:?}"))),
            _ => unreachable!(),
        }
    }

    fn write(
        &mut self,
        state: GroupState,
        epoch_inserts: Vec<EpochRecord>,
        epoch_updates: Vec<EpochRecord>,
    ) -> Result<(), StoreErr> {
        self.faults.tick("group.write")?;
        let mut g = self.inner.lock().unwrap();
        let GroupBackends { mem, sql } = &mut *g;
        if let Some(s) = sql.as_mut() {
            let st = GroupState {
                id: state.id.clone(),
                data: state.data.clone(),
            };
            s.write(st, epoch_inserts.clone(), epoch_updates.clone())
                .map_err(|e| StoreErr(format!("sqlite write: {e:?}")))?;
        }
        if let Some(m) = mem.as_mut() {
            m.write(state, epoch_inserts, epoch_updates).unwrap();
        }
        Ok(())
    }

    fn max_epoch_id(&self, group_id: &[u8]) -> Result<Option<u64>, StoreErr> {
        self.faults.tick("group.max_epoch_id")?;
        let g = self.inner.lock().unwrap();
        match (&g.mem, &g.sql) {
            (Some(m), _) => Ok(m.max_epoch_id(group_id).unwrap()),
            (None, Some(s)) => s
                .max_epoch_id(group_id)
                .map_err(|e| StoreErr(format!("{e:?}"))),
            _ => unreachable!(),
        }
    }
}

pub enum KpBackend {
    Mem(InMemoryKeyPackageStorage),
    Sql(SqLiteKeyPackageStorage),
}

#[derive(Clone)]
pub struct VKpStore {
    pub faults: Arc<Faults>,
    pub inner: Arc<Mutex<KpBackend>>,
    /// ids ever inserted (so that presence can be probed on both backends)
    pub seen: Arc<Mutex<Vec<Vec<u8>>>>,
}

impl VKpStore {
    pub fn new(sql: bool, faults: Arc<Faults>) -> Self {
        let b = if sql {
            KpBackend::Sql(new_sql_engine().key_package_storage().expect("sqlite kp"))
        } else {
            KpBackend::Mem(InMemoryKeyPackageStorage::new())
        };
        VKpStore {
            faults,
            inner: Arc::new(Mutex::new(b)),
            seen: Default::default(),
        }
    }
    /// raw presence probe (no fault tick)
    pub fn has(&self, id: &[u8]) -> bool {
        match &*self.inner.lock().unwrap() {
            KpBackend::Mem(m) => m.get(id).is_some(),
            KpBackend::Sql(s) => KeyPackageStorage::get(s, id).unwrap().is_some(),
        }
    }
    pub fn dump(&self) -> Vec<(Vec<u8>, KeyPackageData)> {
        let seen = self.seen.lock().unwrap().clone();
        let g = self.inner.lock().unwrap();
        let mut v: Vec<_> = seen
            .into_iter()
            .filter_map(|id| {
                let d = match &*g {
                    KpBackend::Mem(m) => m.get(&id),
                    KpBackend::Sql(s) => KeyPackageStorage::get(s, &id).unwrap(),
                };
                d.map(|d| (id, d))
            })
            .collect();
        v.sort_by(|a, b| a.0.cmp(&b.0));
        v.dedup_by(|a, b| a.0 == b.0);
        v
    }
    pub fn restore(&self, d: &[(Vec<u8>, KeyPackageData)]) {
        let seen = self.seen.lock().unwrap().clone();
        let mut g = self.inner.lock().unwrap();
        for id in seen {
            match &mut *g {
                KpBackend::Mem(m) => (&*m).delete(&id),
                KpBackend::Sql(s) => s.delete(&id).unwrap(),
            }
        }
        for (id, data) in d {
            match &mut *g {
                KpBackend::Mem(m) => (&*m).insert(id.clone(), data.clone()),
                KpBackend::Sql(s) => {
                    KeyPackageStorage::insert(s, id.clone(), data.clone()).unwrap()
                }
            }
        }
    }
}

impl KeyPackageStorage for VKpStore {
    type Error = StoreErr;

    fn delete(&mut self, id: &[u8]) -> Result<(), StoreErr> {
        self.faults.tick("kp.delete")?;
        match &mut *self.inner.lock().unwrap() {
            KpBackend::Mem(m) => {
                (&*m).delete(id);
                Ok(())
            }
            KpBackend::Sql(s) => s.delete(id).map_err(|e| StoreErr(format!("{e:?}"))),
        }
    }

    fn insert(&mut self, id: Vec<u8>, pkg: KeyPackageData) -> Result<(), StoreErr> {
        self.faults.tick("kp.insert")?;
        self.seen.lock().unwrap().push(id.clone());
        match &mut *self.inner.lock().unwrap() {
            KpBackend::Mem(m) => {
                (&*m).insert(id, pkg);
                Ok(())
            }
            KpBackend::Sql(s) => {
                KeyPackageStorage::insert(s, id, pkg).map_err(|e| StoreErr(format!("{e:?}")))
            }
        }
    }

    fn get(&self, id: &[u8]) -> Result<Option<KeyPackageData>, StoreErr> {
        self.faults.tick("kp.get")?;
        match &*self.inner.lock().unwrap() {
            KpBackend::Mem(m) => Ok(m.get(id)),
            KpBackend::Sql(s) => {
                KeyPackageStorage::get(s, id).map_err(|e| StoreErr(format!("{e:?}")))
            }
        }
    }
}

#[derive(Clone)]
pub struct VPskStore {
    pub faults: Arc<Faults>,
    pub inner: Arc<Mutex<BTreeMap<Vec<u8>, Vec<u8>>>>,
}

impl VPskStore {
    pub fn new(faults: Arc<Faults>) -> Self {
        VPskStore {
            faults,
            inner: Default::default(),
        }
    }
    pub fn put(&self, id: &[u8], v: &[u8]) {
        self.inner.lock().unwrap().insert(id.to_vec(), v.to_vec());
    }
    pub fn del(&self, id: &[u8]) {
        self.inner.lock().unwrap().remove(id);
    }
    pub fn peek(&self, id: &[u8]) -> Option<Vec<u8>> {
        self.inner.lock().unwrap().get(id).cloned()
    }
    pub fn dump(&self) -> BTreeMap<Vec<u8>, Vec<u8>> {
        self.inner.lock().unwrap().clone()
    }
    pub fn restore(&self, d: &BTreeMap<Vec<u8>, Vec<u8>>) {
        *self.inner.lock().unwrap() = d.clone();
    }
}

impl PreSharedKeyStorage for VPskStore {
    type Error = StoreErr;
    fn get(&self, id: &ExternalPskId) -> Result<Option<PreSharedKey>, StoreErr> {
        self.faults.tick("psk.get")?;
        Ok(self
            .inner
            .lock()
            .unwrap()
            .get(id.as_ref())
            .map(|v| PreSharedKey::new(v.clone())))
    }
}
