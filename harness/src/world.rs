//! World: N clients of one group, an honest delivery service, ground truth bookkeeping and the
//! primitives from which the per-property drivers build histories.

use std::collections::{BTreeMap, BTreeSet};
use std::sync::{Arc, Mutex};

use mls_rs::client_builder::{
    BaseConfig, ClientBuilder, WithCryptoProvider, WithGroupStateStorage, WithIdentityProvider,
    WithKeyPackageRepo, WithMlsRules, WithPskStore,
};
use mls_rs::error::MlsError;
use mls_rs::group::proposal::{CustomProposal, Proposal};
use mls_rs::group::{CommitEffect, ReceivedMessage};
use mls_rs::identity::basic::{BasicCredential, BasicIdentityProvider};
use mls_rs::identity::SigningIdentity;
use mls_rs::mls_rules::{CommitOptions, DefaultMlsRules, EncryptionOptions};
use mls_rs::{
    CipherSuite, CipherSuiteProvider, Client, CryptoProvider, ExtensionList, Group, MlsMessage,
};
use mls_rs_core::crypto::{SignaturePublicKey, SignatureSecretKey};
use mls_rs_core::extension::{Extension, ExtensionType};
use mls_rs_core::group::ProposalType;
use mls_rs_core::identity::{CredentialType, IdentityProvider, MemberValidationContext};
use mls_rs_core::time::MlsTime;
use serde_json::{json, Value};

use crate::anycrypto::{AnyCrypto, AnyErr, Prov, Recorder};
use crate::store::{Backend, Faults, VGroupStore, VKpStore, VPskStore};
use crate::util::*;

pub const EXT_A: u16 = 0xF0A1;
pub const EXT_B: u16 = 0xF0A2;
pub const CUSTOM_PROP: u16 = 0xF1B1;
pub const CUSTOM_PROP_PATH: u16 = 0xF1B2;

/// Credential type of the harness' custom credentials (the identity is the credential data).
pub const CUSTOM_CRED: u16 = 0xF0F0;

/// Basic identity provider with a shared reject list (identifiers the application refuses);
/// with `custom_ok` it also understands credentials of type `CUSTOM_CRED` and advertises them.
#[derive(Clone, Default)]
pub struct VIdent {
    pub rejected: Arc<Mutex<BTreeSet<Vec<u8>>>>,
    pub custom_ok: bool,
}

impl VIdent {
    fn name(&self, id: &SigningIdentity) -> Result<Vec<u8>, AnyErr> {
        if let Some(b) = id.credential.as_basic() {
            return Ok(b.identifier.clone());
        }
        match id.credential.as_custom() {
            Some(c) if self.custom_ok && c.credential_type == CredentialType::new(CUSTOM_CRED) => Ok(c.data.clone()),
            _ => Err(AnyErr("credential type not understood".into())),
        }
    }
    fn check(&self, id: &SigningIdentity) -> Result<(), AnyErr> {
        let name = self.name(id)?;
        if self.rejected.lock().unwrap().contains(&name) {
            return Err(AnyErr("identity rejected by application".into()));
        }
        Ok(())
    }
}

impl IdentityProvider for VIdent {
    type Error = AnyErr;
    fn validate_member(
        &self,
        signing_identity: &SigningIdentity,
        _timestamp: Option<MlsTime>,
        _context: MemberValidationContext<'_>,
    ) -> Result<(), AnyErr> {
        self.check(signing_identity)
    }
    fn validate_external_sender(
        &self,
        signing_identity: &SigningIdentity,
        _timestamp: Option<MlsTime>,
        _extensions: Option<&ExtensionList>,
    ) -> Result<(), AnyErr> {
        self.check(signing_identity)
    }
    fn identity(
        &self,
        signing_identity: &SigningIdentity,
        _extensions: &ExtensionList,
    ) -> Result<Vec<u8>, AnyErr> {
        self.name(signing_identity)
    }
    fn valid_successor(
        &self,
        predecessor: &SigningIdentity,
        successor: &SigningIdentity,
        _extensions: &ExtensionList,
    ) -> Result<bool, AnyErr> {
        Ok(self.name(predecessor)? == self.name(successor)?)
    }
    fn supported_types(&self) -> Vec<CredentialType> {
        let mut v = BasicIdentityProvider::new().supported_types();
        if self.custom_ok {
            v.push(CredentialType::new(CUSTOM_CRED));
        }
        v
    }
}

pub type Cfg = WithCryptoProvider<
    AnyCrypto,
    WithMlsRules<
        DefaultMlsRules,
        WithIdentityProvider<
            VIdent,
            WithGroupStateStorage<
                VGroupStore,
                WithPskStore<VPskStore, WithKeyPackageRepo<VKpStore, BaseConfig>>,
            >,
        >,
    >,
>;
pub type VClient = Client<Cfg>;
pub type VGroup = Group<Cfg>;

#[derive(Clone)]
pub struct Stores {
    pub faults: Arc<Faults>,
    pub gs: VGroupStore,
    pub kp: VKpStore,
    pub psk: VPskStore,
}

impl Stores {
    pub fn new(backend: Backend, retention: u64) -> Self {
        let faults = Faults::new();
        Stores {
            gs: VGroupStore::new(backend, retention, faults.clone()),
            kp: VKpStore::new(backend == Backend::Sql, faults.clone()),
            psk: VPskStore::new(faults.clone()),
            faults,
        }
    }
}

#[derive(Clone, Debug)]
pub struct WorldCfg {
    pub suite: u16,
    pub provs: Vec<Prov>,
    pub path_required: bool,
    pub ratchet_tree_extension: bool,
    pub single_welcome: bool,
    pub allow_external_commit: bool,
    pub encrypt_controls: bool,
    pub padding: bool,
    pub backend: Backend,
    pub retention: u64,
    pub max_members: usize,
    pub record: bool,
}

impl WorldCfg {
    pub fn draw(rng: &mut Rng, thorough: bool) -> Self {
        let suites_all: &[u16] = &[1, 2, 3, 1, 2, 3, 5, 7, 4, 6];
        let suite = suites_all[rng.below(if thorough { 10 } else { 8 })];
        let mut provs: Vec<Prov> = Prov::ALL
            .iter()
            .copied()
            .filter(|p| p.suites().contains(&suite))
            .collect();
        // sometimes a single-provider group
        if rng.chance(1, 4) {
            let p = provs[rng.below(provs.len())];
            provs = vec![p];
        }
        WorldCfg {
            suite,
            provs,
            path_required: rng.chance(1, 3),
            ratchet_tree_extension: rng.chance(1, 2),
            single_welcome: rng.chance(1, 2),
            allow_external_commit: rng.chance(1, 2),
            encrypt_controls: rng.chance(1, 2),
            padding: rng.chance(1, 2),
            backend: match rng.below(4) {
                0 => Backend::Sql,
                1 => Backend::Tee,
                _ => Backend::Mem,
            },
            retention: [1u64, 2, 3, 5][rng.below(4)],
            max_members: if thorough { rng.range(4, 33) } else { rng.range(3, 12) },
            record: false,
        }
    }
    pub fn to_json(&self) -> Value {
        json!({"suite": self.suite, "provs": self.provs.iter().map(|p| p.name()).collect::<Vec<_>>(),
            "path_required": self.path_required, "ratchet_tree_extension": self.ratchet_tree_extension,
            "single_welcome": self.single_welcome, "allow_external_commit": self.allow_external_commit,
            "encrypt_controls": self.encrypt_controls, "padding": self.padding,
            "backend": format!("{:?}", self.backend), "retention": self.retention, "max_members": self.max_members})
    }
    pub fn rules(&self) -> DefaultMlsRules {
        let co = CommitOptions::new()
            .with_path_required(self.path_required)
            .with_ratchet_tree_extension(self.ratchet_tree_extension)
            .with_single_welcome_message(self.single_welcome)
            .with_allow_external_commit(self.allow_external_commit);
        let pm = if self.padding {
            mls_rs::client_builder::PaddingMode::StepFunction
        } else {
            mls_rs::client_builder::PaddingMode::None
        };
        DefaultMlsRules::new()
            .with_commit_options(co)
            .with_encryption_options(EncryptionOptions::new(self.encrypt_controls, pm))
            .with_custom_proposals_that_require_update_path(vec![ProposalType::new(
                CUSTOM_PROP_PATH,
            )])
    }
}

#[derive(Clone, Copy, Debug, PartialEq, Eq)]
pub enum Status {
    /// has a key identity but is not (or no longer) in the group
    Outside,
    Active,
    /// rejected an honest commit (recorded under C10), out of the lockstep set
    Stuck,
    /// was added to the tree but could not use its Welcome (resumption PSK it cannot have)
    Ghost,
}

pub struct Party {
    pub id: usize,
    pub name: Vec<u8>,
    pub prov: Prov,
    pub client: VClient,
    pub stores: Stores,
    pub ident: VIdent,
    pub sk: SignatureSecretKey,
    pub pk: SignaturePublicKey,
    pub signing_identity: SigningIdentity,
    pub group: Option<VGroup>,
    pub status: Status,
    pub joined_epoch: u64,
    /// group objects of this party from which it was removed / replaced (kept for C02)
    pub former: Vec<(u64, VGroup)>,
    /// outstanding key packages (message) not yet consumed
    pub key_packages: Vec<MlsMessage>,
    /// encoded key package messages that carry the last-resort extension
    pub last_resort_kps: BTreeSet<Vec<u8>>,
    /// whether the key package this party joined with last was a last-resort one
    pub joined_with_last_resort: bool,
    pub rules: DefaultMlsRules,
}

pub fn make_client(
    name: &[u8],
    prov: Prov,
    who: u32,
    suite: u16,
    sk: SignatureSecretKey,
    pk: SignaturePublicKey,
    stores: &Stores,
    ident: &VIdent,
    rules: DefaultMlsRules,
    rec: Option<Arc<Recorder>>,
) -> (VClient, SigningIdentity) {
    let crypto = match rec {
        Some(r) => AnyCrypto::recorded(prov, who, r),
        None => AnyCrypto::new(prov),
    };
    let cred = if ident.custom_ok && name.starts_with(b"cc") {
        mls_rs::identity::Credential::Custom(mls_rs::identity::CustomCredential::new(CredentialType::new(CUSTOM_CRED), name.to_vec()))
    } else {
        BasicCredential::new(name.to_vec()).into_credential()
    };
    let si = SigningIdentity::new(cred, pk);
    let client = ClientBuilder::new()
        .key_package_repo(stores.kp.clone())
        .psk_store(stores.psk.clone())
        .group_state_storage(stores.gs.clone())
        .identity_provider(ident.clone())
        .mls_rules(rules)
        .crypto_provider(crypto)
        .extension_type(ExtensionType::new(EXT_A))
        .extension_type(ExtensionType::new(EXT_B))
        .custom_proposal_type(ProposalType::new(CUSTOM_PROP))
        .custom_proposal_type(ProposalType::new(CUSTOM_PROP_PATH))
        .signing_identity(si.clone(), sk, CipherSuite::from(suite))
        .build();
    (client, si)
}

/// Ground truth about one application message.
#[derive(Clone)]
pub struct SentApp {
    pub msg: MlsMessage,
    pub sender: usize,
    pub sender_leaf: u32,
    pub epoch: u64,
    pub plaintext: Vec<u8>,
    pub aad: Vec<u8>,
}

/// What all members must agree on.
#[derive(Clone, PartialEq, Eq, Debug)]
pub struct Obs {
    pub ctx: Vec<u8>,
    pub roster: Vec<(u32, Vec<u8>, Vec<u8>)>,
    pub tree: Vec<u8>,
    pub auth: Vec<u8>,
    pub exports: Vec<Vec<u8>>,
}

pub fn observe(g: &VGroup, probes: &[(Vec<u8>, Vec<u8>, usize)]) -> Result<Obs, String> {
    use mls_rs::mls_rs_codec::MlsEncode;
    let ctx = g.context().mls_encode_to_vec().map_err(|e| format!("{e:?}"))?;
    let roster = g
        .roster()
        .members_iter()
        .map(|m| {
            (
                m.index,
                m.signing_identity.signature_key.as_ref().to_vec(),
                m.signing_identity
                    .credential
                    .as_basic()
                    .map(|b| b.identifier.clone())
                    .unwrap_or_default(),
            )
        })
        .collect();
    let tree = g.export_tree().to_bytes().map_err(|e| format!("{e:?}"))?;
    let auth = g
        .epoch_authenticator()
        .map_err(|e| format!("{e:?}"))?
        .as_bytes()
        .to_vec();
    let mut exports = Vec::new();
    for (l, c, n) in probes {
        exports.push(
            g.export_secret(l, c, *n)
                .map_err(|e| format!("export_secret: {e:?}"))?
                .as_bytes()
                .to_vec(),
        );
    }
    Ok(Obs {
        ctx,
        roster,
        tree,
        auth,
        exports,
    })
}

pub fn obs_diff(a: &Obs, b: &Obs) -> Vec<&'static str> {
    let mut d = vec![];
    if a.ctx != b.ctx {
        d.push("context");
    }
    if a.roster != b.roster {
        d.push("roster");
    }
    if a.tree != b.tree {
        d.push("tree");
    }
    if a.auth != b.auth {
        d.push("authenticator");
    }
    if a.exports != b.exports {
        d.push("exports");
    }
    d
}

pub struct World {
    pub cfg: WorldCfg,
    pub rng: Rng,
    pub parties: Vec<Party>,
    pub rec: Arc<Recorder>,
    pub out: ShardOut,
    pub op_no: u64,
    pub script: Vec<Value>,
    /// external PSKs known to the group: id -> value
    pub psks: BTreeMap<Vec<u8>, Vec<u8>>,
    pub group_id: Vec<u8>,
    pub prop: &'static str,
    /// application messages sent in the current epoch, for delivery
    pub apps: Vec<SentApp>,
    /// observation of every epoch as agreed by the members: epoch -> Obs
    pub epoch_obs: BTreeMap<u64, Obs>,
    pub export_probes: Vec<(Vec<u8>, Vec<u8>, usize)>,
    /// the application deletes a former member's stored group before it rejoins (off only
    /// where "comes back with the same storage" is the case under test)
    pub rejoin_hygiene: bool,
    /// authenticated data of the proposal created last / of the winning commit being delivered
    pub last_aad: Vec<u8>,
    pub cur_commit: Option<(usize, Vec<u8>)>,
    pub rejoined_same_storage: BTreeSet<usize>,
    /// group context extensions that every GroupContextExtensions proposal of the driver keeps
    pub keep_exts: Vec<Extension>,
    /// chance that a new party's identity provider also supports the custom credential type
    pub p_custom_cred: (u32, u32),
    /// chance that a generated key package is marked last-resort
    pub p_last_resort: (u32, u32),
    /// identity that the group context authorises as external sender (engines that want one)
    pub ext_signer: Option<(SignatureSecretKey, SigningIdentity)>,
}

pub struct CommitResult {
    pub output: mls_rs::group::CommitOutput,
    pub committer: usize,
}

impl World {
    pub fn new(cfg: WorldCfg, rng: Rng, prop: &'static str) -> Self {
        let rec = Recorder::new();
        World {
            cfg,
            rng,
            parties: vec![],
            rec,
            out: ShardOut::default(),
            op_no: 0,
            script: vec![],
            psks: BTreeMap::new(),
            group_id: vec![],
            prop,
            apps: vec![],
            epoch_obs: BTreeMap::new(),
            export_probes: vec![],
            rejoin_hygiene: true,
            last_aad: vec![],
            cur_commit: None,
            rejoined_same_storage: BTreeSet::new(),
            keep_exts: vec![],
            p_custom_cred: (0, 1),
            p_last_resort: (0, 1),
            ext_signer: None,
        }
    }

    pub fn log(&mut self, v: Value) {
        self.op_no += 1;
        self.rec.set_op(self.op_no);
        if std::env::var_os("MLSVERIF_TRACE").is_some() {
            eprintln!("#{} {}", self.op_no, v);
        }
        if self.script.len() < 400 {
            self.script.push(v);
        }
    }

    pub fn violate(&mut self, sig: impl Into<String>, detail: impl Into<String>) {
        let p = self.prop;
        let sig = sig.into();
        let detail = format!(
            "{} | cfg={} | last_ops={}",
            detail.into(),
            self.cfg.to_json(),
            Value::Array(self.script.iter().rev().take(12).rev().cloned().collect())
        );
        self.out.violate(p, sig, detail);
    }

    pub fn suite_of(&self, prov: Prov) -> crate::anycrypto::AnySuite {
        AnyCrypto::new(prov).suite(self.cfg.suite).expect("suite")
    }

    /// New party with a fresh identity (not in the group).
    pub fn new_party(&mut self) -> usize {
        let id = self.parties.len();
        let prov = self.cfg.provs[self.rng.below(self.cfg.provs.len())];
        self.new_party_with(id, format!("c{id}").into_bytes(), prov, None)
    }

    pub fn new_party_with(
        &mut self,
        id: usize,
        name: Vec<u8>,
        prov: Prov,
        keys: Option<(SignatureSecretKey, SignaturePublicKey)>,
    ) -> usize {
        let cs = self.suite_of(prov);
        let (sk, pk) = keys.unwrap_or_else(|| cs.signature_key_generate().expect("sig keygen"));
        let stores = Stores::new(self.cfg.backend, self.cfg.retention);
        let ident = VIdent {
            custom_ok: self.p_custom_cred.0 > 0 && self.rng.chance(self.p_custom_cred.0, self.p_custom_cred.1),
            ..Default::default()
        };
        let rules = self.cfg.rules();
        let rec = self.cfg.record.then(|| self.rec.clone());
        let (client, si) = make_client(
            &name,
            prov,
            id as u32,
            self.cfg.suite,
            sk.clone(),
            pk.clone(),
            &stores,
            &ident,
            rules.clone(),
            rec,
        );
        for (k, v) in &self.psks {
            stores.psk.put(k, v);
        }
        self.parties.push(Party {
            id,
            name,
            prov,
            client,
            stores,
            ident,
            sk,
            pk,
            signing_identity: si,
            group: None,
            status: Status::Outside,
            joined_epoch: 0,
            former: vec![],
            key_packages: vec![],
            last_resort_kps: BTreeSet::new(),
            joined_with_last_resort: false,
            rules,
        });
        id
    }

    pub fn active(&self) -> Vec<usize> {
        self.parties
            .iter()
            .filter(|p| p.status == Status::Active && p.group.is_some())
            .map(|p| p.id)
            .collect()
    }

    pub fn outside(&self) -> Vec<usize> {
        self.parties
            .iter()
            .filter(|p| p.status == Status::Outside)
            .map(|p| p.id)
            .collect()
    }

    pub fn g(&self, i: usize) -> &VGroup {
        self.parties[i].group.as_ref().expect("group")
    }
    pub fn gm(&mut self, i: usize) -> &mut VGroup {
        self.parties[i].group.as_mut().expect("group")
    }

    pub fn epoch(&self) -> u64 {
        self.active()
            .first()
            .map(|i| self.g(*i).current_epoch())
            .unwrap_or(0)
    }

    pub fn leaf_of(&self, i: usize) -> u32 {
        self.g(i).current_member_index()
    }

    /// party id currently occupying leaf `leaf` (by the view of the first active member)
    pub fn party_at_leaf(&self, leaf: u32) -> Option<usize> {
        self.active().into_iter().find(|i| self.leaf_of(*i) == leaf)
    }

    pub fn create_group(&mut self, creator: usize, gce: ExtensionList) -> Result<(), String> {
        self.log(json!({"op":"create_group","by":creator}));
        let g = self.parties[creator]
            .client
            .create_group(gce, Default::default(), None)
            .map_err(|e| format!("create_group: {e:?}"))?;
        self.group_id = g.group_id().to_vec();
        let p = &mut self.parties[creator];
        p.group = Some(g);
        p.status = Status::Active;
        p.joined_epoch = 0;
        Ok(())
    }

    pub fn key_package(&mut self, c: usize) -> Result<MlsMessage, String> {
        let last_resort = self.p_last_resort.0 > 0 && self.rng.chance(self.p_last_resort.0, self.p_last_resort.1);
        let mut kp_ext = ExtensionList::new();
        if last_resort {
            kp_ext
                .set_from(mls_rs::extension::recommended::LastResortKeyPackageExt)
                .map_err(|e| format!("{e:?}"))?;
        }
        let kp = self.parties[c]
            .client
            .generate_key_package_message(kp_ext, Default::default(), None)
            .map_err(|e| format!("generate_key_package: {e:?}"))?;
        if last_resort {
            self.parties[c].last_resort_kps.insert(kp.to_bytes().unwrap_or_default());
        }
        self.parties[c].key_packages.push(kp.clone());
        Ok(kp)
    }

    /// Install an external PSK in every party's store and remember it.
    pub fn new_external_psk(&mut self) -> Vec<u8> {
        let id = self.rng.bytes(8);
        let v = self.rng.bytes(32);
        for p in &self.parties {
            p.stores.psk.put(&id, &v);
        }
        self.psks.insert(id.clone(), v);
        id
    }

    pub fn base_gce(&self) -> ExtensionList {
        let mut l = ExtensionList::new();
        for e in &self.keep_exts {
            l.set(e.clone());
        }
        l
    }

    pub fn random_gce(&mut self) -> ExtensionList {
        let mut l = self.base_gce();
        if self.rng.chance(2, 3) {
            l.set(Extension::new(ExtensionType::new(EXT_A), self.rng.bytes(5)));
        }
        if self.rng.chance(1, 3) {
            l.set(Extension::new(ExtensionType::new(EXT_B), self.rng.bytes(3)));
        }
        l
    }

    pub fn custom_proposal(&mut self, needs_path: bool) -> CustomProposal {
        CustomProposal::new(
            ProposalType::new(if needs_path {
                CUSTOM_PROP_PATH
            } else {
                CUSTOM_PROP
            }),
            self.rng.bytes(6),
        )
    }

    /// Deliver `msg` to party `to`; returns the library's answer (panics are turned into Err).
    pub fn deliver(&mut self, to: usize, msg: &MlsMessage) -> Result<ReceivedMessage, String> {
        let m = msg.clone();
        let g = self.parties[to].group.as_mut().expect("group");
        let r = if use_timed_entry_point() {
            guarded(|| g.process_incoming_message_with_time(m, mls_rs::time::MlsTime::now()))
        } else {
            guarded(|| g.process_incoming_message(m))
        };
        match r {
            Ok(Ok(r)) => Ok(r),
            Ok(Err(e)) => Err(format!("{e:?}")),
            Err(p) => Err(format!("PANIC {p}")),
        }
    }

    /// Mark party `i` as no longer following the group, keeping its object.
    pub fn retire(&mut self, i: usize, status: Status) {
        let ep = self.parties[i]
            .group
            .as_ref()
            .map(|g| g.current_epoch())
            .unwrap_or(0);
        if let Some(g) = self.parties[i].group.take() {
            self.parties[i].former.push((ep, g));
        }
        self.parties[i].status = status;
    }
}

pub fn is_err_kind(e: &MlsError, kind: &str) -> bool {
    format!("{e:?}").starts_with(kind)
}

pub fn proposal_kind(p: &Proposal) -> &'static str {
    match p {
        Proposal::Add(_) => "add",
        Proposal::Update(_) => "update",
        Proposal::Remove(_) => "remove",
        Proposal::Psk(_) => "psk",
        Proposal::ReInit(_) => "reinit",
        Proposal::ExternalInit(_) => "external_init",
        Proposal::GroupContextExtensions(_) => "gce",
        Proposal::Custom(_) => "custom",
        #[allow(unreachable_patterns)]
        _ => "other",
    }
}

pub fn effect_kind(e: &CommitEffect) -> &'static str {
    match e {
        CommitEffect::NewEpoch(_) => "new_epoch",
        CommitEffect::Removed { .. } => "removed",
        CommitEffect::ReInit(_) => "reinit",
    }
}

/// `apply_pending_commit` and its `_backwards_compatible` twin do the same for commits built by
/// this version of the library; the harness alternates between the two entry points.
pub trait ApplyPendingAlt {
    fn apply_pending_alt(&mut self) -> Result<mls_rs::group::CommitMessageDescription, MlsError>;
}

impl ApplyPendingAlt for VGroup {
    fn apply_pending_alt(&mut self) -> Result<mls_rs::group::CommitMessageDescription, MlsError> {
        if use_timed_entry_point() {
            self.apply_pending_commit_backwards_compatible()
        } else {
            self.apply_pending_commit()
        }
    }
}
