//! Minimal wire helpers written from RFC 9420 §2.1.2 (independent of mls-rs-codec): varints,
//! opaque vectors, and (re)assembly of framed messages from their encoded parts.

use mls_rs::group::verif_hooks::{PrivateParts, PublicParts};

pub fn put_varint(out: &mut Vec<u8>, n: usize) {
    if n < 64 {
        out.push(n as u8);
    } else if n < 16384 {
        out.extend_from_slice(&((n as u16) | 0x4000).to_be_bytes());
    } else {
        out.extend_from_slice(&((n as u32) | 0x8000_0000).to_be_bytes());
    }
}

pub fn put_opaque(out: &mut Vec<u8>, b: &[u8]) {
    put_varint(out, b.len());
    out.extend_from_slice(b);
}

/// Returns (value, bytes used); None on truncation or non-minimal / invalid prefix.
pub fn get_varint(b: &[u8]) -> Option<(usize, usize)> {
    let f = *b.first()?;
    match f >> 6 {
        0 => Some((f as usize, 1)),
        1 => {
            let v = (((f & 0x3f) as usize) << 8) | *b.get(1)? as usize;
            (v >= 64).then_some((v, 2))
        }
        2 => {
            let v = (((f & 0x3f) as usize) << 24)
                | (*b.get(1)? as usize) << 16
                | (*b.get(2)? as usize) << 8
                | *b.get(3)? as usize;
            (v >= 16384).then_some((v, 4))
        }
        _ => None,
    }
}

/// Reads opaque<V> at `off`; returns (range of the content, offset after it).
pub fn get_opaque(b: &[u8], off: usize) -> Option<(std::ops::Range<usize>, usize)> {
    let (n, used) = get_varint(b.get(off..)?)?;
    let s = off + used;
    let e = s.checked_add(n)?;
    (e <= b.len()).then_some((s..e, e))
}

/// MLSMessage(PublicMessage) from parts.
pub fn join_public(p: &PublicParts) -> Vec<u8> {
    let mut o = Vec::new();
    o.extend_from_slice(&p.version.to_be_bytes());
    o.extend_from_slice(&1u16.to_be_bytes());
    put_opaque(&mut o, &p.group_id);
    o.extend_from_slice(&p.epoch.to_be_bytes());
    o.extend_from_slice(&p.sender);
    put_opaque(&mut o, &p.authenticated_data);
    o.extend_from_slice(&p.content);
    put_opaque(&mut o, &p.signature);
    if let Some(t) = &p.confirmation_tag {
        put_opaque(&mut o, t);
    }
    if let Some(t) = &p.membership_tag {
        put_opaque(&mut o, t);
    }
    o
}

/// MLSMessage(PrivateMessage) from parts.
pub fn join_private(p: &PrivateParts) -> Vec<u8> {
    let mut o = Vec::new();
    o.extend_from_slice(&p.version.to_be_bytes());
    o.extend_from_slice(&2u16.to_be_bytes());
    put_opaque(&mut o, &p.group_id);
    o.extend_from_slice(&p.epoch.to_be_bytes());
    o.push(p.content_type);
    put_opaque(&mut o, &p.authenticated_data);
    put_opaque(&mut o, &p.encrypted_sender_data);
    put_opaque(&mut o, &p.ciphertext);
    o
}

/// Byte ranges of an MLSMessage(Welcome): (header+cipher_suite range, per-entry ranges of
/// `secrets`, encrypted_group_info range incl. prefix).
pub struct WelcomeLayout {
    pub head: std::ops::Range<usize>,
    pub entries: Vec<std::ops::Range<usize>>,
    /// KeyPackageRef bytes of each entry
    pub refs: Vec<Vec<u8>>,
    pub group_info: std::ops::Range<usize>,
}

pub fn welcome_layout(b: &[u8]) -> Option<WelcomeLayout> {
    if b.len() < 6 || b[2..4] != 3u16.to_be_bytes() {
        return None;
    }
    let (n, used) = get_varint(&b[6..])?;
    let start = 6 + used;
    let end = start + n;
    let mut off = start;
    let mut entries = vec![];
    let mut refs = vec![];
    while off < end {
        let e0 = off;
        let (r, o1) = get_opaque(b, off)?;
        refs.push(b[r].to_vec());
        let (_, o2) = get_opaque(b, o1)?;
        let (_, o3) = get_opaque(b, o2)?;
        entries.push(e0..o3);
        off = o3;
    }
    let (_, gi_end) = get_opaque(b, end)?;
    Some(WelcomeLayout {
        head: 0..start,
        entries,
        refs,
        group_info: end..gi_end,
    })
}
