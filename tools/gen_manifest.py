#!/usr/bin/env python3
"""Regenerate /verif/MANIFEST.json from check.py's SPECS and tools/manifest_meta.json."""
import json, os, subprocess, sys
ROOT = os.path.dirname(os.path.dirname(os.path.abspath(__file__)))
sys.path.insert(0, ROOT)
import check
meta = json.load(open(os.path.join(ROOT, "tools", "manifest_meta.json")))
ids = [json.loads(l)["id"] for l in open(os.path.join(ROOT, "properties.jsonl"))]
checks, na = [], []
for i in ids:
    if i in check.SPECS and i in meta["checks"]:
        m = meta["checks"][i]
        spec = check.SPECS[i]
        checks.append(dict(
            property_id=i,
            quick_cmd=f"python3 check.py {i} --tier quick",
            thorough_cmd=f"python3 check.py {i} --tier thorough",
            evidence_file=f"/verif/evidence/{i}.json",
            replay_cmd_template=f"python3 check.py {i} --replay {{path}}",
            engine=m.get("engine", "world"),
            level_claimed=dict(category=spec["level"], text=m["text"], design_ref=m.get("design_ref", f"DESIGN.md section 5, {i}")),
            level_note=m["note"],
            technique=m["technique"]))
    else:
        na.append(dict(property_id=i, reason=meta["not_applicable"].get(i, "check not built yet in this revision (work in progress; DESIGN.md section 5 describes the planned monitor)")))
man = dict(version=1, setup_cmd="python3 check.py --setup", hooks=meta["hooks"], engines=meta["engines"], checks=checks, not_applicable=na, notes=meta["notes"])
json.dump(man, open(os.path.join(ROOT, "MANIFEST.json"), "w"), indent=1)
print("checks:", [c["property_id"] for c in checks], "not_applicable:", [n["property_id"] for n in na])
