#!/usr/bin/env python3
"""Run the quick checks named in seeded/catch_map.json against every seeded change and record
which check reports a violation (seeded/RESULTS.json, seeded/RESULTS.md).

  python3 tools/seed_all.py [C01/A C03/B ...]

Each change is applied to /repo with `git apply`, the checks run, and /repo is restored with
`git checkout -- .` straight afterwards (also on interruption). Nothing is ever committed to /repo.
"""
import json, os, subprocess, sys, re, time
ROOT = os.path.dirname(os.path.dirname(os.path.abspath(__file__)))
cmap = json.load(open(os.path.join(ROOT, "seeded", "catch_map.json")))
only = sys.argv[1:]
res_path = os.path.join(ROOT, "seeded", "RESULTS.json")
results = json.load(open(res_path)) if os.path.exists(res_path) else {}
def sh(*a, **k):
    return subprocess.run(*a, **k)
for key, checks in cmap.items():
    if only and key not in only:
        continue
    pid, name = key.split("/")
    patch = os.path.join(ROOT, "seeded", pid, f"{name}.diff")
    if sh(["git", "-C", "/repo", "diff", "--quiet"]).returncode != 0:
        print("REPO DIRTY, refusing"); sys.exit(2)
    if sh(["git", "-C", "/repo", "apply", patch]).returncode != 0:
        print(key, "PATCH DOES NOT APPLY"); results[key] = {"error": "patch does not apply"}; continue
    try:
        entry = {}
        for c in checks:
            t = time.time()
            p = sh(["python3", "check.py", c, "--tier", "quick"], cwd=ROOT, capture_output=True, text=True,
                   env=dict(os.environ, VERIF_SEED=os.environ.get("VERIF_SEED", "1")))
            sigs = sorted(set(re.findall(r"signature: (\S+)", p.stdout)))
            entry[c] = {"exit": p.returncode, "violations": p.stdout.count("\nVIOLATION ") + p.stdout.startswith("VIOLATION "),
                        "signatures": sigs[:6], "secs": round(time.time() - t)}
            print(key, c, "exit", p.returncode, sigs[:3], flush=True)
        results[key] = entry
    finally:
        sh(["git", "-C", "/repo", "checkout", "--", "."])
    json.dump(results, open(res_path, "w"), indent=1)
# markdown
lines = ["| change | what it does | caught by (quick tier, exit 1) | not caught by |", "|---|---|---|---|"]
for key in sorted(results):
    pid, name = key.split("/")
    try:
        meta = json.load(open(os.path.join(ROOT, "seeded", pid, "meta.json")))
        summ = next((c.get("summary", "") for c in meta.get("changes", []) if c.get("name") == name), "")
    except Exception:
        summ = ""
    summ = summ.replace("|", "/").replace("\n", " ")
    summ = summ[:160] + ("…" if len(summ) > 160 else "")
    e = results[key]
    if "error" in e:
        lines.append(f"| {key} | {summ} | {e['error']} | |"); continue
    hit = [f"{c} (`{(v['signatures'] or ['?'])[0]}`)" for c, v in e.items() if v["exit"] == 1]
    miss = [c for c, v in e.items() if v["exit"] != 1]
    lines.append(f"| {key} | {summ} | {'; '.join(hit)} | {', '.join(miss)} |")
open(os.path.join(ROOT, "seeded", "RESULTS.md"), "w").write("\n".join(lines) + "\n")
