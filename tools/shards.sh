#!/bin/bash
# usage: tools/shards.sh PROP TIER SEED "0 1 2" [filter-prefixes]
# prints per-shard summary of violations (deduplicated by signature) and selected counters
PROP=$1; TIER=$2; SEED=$3; SHARDS=$4; FILT=${5:-__none__}
cd /verif/harness
for s in $SHARDS; do
  ./target/release/mlsverif $PROP --tier $TIER --seed $SEED --shard $s 2>/dev/null | python3 -c "
import json,sys
raw=sys.stdin.read()
try: d=json.loads(raw)
except Exception as e:
    print('NO JSON', raw[:200]); sys.exit(0)
print('shard $s evals',d['evaluations'],'distinct',len(d['distinct']))
filt='$FILT'.split(',')
for k,v in sorted(d['counters'].items()):
    if any(k.startswith(f) for f in filt): print('  ',k,v)
seen=set()
for v in d['violations']:
    if v['sig'] in seen: continue
    seen.add(v['sig']); print('VIOL',v['sig']); print('    ', v['detail'][:int('${DETAIL:-300}')])
if d['inconclusive']: print('INCONCL',d['inconclusive'][:3])
"
done
