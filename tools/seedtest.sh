#!/bin/bash
# usage: tools/seedtest.sh <patch.diff> <PROP> [<PROP> ...]
# applies a seeded change to /repo, runs the quick checks named, and always restores /repo.
PATCH=$(realpath $1); shift
cd /repo || exit 2
if ! git diff --quiet; then echo "REPO DIRTY, refusing"; exit 2; fi
git apply "$PATCH" || { echo "PATCH DOES NOT APPLY"; exit 2; }
trap 'git -C /repo checkout -- . ' EXIT
cd /verif
for P in "$@"; do
  VERIF_SEED=${VERIF_SEED:-1} timeout 3000 python3 check.py $P --tier ${TIER:-quick} > /tmp/seedtest_$P.log 2>&1
  rc=$?
  echo "== $P exit=$rc $(grep -c '^VIOLATION' /tmp/seedtest_$P.log) violations; signatures:"
  grep -A1 '^VIOLATION' /tmp/seedtest_$P.log | grep signature | sort | uniq -c | sort -rn | head -${NSIG:-8}
  grep '^INCONCLUSIVE' /tmp/seedtest_$P.log | head -3
done
