#!/usr/bin/env python3
"""Runner for the runtime-monitoring checks of awslabs/mls-rs (see DESIGN.md).

  python3 check.py --setup
  python3 check.py <ID> --tier quick|thorough [--replay FILE]

Exit 0: property held on everything explored (KNOWN-FINDING lines possible).
Exit 1: at least one violation that known_findings.json does not list (VIOLATION lines).
Exit 2: inconclusive (build failure, harness error, watchdog, coverage floor missed).
"""
import concurrent.futures as cf
import hashlib
import json
import os
import shutil
import subprocess
import sys
import time

ROOT = os.path.dirname(os.path.abspath(__file__))
HARNESS = os.path.join(ROOT, "harness")
BIN = os.path.join(HARNESS, "target", "release", "mlsverif")
WORK = os.path.join(ROOT, "work")
EVID = os.path.join(ROOT, "evidence")
REPLAYS = os.path.join(ROOT, "replays")
ENV = dict(os.environ, CARGO_NET_OFFLINE="true")

sys.path.insert(0, os.path.join(ROOT, "checker"))

# ---------------------------------------------------------------------------------------------
# per-property specification
#   shards: (quick, thorough) number of harness processes (each explores its own histories)
#   floors: coverage counters that must reach a minimum, else the verdict is inconclusive
#   level:  evidence level
#   post:   optional offline checker: module name in /verif/checker with run(shard_outputs, ctx)
# ---------------------------------------------------------------------------------------------
SPECS = {
    "C01": dict(shards=(16, 64), level="exploration",
                floors={"quick": {"commit_accepted": 100, "agree_checked:receiver": 150,
                                  "agree_checked:joiner": 20, "app_delivered": 100},
                        "thorough": {"commit_accepted": 5000}},
                rule="histories are seeded random op scripts (by-ref/by-value proposals of every type, racing commits, "
                     "external commits, identity changes, reloads) over drawn configurations; one evaluation = one member's "
                     "state compared with the reference member after an accepted commit; distinct = distinct "
                     "(encoded GroupContext, role) pairs judged; trivial = none (every evaluation follows an accepted commit)"),
    "C03": dict(shards=(16, 48), level="exploration",
                floors={"quick": {"trial:commit:bitflip": 2000, "trial:application:bitflip": 1000,
                                  "trial:proposal:bitflip": 1000, "trial:welcome:bitflip": 500,
                                  "insider_built:path_too_short_consistent_hashes": 10,
                                  "insider_built:stale_confirmation_tag": 10,
                                  "ground_truth_checked:commit": 20}},
                show=("commit_accepted", "histories", "sweep:", "insider_built:"),
                rule="messages harvested from seeded random histories (public and private commits with/without path, proposals of every "
                     "type, application messages, Welcome, GroupInfo, out-of-band tree, key packages) are mutated (every single-bit flip and "
                     "truncation point for swept messages, field splices between two valid messages, epoch/group/sender rewrites, insider "
                     "re-encrypted sender data, replays into later epochs, authentic-but-invalid commits built through the insider hook) and "
                     "delivered to a clone of each receiver; one evaluation = one delivery judged; distinct = distinct "
                     "(message kind, mutation class, outcome/error kind) cells; trivial deliveries (mutations that decode to the same "
                     "message) are skipped and not counted"),
    "C04": dict(shards=(16, 48), level="exploration",
                floors={"quick": {"unchanged_checked": 3000, "follow_up_genuine_ok": 1500, "follow_up_peer_accepts": 800}},
                show=("commit_accepted", "histories", "unchanged_checked", "follow_up", "honest_failure", "failed_build"),
                rule="every rejection produced by the tamper engine's mutations plus honest-failure scripts (missing external PSK, trimmed "
                     "resumption epoch with/without path and with an own identity update pending, identity provider rejecting an added member, "
                     "each storage call failing during a plain and a re-init commit, failing commit/proposal builders); one evaluation = one "
                     "rejected call followed by state comparison (PartialEq on every part of the member state; secret trees up to "
                     "observational equivalence of every (leaf, key type, generation<=6) key) and the follow-up oracle (genuine message "
                     "accepted, then the member sends and a peer accepts); distinct = distinct (kind, class, error kind) cells"),
    "C05": dict(shards=(16, 32), level="exploration", post="c05_post",
                floors={"quick": {"delivery:fresh": 1500, "delivery:replay_or_reused_generation": 300, "delivery:beyond_window": 2,
                                  "gap_stream_sent": 8, "receiver_reloaded_mid_stream": 50, "stale_sender_restored": 15,
                                  "offline_content_seals": 10000, "offline_handshake_keys": 20, "offline_application_keys": 5000,
                                  "offline_repeated_keys_with_distinct_nonce": 10}},
                show=("damaged_copy_first", "histories", "epochs", "delivery", "gap", "refused", "stale", "receiver_reloaded", "offline_"),
                rule="per epoch several senders stream application and (when handshake encryption is on) handshake messages; one stream has a "
                     "gap of 1021..1026 generations actually encrypted; one sender is restored from a state saved before it sent; every "
                     "receiver gets its own permutation with duplicates and is reloaded mid-stream; every delivery is compared with a ratchet "
                     "model (accepted iff generation unused and <= next+1024); offline every recorded content aead_seal is checked for "
                     "(key, nonce) uniqueness and key-type separation; one evaluation = one delivery or one seal event; distinct = distinct "
                     "(context, key type, expectation, gap class) cells + (history, epoch, type, member) groups"),
    "C06": dict(shards=(16, 32), level="exploration",
                floors={"quick": {"lockstep_steps": 1500, "crash_points": 100, "provider_equivalence_checked": 150,
                                  "reload_at:commit_created_pending": 25, "reload_at:received_commit": 80,
                                  "reload_at:received_proposal": 80, "reload_at:received_application_message": 60,
                                  "reload_at:own_proposal": 20, "reload_at:commit_applied": 20, "reload_at:joined": 5,
                                  "reload_with_cached_proposals": 120}},
                show=("histories", "reload_", "lockstep", "crash", "provider_eq", "backend"),
                rule="seeded histories over both storage providers and retention 1,2,3,5; after every kind of step a member is written, "
                     "loaded by a fresh client over the same store and compared (all state parts, pending commit, cached proposals, pending "
                     "updates); the loaded object then stays in lockstep with a never-reloaded twin on all deterministic traffic; a crash "
                     "monitor compares a later fresh load with the state at the last write; the Tee backend compares the in-memory and SQLite "
                     "providers after every write; one evaluation = one reload / lockstep step / crash point / provider comparison; distinct "
                     "= distinct (kind, position, pending?, cached proposals, result) cells"),
    "C02": dict(shards=(16, 32), level="exploration", post="c02_post",
                floors={"quick": {"outsider_fed:commit": 1000, "outsider_fed:proposal": 1500, "outsider_fed:application": 1000,
                                  "offline_commits_checked": 300, "offline_path_seals_checked": 1000, "offline_welcome_seals_checked": 100,
                                  "offline_removed_members_checked": 40, "commit_external": 10}},
                show=("histories", "commit_accepted", "commit_external", "outsider_fed", "offline_", "secrets_compared"),
                rule="seeded histories with removals, replacements (external commit with removal) and never-added parties; online: every "
                     "former object of every removed/replaced party receives all later commits, proposals and application messages and must "
                     "refuse them, and never shares an authenticator/exported secret with a later epoch; offline (independent Python "
                     "resolution.py over the recorded hpke_seal events of the committer): UpdatePathNode recipients equal the copath "
                     "resolutions of the new tree minus newly added leaves as a multiset and per level, none is a key a removed member knew, "
                     "Welcome recipients equal the init keys of the added key packages; one evaluation = one outsider delivery or one commit "
                     "judged offline; distinct = distinct (message kind, epoch distance) cells + distinct commits"),
    "C07": dict(shards=(16, 32), level="exploration",
                floors={"quick": {"joined_with_last_resort_key_package": 50, "joiner_ops_checked:welcome": 150, "joiner_ops_checked:external_commit": 10,
                                  "key_package_consumption_checked": 150, "negative:welcome_reused_after_write": 150,
                                  "negative:welcome_with_tree_of_other_epoch": 100, "negative:external_commit_from_stale_group_info": 100,
                                  "agree_checked:joiner": 150, "rejoin_same_storage_probed": 10}},
                show=("histories", "commit_accepted", "joiner_", "key_package", "negative", "rejoin", "agree_checked"),
                rule="seeded histories biased towards joins (several joiners per commit, adds mixed with removes/updates, with and without "
                     "path, PSKs, single and per-member Welcome, tree in extension or out of band, external commits with and without "
                     "replacement, former members coming back with the same storage); per joiner: agreement with all members, send / receive / "
                     "first commit accepted by everybody (on clones), key package gone after the first write, Welcome not reusable; negative "
                     "table: tree of another epoch, missing tree, external commit from a stale GroupInfo; distinct = distinct "
                     "(check, join kind, LCA level / epoch distance) cells"),
    "C08": dict(shards=(16, 32), level="exploration", post="c08_post",
                floors={"quick": {"validated:receiver": 2000, "validated:joiner": 300, "validated:committer": 500, "placement_checked": 300,
                                  "offline_tree_hashes_recomputed": 300, "shape:interior_blank_leaf": 50,
                                  "shape:unmerged_leaf_under_parent": 50, "shape:regrew_after_shrink": 20}},
                show=("histories", "commit_accepted", "validated", "placement", "offline_", "shape"),
                rule="seeded histories biased towards grow/shrink/regrow; after every commit every member's exported tree + signed GroupInfo is "
                     "fed to ExternalClient::observe_group (complete joiner validation) and distinct (tree, tree hash) pairs are recomputed "
                     "from scratch by treehash.py (tree hash, parent-hash chains, structure); leaf placement of every add is compared with "
                     "'leftmost blank after the removes'; distinct = distinct (exported tree, role) pairs"),
    "C09": dict(shards=(16, 32), level="exploration",
                floors={"quick": {"private_key_checked": 8000, "freshness_checked": 1500, "leaf_rekey_checked": 500}},
                show=("histories", "commit_accepted", "private_key", "freshness", "leaf_rekey", "entitled"),
                rule="after every commit of seeded histories, for every member and every direct-path position: a stored private key must "
                     "open what is sealed to the node's public key (HPKE round trip through the member's provider), no key for blank nodes "
                     "or beyond the path; after a path commit no committer path key may occur in the previous tree; a leaf private key "
                     "replaced by the member's own update/commit must not occur in its serialised state; distinct = distinct "
                     "(role, path position, key present, node present, LCA level) cells"),
    "C10": dict(shards=(16, 32), level="exploration",
                floors={"quick": {"soups": 250, "commit_built": 200, "receiver_accepted": 700, "build_refused_as_expected": 80,
                                  "by_ref_offenders_dropped": 80, "insider_refused": 800, "unused_sets_compared": 600,
                                  "missing_proposal_refused:ProposalNotFound": 20, "commit_after_refused_build_ok": 60,
                                  "follow_up_commits": 150, "follow_up_accepted": 600, "item:ref:add_custom_credential": 15}},
                show=("histories", "soups", "commit_built", "receiver_accepted", "build_refused", "by_ref_offenders", "insider_refused",
                      "unused_sets", "missing_prop", "reinit_commit", "applied:", "proposer_refused", "offender_refused", "commit_after", "follow_up"),
                rule="one evaluation = one soup (random multiset of by-reference and by-value proposals, valid and offending, one committer), "
                     "one receiver decision about its commit, or one receiver decision about an insider commit carrying an offender; distinct = "
                     "distinct (build class, number of by-reference offenders, cache size, by-value count, timed) / (receiver lacks a "
                     "referenced proposal, applied count, same cache) / (rule, honest content) classes"),
    "C11": dict(shards=(16, 32), level="exploration",
                floors={"quick": {"winner_orders_resolved": 300, "stale_commit_refused": 2000, "stale_detached_refused": 150,
                                  "second_build_refused": 150, "read_with_pending_ok": 300, "agreement_checked": 1000,
                                  "built_pending_next_to_detached": 30}},
                show=("histories", "built_", "winner_orders", "stale_", "second_build", "read_with", "agreement", "apply_without"),
                rule="racing rounds of 1-3 members building pending and detached commits in the same epoch; every choice of winner is "
                     "resolved on clones (winner applies directly, by echo or detached; losers clear or just receive; stale commits and stale "
                     "detached secrets are offered afterwards) and compared with a per-member reference model (pending none/some, epoch); one "
                     "evaluation = one model prediction compared; distinct = distinct (operation, role, pending/detached, mode, racers, group size, cached proposals, suite) cells"),
    "C13": dict(shards=(16, 32), level="exploration", post="c13_post",
                floors={"quick": {"offline_pure_values": 40000, "offline_insitu_epochs": 150, "offline_insitu_values": 3000,
                                  "offline_insitu_epochs_with_psk": 20, "offline_insitu_welcome_epochs": 20,
                                  "offline_insitu_sender_data_checked": 100, "offline_insitu_external_init_checked": 3, "pure:openssl:suite4": 50, "pure:awslc:suite7": 50,
                                  "pure:rustcrypto:suite3": 50}},
                show=("histories", "commit_accepted", "pure_cases", "insitu", "offline_"),
                rule="(1) pure: fresh (init secret, commit secret, GroupContext fields, PSK list of 0-6 mixed ids, tree size up to 2^10, leaf, "
                     "key type, generation up to 1020, exporter label/context/length, plain ExpandWithLabel inputs) per provider x suite, "
                     "derived through the hook wrappers and compared value by value with kdfref.py; (2) in situ: after each commit of real "
                     "histories the members' secrets, the commit bytes, applied PSKs, recorded HKDF-Extract calls and application AEAD keys "
                     "are replayed through the reference (transcript hashes, membership and confirmation tags, full schedule, exporter, "
                     "secret tree); one evaluation = one case or one epoch; distinct = distinct cases / epochs"),
    "C14": dict(shards=(16, 32), level="exploration", valgrind=True,
                floors={"quick": {"op:x509_validate_chain": 250, "op:hpke_open": 1200, "op:kdf_expand": 400, "op:verify": 300,
                                  "memcheck_clean_runs": 1}},
                show=("op:", "skipped:", "memcheck"),
                rule="differential comparison over every provider pair x common suite: byte equality of deterministic primitives, "
                     "producer x consumer interop of sign/verify and HPKE (base, PSK, setup/export), identical accept/reject on 111 malformed-"
                     "input classes, and X.509 chains minted with the openssl crate (21 variants x 6 times) judged against the verdict known "
                     "by construction; one evaluation = one pairwise comparison; distinct = distinct (operation, suite, pair, input class); "
                     "plus one valgrind memcheck run of a reduced OpenSSL + AWS-LC workload"),
    "C12": dict(shards=(16, 32), level="exploration", post="c12_post",
                floors={"quick": {"nontrivial": 100000, "targeted_nonminimal": 5000, "arbitrary_decodes": 20000}},
                show=("histories", "nontrivial", "trivial", "targeted_", "arbitrary_"),
                rule="harvested library-produced blobs of 30 kinds (value round trip, exact consumption, exact encoded_len), hostile byte strings "
                     "(random, mutated-valid, truncated, oversized / non-minimal length prefixes, out-of-range discriminants) through "
                     "codec_probe under catch_unwind, a counting global allocator and a wall-clock bound, and arbitrary-generated values "
                     "(encoded_len == bytes written; what decodes re-encodes to the consumed prefix); distinct = (kind, class, outcome) "
                     "cells; non-trivial = decode succeeded or the input was a mutated-valid / targeted one"),
    "C15": dict(shards=(16, 48), level="fault_enumeration",
                floors={"quick": {"retry_ok": 3000, "op:process_commit": 300, "op:write_to_storage": 100,
                                  "op:apply_pending_commit": 50, "op:commit": 50, "op:join_group": 20,
                                  "op:load_group": 30, "fault_point:group.write": 100, "fault_point:kp.delete": 30,
                                  "fault_point:psk.get": 100, "fault_point:group.max_epoch_id": 50}},
                show=("histories", "op:", "fault_point:", "retry_ok", "fault_pairs", "backend"),
                rule="within each operation of a seeded history (propose, process proposal, late application message, commit build, "
                     "apply pending commit, process commit, join, write_to_storage, load_group, key package generation) the storage calls of a "
                     "fault-free twin run are counted and EVERY call position is failed once (thorough: also pairs first-fault/retry-fault); "
                     "one evaluation = one fault point (operation must Err, member and the three stores unchanged, retry Ok, final member and "
                     "stored history equal to the twin's); distinct = distinct (operation, storage call, position, second position, backend, retention); the "
                     "enumeration inside an operation is complete, histories are sampled"),
    "C16": dict(shards=(16, 32), level="exploration",
                floors={"quick": {"observer_agreement_checked": 800, "window_checked": 6000, "observer_restored": 60,
                                  "external_proposal_accepted_by_member": 400, "observer_fed:commit": 500, "observer_fed:proposal": 800,
                                  "negative:commit_bad_signature": 300, "negative:insider_rule_remove_of_blank_leaf": 20,
                                  "observer_started:jitter_epoch+1": 8, "observer_started:jitter_huge": 8}},
                show=("histories", "commit_accepted", "observer_", "window", "external_proposal", "negative"),
                rule="seeded histories with public handshake messages; observers start at random epochs from a GroupInfo (+tree) with each "
                     "max_epoch_jitter class (none, 0, 1, epoch-1, epoch, epoch+1, 2^40), receive every proposal and commit, are restored from "
                     "serialized snapshots at random points, issue external-sender proposals of five kinds; one evaluation = one observer "
                     "comparison with the members after a commit, one ciphertext window decision, one refused invalid message or one "
                     "external proposal; distinct = distinct (check, jitter class, epoch distance / mutation class) cells"),
    "C17": dict(shards=(16, 32), level="exploration",
                floors={"quick": {"reinit_variant:equal": 15, "reinit_variant:strict_subset": 5, "reinit_variant:superset": 5,
                                  "reinit_variant:replaced_identity": 5, "branch_variant:subset": 10, "branch_variant:with_stranger": 3,
                                  "successor_joined": 40, "branch_joined": 40, "old_group_refuses_to_commit": 200,
                                  "old_group_refuses_commit_after_reinit": 150, "plain_join_refused": 100, "old_shape:interior_blank_leaf": 15}},
                show=("cases", "reinit_variant", "branch_variant", "successor", "branch_joined", "old_group", "plain_join", "negative", "old_shape", "wrong_member"),
                rule="old-group histories of random shape, then a re-init (new group id, optionally new suite with new signers and new "
                     "extensions) or a branch with a member set chosen by the harness (equal, strict subset, superset, replaced identity, "
                     "permuted order); the verdict is computed from the identity sets; old-group freeze checked on every member (own build and "
                     "a commit forged by an insider ignoring the freeze); mismatched joins (plain Client::join_group, Welcome of epoch 2, "
                     "resumption secret of another epoch); distinct = distinct (flow, variant, key change, successor size, suite) cells"),
    "C18": dict(shards=(16, 32), level="exploration",
                floors={"quick": {"receiver_expected_to_accept": 1600, "receiver_expected_to_reject": 700, "holder_accepted_and_agrees": 1600,
                                  "rejector_follows_alternative_commit": 700, "joiner_expected_to_join": 30, "joiner_expected_to_fail": 100,
                                  "trial:External": 100, "trial:CommitterLacks": 100, "pure_secret_pairs_compared": 12000,
                                  "psk_commit_with_path": 250, "psk_commit_without_path": 200, "receiver_holds:stored_past_epoch": 100,
                                  "receiver_holds:unwritten_past_epoch": 100, "refused:resumption_epoch_trimmed:OldGroupStateNotFound": 50,
                                  "refused:resumption_epoch_before_join:OldGroupStateNotFound": 100}},
                show=("histories", "trial:", "receiver_", "holder_", "rejector_", "joiner_expected", "psk_commit", "psk_list_len", "refused:",
                      "committer_lacks", "member_", "late_joiner", "pure_secret", "pure_variant", "receiver_holds"),
                rule="one evaluation = one receiver / joiner / committer decision in a PSK trial, or one pure PSK-list variant; distinct = "
                     "distinct (kind, expected verdict, reason, list length, number of PSKs not held) classes and (provider, suite, variant, "
                     "list length) classes; trials run on clones of every member at every epoch of histories in which members write, reload "
                     "and join at different epochs"),
    "C19": dict(shards=(16, 32), level="exploration",
                floors={"quick": {"late_expected_ok": 800, "late_expected_err": 300, "late_sender_leaf_vacated_or_rekeyed": 40,
                                  "storage_contents_checked": 800, "late_refused_with:EpochNotFound": 150,
                                  "late_refused_with:MemberNotFound": 40, "write_pattern:0": 100, "write_pattern:1": 50, "write_pattern:3": 50}},
                show=("histories", "commit_accepted", "late_", "storage_contents", "write_pattern", "config", "reloaded"),
                rule="histories over retention 1,2,3,5 x both providers (and both at once) x write patterns {every epoch, every third, never, "
                     "bursts} with removals, leaf reuse and identity changes; application messages aged 0..R+3 epochs are delivered late and "
                     "compared with a retention model (pending/stored per member) and the sender-key-at-leaf rule; storage contents compared "
                     "with the model after every write; one evaluation = one late delivery or one storage comparison; distinct = distinct "
                     "(age, retained, sender key unchanged, was member, R) cells"),
    "C20": dict(shards=(4, 16), level="exploration", exhaustive=True,
                floors={"quick": {"sizes_exhaustive": 13, "sizes_sampled": 12, "outside_nodes": 26},
                        "thorough": {"sizes_exhaustive": 21, "sizes_sampled": 4}},
                show=("sizes_", "inside_nodes", "outside_nodes", "lca_pairs"),
                rule="every power-of-two leaf count 2^0..2^12 (thorough: 2^20) and every node index in [0, 2n] (in the tree and the first indices outside) "
                     "is compared with a reference that halves intervals (root, left, right, parent, sibling, direct path, copath, subtree "
                     "leaf range, BFS order, is_in_tree); LCA level for all leaf pairs up to 2^9 (thorough 2^12) and sampled pairs above; "
                     "the larger sizes up to 2^24 sampled around every level boundary; LeafIndex bound; distinct = distinct (n, x) pairs; exhaustive "
                     "for the sizes named in the property"),
}

TIMEOUT = {"quick": 900, "thorough": 3 * 3600}


def say(*a):
    print(*a, flush=True)


def build():
    """(Re)build the harness from /repo's current working tree. Returns (ok, log)."""
    lock_src = "/repo/Cargo.lock"
    lock_dst = os.path.join(HARNESS, "Cargo.lock")
    if not os.path.exists(lock_dst):
        shutil.copy(lock_src, lock_dst)
    p = subprocess.run(["cargo", "build", "--release", "--offline"], cwd=HARNESS, env=ENV,
                       stdout=subprocess.PIPE, stderr=subprocess.STDOUT, text=True)
    return p.returncode == 0 and os.path.exists(BIN), p.stdout


def run_shard(prop, tier, seed, shard, nshards, extra=()):
    os.makedirs(WORK, exist_ok=True)
    out = os.path.join(WORK, f"{prop}.{tier}.{seed}.{shard}.json")
    if os.path.exists(out):
        os.remove(out)
    cmd = [BIN, prop, "--tier", tier, "--seed", str(seed), "--shard", str(shard),
           "--nshards", str(nshards), "--out", out, *extra]
    t0 = time.time()
    try:
        p = subprocess.run(cmd, cwd=HARNESS, env=ENV, stdout=subprocess.PIPE, stderr=subprocess.PIPE,
                           text=True, timeout=TIMEOUT[tier])
    except subprocess.TimeoutExpired:
        return dict(shard=shard, status="timeout", wall=time.time() - t0)
    if p.returncode != 0 or not os.path.exists(out):
        return dict(shard=shard, status="crash", rc=p.returncode, stderr=p.stderr[-2000:], wall=time.time() - t0)
    with open(out) as f:
        d = json.load(f)
    os.remove(out)
    d["shard"] = shard
    d["status"] = "ok"
    d["wall"] = time.time() - t0
    return d


def load_known():
    p = os.path.join(ROOT, "known_findings.json")
    if not os.path.exists(p):
        return []
    with open(p) as f:
        return json.load(f).get("known", [])


def matches_known(prop, sig, known):
    for k in known:
        if k.get("property") == prop and k.get("signature") == sig:
            return k
    return None


def write_evidence(prop, tier, seed, level, coverage, wall, violations, extra=None):
    os.makedirs(EVID, exist_ok=True)
    ev = dict(property_id=prop, tier=tier, seed=seed, level=level, coverage=coverage, wall_s=round(wall, 2),
              violations=len(violations), violation_details=violations)
    if extra:
        ev.update(extra)
    tmp = os.path.join(EVID, f".{prop}.json.tmp")
    with open(tmp, "w") as f:
        json.dump(ev, f, indent=1, sort_keys=True)
    os.replace(tmp, os.path.join(EVID, f"{prop}.json"))


def merge(outs):
    counters, distinct, samples, viol, inconcl, extra = {}, set(), [], [], [], {}
    evaluations = 0
    for d in outs:
        if d.get("status") != "ok":
            continue
        evaluations += d.get("evaluations", 0)
        distinct.update(d.get("distinct", []))
        for k, v in d.get("counters", {}).items():
            counters[k] = counters.get(k, 0) + v
        for s in d.get("samples", []):
            if len(samples) < 4:
                samples.append(s)
        for v in d.get("violations", []):
            v = dict(v)
            v["shard"] = d["shard"]
            viol.append(v)
        inconcl.extend(f"shard {d['shard']}: {x}" for x in d.get("inconclusive", []))
        for k, v in d.get("extra", {}).items():
            extra.setdefault(k, []).append(v)
    return evaluations, distinct, counters, samples, viol, inconcl, extra


def check(prop, tier, seed, replay=None):
    spec = SPECS[prop]
    t0 = time.time()
    ok, log = build()
    if not ok:
        say(log[-3000:])
        say(f"INCONCLUSIVE property={prop} reason=harness build failed")
        return 2
    nsh = spec["shards"][0 if tier == "quick" else 1]
    shard_list = list(range(nsh))
    extra_args = []
    if replay:
        with open(replay) as f:
            r = json.load(f)
        tier, seed, shard_list = r["tier"], r["seed"], [r["shard"]]
        nsh = r.get("nshards", nsh)
        say(f"replaying {prop} tier={tier} seed={seed} shard={shard_list[0]} expecting signature {r.get('sig')}")
    workers = min(len(shard_list), spec.get("workers", os.cpu_count() or 4))
    with cf.ThreadPoolExecutor(max_workers=workers) as ex:
        outs = list(ex.map(lambda s: run_shard(prop, tier, seed, s, nsh, extra_args), shard_list))
    # a shard process that died or ran into the watchdog is run once more, alone, before the
    # verdict is called inconclusive (a killed process is not a statement about the library)
    retried = 0
    for k, d in enumerate(outs):
        if d.get("status") != "ok":
            retried += 1
            say(f"   shard {d.get('shard')} {d.get('status')} rc={d.get('rc')}: running it again alone")
            outs[k] = run_shard(prop, tier, seed, d.get("shard"), nsh, extra_args)
    bad = [d for d in outs if d.get("status") != "ok"]
    evaluations, distinct, counters, samples, viol, inconcl, extra = merge(outs)
    if retried:
        counters["shards_rerun_alone"] = retried
    ctx = dict(prop=prop, tier=tier, seed=seed, counters=counters, say=say)
    # offline checker over the event logs the shards wrote
    post = spec.get("post")
    if post:
        mod = __import__(post)
        pv, pcount, pdistinct, psamples, pinc = mod.run(outs, extra, ctx)
        viol.extend(pv)
        evaluations += pcount
        distinct.update(pdistinct)
        inconcl.extend(pinc)
        for s in psamples:
            if len(samples) < 6:
                samples.append(s)
    if spec.get("valgrind") and not replay:
        vout = os.path.join(WORK, f"{prop}.memcheck.json")
        vlog = os.path.join(WORK, f"{prop}.memcheck.log")
        cmd = ["valgrind", "--error-exitcode=9", "--tool=memcheck", "--log-file=" + vlog, BIN, prop, "--tier", "quick",
               "--seed", str(seed), "--shard", "0", "--nshards", "1", "--out", vout, "--memcheck"]
        try:
            vp = subprocess.run(cmd, cwd=HARNESS, env=ENV, stdout=subprocess.PIPE, stderr=subprocess.PIPE, text=True, timeout=900)
            log = open(vlog).read() if os.path.exists(vlog) else ""
            if vp.returncode == 9:
                viol.append(dict(prop=prop, sig=f"{prop}|memcheck|invalid_memory_access_in_provider_ffi", detail=log[-3000:], shard=0))
            elif vp.returncode != 0:
                inconcl.append(f"valgrind run failed rc={vp.returncode}: {vp.stderr[-300:]}")
            else:
                counters["memcheck_clean_runs"] = 1
                summary = [l for l in log.splitlines() if "ERROR SUMMARY" in l]
                counters["memcheck_error_summary_zero"] = int(bool(summary and " 0 errors" in summary[-1]))
                if os.path.exists(vout):
                    with open(vout) as f:
                        vd = json.load(f)
                    counters["memcheck_provider_calls"] = vd.get("counters", {}).get("provider_calls", 0)
                    evaluations += vd.get("evaluations", 0)
        except subprocess.TimeoutExpired:
            inconcl.append("valgrind run timed out")
        except FileNotFoundError:
            inconcl.append("valgrind not found")
    known = load_known()
    new_viol, known_seen = [], {}
    for v in viol:
        k = matches_known(prop, v["sig"], known)
        if k:
            known_seen.setdefault(v["sig"], k)
        else:
            new_viol.append(v)
    for sig, k in known_seen.items():
        say(f"KNOWN-FINDING: property={prop} {k.get('what', sig)} [signature {sig}]")
    # distinct signatures -> replay files
    seen = set()
    lines = []
    for v in new_viol:
        if v["sig"] in seen:
            continue
        seen.add(v["sig"])
        os.makedirs(os.path.join(REPLAYS, prop), exist_ok=True)
        h = hashlib.sha256(v["sig"].encode()).hexdigest()[:12]
        path = os.path.join(REPLAYS, prop, f"{h}.json")
        with open(path, "w") as f:
            json.dump(dict(prop=prop, tier=tier, seed=seed, shard=v.get("shard", 0), nshards=nsh, sig=v["sig"],
                           detail=v["detail"]), f, indent=1)
        lines.append((v, path))
    floors = spec.get("floors", {}).get(tier, {})
    missed = {k: (counters.get(k, 0), m) for k, m in floors.items() if counters.get(k, 0) < m}
    coverage = dict(evaluations=int(evaluations), distinct_nontrivial=len(distinct), rule=spec["rule"],
                    samples=samples or [{"note": "no sample recorded"}], counters=counters,
                    shards=len(shard_list), shards_failed=len(bad), exhaustive=bool(spec.get("exhaustive", False)),
                    floors=floors, floors_missed={k: list(v) for k, v in missed.items()})
    for k, v in spec.get("coverage_extra", {}).items():
        coverage[k] = v
    wall = time.time() - t0
    verdict = "held"
    if lines:
        verdict = "violated"
    elif bad or missed or inconcl:
        verdict = "inconclusive"
    write_evidence(prop, tier, seed, spec["level"], coverage, wall,
                   [dict(sig=v["sig"], detail=v["detail"][:4000], replay=p) for v, p in lines],
                   extra=dict(verdict=verdict, known_findings_seen=sorted(known_seen),
                              inconclusive=inconcl[:20],
                              assumptions=spec.get("assumptions", [])))
    say(f"{prop} {tier} seed={seed}: evaluations={evaluations} distinct={len(distinct)} shards={len(shard_list)} "
        f"failed_shards={len(bad)} wall={wall:.1f}s verdict={verdict}")
    for k in sorted(counters):
        if any(k.startswith(p) for p in spec.get("show", ("commit_accepted", "histories"))):
            say(f"   {k} = {counters[k]}")
    if lines:
        for v, path in lines:
            say(f"VIOLATION property={prop} replay={path}")
            say(f"   signature: {v['sig']}")
            say(f"   detail: {v['detail'][:1200]}")
        return 1
    if bad:
        for d in bad[:3]:
            say(f"INCONCLUSIVE property={prop} reason=shard {d['shard']} {d['status']} rc={d.get('rc')} {d.get('stderr', '')[-600:]}")
        return 2
    if inconcl:
        for x in inconcl[:5]:
            say(f"INCONCLUSIVE property={prop} reason={x[:600]}")
        return 2
    if missed:
        say(f"INCONCLUSIVE property={prop} reason=coverage floor missed {missed}")
        return 2
    return 0


def main():
    a = sys.argv[1:]
    if not a:
        say(__doc__)
        return 2
    if a[0] == "--setup":
        ok, log = build()
        if not ok:
            say(log[-4000:])
            return 1
        say("setup ok")
        return 0
    prop = a[0]
    tier = os.environ.get("VERIF_TIER", "quick")
    replay = None
    i = 1
    while i < len(a):
        if a[i] == "--tier":
            tier = a[i + 1]
            i += 1
        elif a[i] == "--replay":
            replay = a[i + 1]
            i += 1
        i += 1
    seed = int(os.environ.get("VERIF_SEED", "1"))
    if prop not in SPECS:
        say(f"unknown property {prop}")
        return 2
    return check(prop, tier, seed, replay)


if __name__ == "__main__":
    sys.exit(main())
