#!/usr/bin/env python3
"""TLS presentation-language codec for the RFC 9420 (MLS) wire structs.

Independent reference decoder/encoder used by the offline checkers.  Written
from the struct definitions of RFC 9420; shares no code with mls-rs-codec.

Conventions
-----------
* Every parsed struct is a plain dict.  'start' / 'end' are byte offsets of
  the struct inside the buffer handed to the top-level parser, so callers can
  compare byte ranges (buf[d['start']:d['end']]).
* Opaque fields are `bytes`; integers are `int`; vectors are `list`;
  optional<T> is `None` or the value.
* Top-level parsers are `parse_<name>(data, offset=0) -> (dict, consumed)`.
  They do not complain about trailing bytes; use `parse_exact` for that.
* Encoders are `encode_<name>(dict) -> bytes` and only look at the semantic
  fields (never at 'start'/'end'), so parse -> encode is a real round trip.
* Only the Python standard library is used.
"""

import struct

# ---------------------------------------------------------------------------
# constants (RFC 9420 section 17 registries and enum definitions)
# ---------------------------------------------------------------------------

MLS10 = 1

WIRE_PUBLIC_MESSAGE = 1
WIRE_PRIVATE_MESSAGE = 2
WIRE_WELCOME = 3
WIRE_GROUP_INFO = 4
WIRE_KEY_PACKAGE = 5
WIRE_FORMAT_NAMES = {1: "public_message", 2: "private_message", 3: "welcome",
                     4: "group_info", 5: "key_package"}

CONTENT_APPLICATION = 1
CONTENT_PROPOSAL = 2
CONTENT_COMMIT = 3
CONTENT_TYPE_NAMES = {1: "application", 2: "proposal", 3: "commit"}

SENDER_MEMBER = 1
SENDER_EXTERNAL = 2
SENDER_NEW_MEMBER_PROPOSAL = 3
SENDER_NEW_MEMBER_COMMIT = 4
SENDER_TYPE_NAMES = {1: "member", 2: "external", 3: "new_member_proposal",
                     4: "new_member_commit"}

PROPOSAL_ADD = 1
PROPOSAL_UPDATE = 2
PROPOSAL_REMOVE = 3
PROPOSAL_PSK = 4
PROPOSAL_REINIT = 5
PROPOSAL_EXTERNAL_INIT = 6
PROPOSAL_GROUP_CONTEXT_EXTENSIONS = 7
PROPOSAL_TYPE_NAMES = {1: "add", 2: "update", 3: "remove", 4: "psk",
                       5: "reinit", 6: "external_init",
                       7: "group_context_extensions"}

PROPOSAL_OR_REF_PROPOSAL = 1
PROPOSAL_OR_REF_REFERENCE = 2

CREDENTIAL_BASIC = 1
CREDENTIAL_X509 = 2

LEAF_SOURCE_KEY_PACKAGE = 1
LEAF_SOURCE_UPDATE = 2
LEAF_SOURCE_COMMIT = 3
LEAF_SOURCE_NAMES = {1: "key_package", 2: "update", 3: "commit"}

NODE_LEAF = 1
NODE_PARENT = 2

PSK_EXTERNAL = 1
PSK_RESUMPTION = 2

RESUMPTION_APPLICATION = 1
RESUMPTION_REINIT = 2
RESUMPTION_BRANCH = 3

EXT_APPLICATION_ID = 1
EXT_RATCHET_TREE = 2
EXT_REQUIRED_CAPABILITIES = 3
EXT_EXTERNAL_PUB = 4
EXT_EXTERNAL_SENDERS = 5

VARINT_MAX = (1 << 30) - 1


class ParseError(Exception):
    """Raised for any malformed TLS-presentation input (RFC 9420 section 2.1)."""


def is_grease(value):
    """True for the fifteen GREASE values 0x0A0A, 0x1A1A, ... 0xEAEA (RFC 9420 section 13.5)."""
    return (value & 0x0F0F) == 0x0A0A and (value >> 8) == (value & 0xFF) and value != 0xFAFA


# ---------------------------------------------------------------------------
# primitive writers
# ---------------------------------------------------------------------------

def enc_u8(n):
    """uint8 (RFC 8446 section 3.3 presentation language)."""
    return struct.pack(">B", n)


def enc_u16(n):
    """uint16, network byte order."""
    return struct.pack(">H", n)


def enc_u32(n):
    """uint32, network byte order."""
    return struct.pack(">I", n)


def enc_u64(n):
    """uint64, network byte order."""
    return struct.pack(">Q", n)


def write_varint(n):
    """Variable-length integer, minimal encoding (RFC 9420 section 2.1.2)."""
    if n < 0 or n > VARINT_MAX:
        raise ValueError("varint out of range: %r" % (n,))
    if n < (1 << 6):
        return struct.pack(">B", n)
    if n < (1 << 14):
        return struct.pack(">H", n | 0x4000)
    return struct.pack(">I", n | 0x80000000)


def enc_opaque(data):
    """opaque value<V>: varint byte length then the bytes (RFC 9420 section 2.1.2)."""
    data = bytes(data)
    return write_varint(len(data)) + data


def enc_vector(encoded_items):
    """T items<V>: varint *byte* length then the concatenated items (RFC 9420 section 2.1.2)."""
    body = b"".join(encoded_items)
    return write_varint(len(body)) + body


def enc_optional(encoded_or_none):
    """optional<T>: uint8 0, or uint8 1 followed by T (RFC 9420 section 2.1.1)."""
    if encoded_or_none is None:
        return b"\x00"
    return b"\x01" + encoded_or_none


# ---------------------------------------------------------------------------
# reader
# ---------------------------------------------------------------------------

def read_varint(data, pos=0, end=None):
    """Read a minimal varint at data[pos:]; return (value, new_pos) (RFC 9420 section 2.1.2)."""
    r = Reader(data, pos, end)
    v = r.varint()
    return v, r.pos


class Reader:
    """Cursor over bytes with strict TLS-presentation reads (RFC 9420 section 2.1)."""

    def __init__(self, data, pos=0, end=None):
        """Read data[pos:end]; offsets reported are absolute in `data`."""
        self.data = bytes(data) if not isinstance(data, bytes) else data
        self.pos = pos
        self.end = len(self.data) if end is None else end
        if not (0 <= self.pos <= self.end <= len(self.data)):
            raise ParseError("reader window out of range")

    def remaining(self):
        """Number of unread bytes in the window."""
        return self.end - self.pos

    def eof(self):
        """True when the window is exhausted."""
        return self.pos >= self.end

    def take(self, n):
        """Read exactly n raw bytes."""
        if n < 0 or n > self.remaining():
            raise ParseError("need %d bytes at offset %d, only %d left"
                             % (n, self.pos, self.remaining()))
        out = self.data[self.pos:self.pos + n]
        self.pos += n
        return out

    def u8(self):
        """uint8."""
        return self.take(1)[0]

    def u16(self):
        """uint16."""
        return struct.unpack(">H", self.take(2))[0]

    def u32(self):
        """uint32."""
        return struct.unpack(">I", self.take(4))[0]

    def u64(self):
        """uint64."""
        return struct.unpack(">Q", self.take(8))[0]

    def varint(self):
        """Variable-length integer; rejects prefix 0b11 and non-minimal forms (RFC 9420 section 2.1.2)."""
        at = self.pos
        first = self.u8()
        prefix = first >> 6
        if prefix == 3:
            raise ParseError("invalid varint prefix 0b11 at offset %d" % at)
        length = 1 << prefix
        value = first & 0x3F
        for _ in range(length - 1):
            value = (value << 8) | self.u8()
        if length == 2 and value < (1 << 6):
            raise ParseError("non-minimal 2-byte varint %d at offset %d" % (value, at))
        if length == 4 and value < (1 << 14):
            raise ParseError("non-minimal 4-byte varint %d at offset %d" % (value, at))
        return value

    def opaque(self):
        """opaque<V>: varint length then bytes; length must fit the input."""
        at = self.pos
        n = self.varint()
        if n > self.remaining():
            raise ParseError("opaque<V> length %d at offset %d exceeds input (%d left)"
                             % (n, at, self.remaining()))
        return self.take(n)

    def sub(self):
        """Read a varint byte length and return a Reader restricted to that many bytes."""
        at = self.pos
        n = self.varint()
        if n > self.remaining():
            raise ParseError("vector<V> length %d at offset %d exceeds input (%d left)"
                             % (n, at, self.remaining()))
        child = Reader(self.data, self.pos, self.pos + n)
        self.pos += n
        return child

    def vector(self, parse_item):
        """T items<V>: parse items with parse_item(reader) until the byte length is used up."""
        child = self.sub()
        items = []
        while not child.eof():
            before = child.pos
            items.append(parse_item(child))
            if child.pos == before:
                raise ParseError("zero-length vector element at offset %d" % before)
        return items

    def optional(self, parse_item):
        """optional<T>: presence octet must be exactly 0 or 1 (RFC 9420 section 2.1.1)."""
        at = self.pos
        flag = self.u8()
        if flag == 0:
            return None
        if flag == 1:
            return parse_item(self)
        raise ParseError("optional<T> presence octet %d at offset %d" % (flag, at))

    def enum_u8(self, allowed, what):
        """uint8 enum restricted to `allowed` values."""
        at = self.pos
        v = self.u8()
        if v not in allowed:
            raise ParseError("bad %s discriminant %d at offset %d" % (what, v, at))
        return v

    def enum_u16(self, allowed, what):
        """uint16 enum restricted to `allowed` values."""
        at = self.pos
        v = self.u16()
        if v not in allowed:
            raise ParseError("bad %s discriminant %d at offset %d" % (what, v, at))
        return v


def _struct(r, fill):
    """Run fill(reader, dict) and stamp the dict with start/end offsets."""
    d = {"start": r.pos}
    fill(r, d)
    d["end"] = r.pos
    return d


def _top(parse_fn, data, offset, *args):
    """Run an internal parser at data[offset:] and return (value, bytes_consumed)."""
    r = Reader(data, offset)
    value = parse_fn(r, *args)
    return value, r.pos - offset


def parse_exact(parser, data, *args):
    """Run a top-level parser and insist that it consumes all of `data`."""
    value, used = parser(data, 0, *args)
    if used != len(data):
        raise ParseError("%d trailing bytes after %s" % (len(data) - used, parser.__name__))
    return value


def raw(data, d):
    """Bytes of a parsed struct: data[d['start']:d['end']]."""
    return data[d["start"]:d["end"]]


# ---------------------------------------------------------------------------
# Credential (RFC 9420 section 5.3)
# ---------------------------------------------------------------------------

def read_credential(r):
    """Credential: u16 type; basic -> opaque identity<V>; x509 -> Certificate certificates<V>."""
    def fill(r, d):
        d["credential_type"] = r.u16()
        if d["credential_type"] == CREDENTIAL_BASIC:
            d["identity"] = r.opaque()
        elif d["credential_type"] == CREDENTIAL_X509:
            d["certificates"] = r.vector(lambda rr: rr.opaque())
        else:
            # mls-rs: any other credential type carries one opaque<V> blob.
            d["data"] = r.opaque()
    return _struct(r, fill)


def encode_credential(d):
    """Encode Credential (RFC 9420 section 5.3)."""
    t = d["credential_type"]
    if t == CREDENTIAL_BASIC:
        return enc_u16(t) + enc_opaque(d["identity"])
    if t == CREDENTIAL_X509:
        return enc_u16(t) + enc_vector([enc_opaque(c) for c in d["certificates"]])
    return enc_u16(t) + enc_opaque(d["data"])


def parse_credential(data, offset=0):
    """Top-level Credential parser (RFC 9420 section 5.3)."""
    return _top(read_credential, data, offset)


# ---------------------------------------------------------------------------
# Capabilities, Lifetime, Extension (RFC 9420 sections 7.2, 13)
# ---------------------------------------------------------------------------

def read_capabilities(r):
    """Capabilities: five <V> vectors of u16 registry values (RFC 9420 section 7.2)."""
    def fill(r, d):
        for name in ("versions", "cipher_suites", "extensions", "proposals", "credentials"):
            d[name] = r.vector(lambda rr: rr.u16())
    return _struct(r, fill)


def encode_capabilities(d):
    """Encode Capabilities (RFC 9420 section 7.2)."""
    out = b""
    for name in ("versions", "cipher_suites", "extensions", "proposals", "credentials"):
        out += enc_vector([enc_u16(v) for v in d[name]])
    return out


def parse_capabilities(data, offset=0):
    """Top-level Capabilities parser (RFC 9420 section 7.2)."""
    return _top(read_capabilities, data, offset)


def read_lifetime(r):
    """Lifetime: uint64 not_before, uint64 not_after (RFC 9420 section 7.2)."""
    def fill(r, d):
        d["not_before"] = r.u64()
        d["not_after"] = r.u64()
    return _struct(r, fill)


def encode_lifetime(d):
    """Encode Lifetime (RFC 9420 section 7.2)."""
    return enc_u64(d["not_before"]) + enc_u64(d["not_after"])


def parse_lifetime(data, offset=0):
    """Top-level Lifetime parser (RFC 9420 section 7.2)."""
    return _top(read_lifetime, data, offset)


def read_extension(r):
    """Extension: u16 extension_type, opaque extension_data<V> (RFC 9420 section 7.2)."""
    def fill(r, d):
        d["extension_type"] = r.u16()
        d["extension_data"] = r.opaque()
    return _struct(r, fill)


def read_extensions(r, allow_duplicates=False):
    """Extension extensions<V>; duplicate types rejected unless allowed (RFC 9420 sections 7.2, 12.1.7)."""
    at = r.pos
    exts = r.vector(read_extension)
    if not allow_duplicates:
        seen = set()
        for e in exts:
            if e["extension_type"] in seen:
                raise ParseError("duplicate extension type %d in list at offset %d"
                                 % (e["extension_type"], at))
            seen.add(e["extension_type"])
    return exts


def encode_extensions(exts):
    """Encode Extension extensions<V> (RFC 9420 section 7.2)."""
    return enc_vector([enc_u16(e["extension_type"]) + enc_opaque(e["extension_data"])
                       for e in exts])


def parse_extensions(data, offset=0, allow_duplicates=False):
    """Top-level extension-list parser (RFC 9420 section 7.2)."""
    return _top(read_extensions, data, offset, allow_duplicates)


def find_extension(exts, extension_type):
    """Return extension_data of the first extension with this type, or None."""
    for e in exts:
        if e["extension_type"] == extension_type:
            return e["extension_data"]
    return None


# ---------------------------------------------------------------------------
# LeafNode, KeyPackage, ParentNode, Node, ratchet tree (RFC 9420 sections 7.1, 7.2, 10, 12.4.3.3)
# ---------------------------------------------------------------------------

def read_leaf_node(r):
    """LeafNode (RFC 9420 section 7.2)."""
    def fill(r, d):
        d["encryption_key"] = r.opaque()
        d["signature_key"] = r.opaque()
        d["credential"] = read_credential(r)
        d["capabilities"] = read_capabilities(r)
        src = r.enum_u8(LEAF_SOURCE_NAMES, "leaf_node_source")
        d["leaf_node_source"] = src
        if src == LEAF_SOURCE_KEY_PACKAGE:
            d["lifetime"] = read_lifetime(r)
        elif src == LEAF_SOURCE_COMMIT:
            d["parent_hash"] = r.opaque()
        d["extensions"] = read_extensions(r)
        d["signature"] = r.opaque()
    return _struct(r, fill)


def encode_leaf_node(d, with_signature=True):
    """Encode LeafNode; with_signature=False gives the LeafNodeTBS prefix (RFC 9420 section 7.2)."""
    out = enc_opaque(d["encryption_key"]) + enc_opaque(d["signature_key"])
    out += encode_credential(d["credential"]) + encode_capabilities(d["capabilities"])
    out += enc_u8(d["leaf_node_source"])
    if d["leaf_node_source"] == LEAF_SOURCE_KEY_PACKAGE:
        out += encode_lifetime(d["lifetime"])
    elif d["leaf_node_source"] == LEAF_SOURCE_COMMIT:
        out += enc_opaque(d["parent_hash"])
    out += encode_extensions(d["extensions"])
    if with_signature:
        out += enc_opaque(d["signature"])
    return out


def encode_leaf_node_tbs(d, group_id=None, leaf_index=None):
    """LeafNodeTBS: LeafNode minus signature, plus group_id<V> and u32 leaf_index for update/commit (RFC 9420 section 7.2)."""
    out = encode_leaf_node(d, with_signature=False)
    if d["leaf_node_source"] in (LEAF_SOURCE_UPDATE, LEAF_SOURCE_COMMIT):
        out += enc_opaque(group_id) + enc_u32(leaf_index)
    return out


def parse_leaf_node(data, offset=0):
    """Top-level LeafNode parser (RFC 9420 section 7.2)."""
    return _top(read_leaf_node, data, offset)


def read_key_package(r):
    """KeyPackage (RFC 9420 section 10)."""
    def fill(r, d):
        d["version"] = r.u16()
        d["cipher_suite"] = r.u16()
        d["init_key"] = r.opaque()
        d["leaf_node"] = read_leaf_node(r)
        d["extensions"] = read_extensions(r)
        d["signature"] = r.opaque()
    return _struct(r, fill)


def encode_key_package(d, with_signature=True):
    """Encode KeyPackage; with_signature=False gives KeyPackageTBS (RFC 9420 section 10)."""
    out = enc_u16(d["version"]) + enc_u16(d["cipher_suite"]) + enc_opaque(d["init_key"])
    out += encode_leaf_node(d["leaf_node"]) + encode_extensions(d["extensions"])
    if with_signature:
        out += enc_opaque(d["signature"])
    return out


def parse_key_package(data, offset=0):
    """Top-level KeyPackage parser (RFC 9420 section 10)."""
    return _top(read_key_package, data, offset)


def read_parent_node(r):
    """ParentNode: encryption_key, parent_hash<V>, uint32 unmerged_leaves<V> (RFC 9420 section 7.1)."""
    def fill(r, d):
        d["encryption_key"] = r.opaque()
        d["parent_hash"] = r.opaque()
        d["unmerged_leaves"] = r.vector(lambda rr: rr.u32())
    return _struct(r, fill)


def encode_parent_node(d):
    """Encode ParentNode (RFC 9420 section 7.1)."""
    return (enc_opaque(d["encryption_key"]) + enc_opaque(d["parent_hash"])
            + enc_vector([enc_u32(x) for x in d["unmerged_leaves"]]))


def parse_parent_node(data, offset=0):
    """Top-level ParentNode parser (RFC 9420 section 7.1)."""
    return _top(read_parent_node, data, offset)


def read_node(r):
    """Node: u8 node_type leaf=1 / parent=2 then the node (RFC 9420 section 12.4.3.3)."""
    def fill(r, d):
        d["node_type"] = r.enum_u8((NODE_LEAF, NODE_PARENT), "node_type")
        if d["node_type"] == NODE_LEAF:
            d["leaf_node"] = read_leaf_node(r)
        else:
            d["parent_node"] = read_parent_node(r)
    return _struct(r, fill)


def encode_node(d):
    """Encode Node (RFC 9420 section 12.4.3.3)."""
    if d["node_type"] == NODE_LEAF:
        return enc_u8(NODE_LEAF) + encode_leaf_node(d["leaf_node"])
    return enc_u8(NODE_PARENT) + encode_parent_node(d["parent_node"])


def parse_node(data, offset=0):
    """Top-level Node parser (RFC 9420 section 12.4.3.3)."""
    return _top(read_node, data, offset)


def read_ratchet_tree(r):
    """optional<Node> ratchet_tree<V>: list with None for blank nodes (RFC 9420 section 12.4.3.3)."""
    return r.vector(lambda rr: rr.optional(read_node))


def encode_ratchet_tree(nodes):
    """Encode optional<Node> ratchet_tree<V> (RFC 9420 section 12.4.3.3)."""
    return enc_vector([enc_optional(None if n is None else encode_node(n)) for n in nodes])


def parse_ratchet_tree(data, offset=0):
    """Top-level ratchet_tree parser; this is also mls-rs ExportedTree::to_bytes() (RFC 9420 section 12.4.3.3)."""
    return _top(read_ratchet_tree, data, offset)


def node_encryption_key(node):
    """HPKE public key of a parsed (non-blank) Node, leaf or parent."""
    if node["node_type"] == NODE_LEAF:
        return node["leaf_node"]["encryption_key"]
    return node["parent_node"]["encryption_key"]


# ---------------------------------------------------------------------------
# GroupContext (RFC 9420 section 8.1)
# ---------------------------------------------------------------------------

def read_group_context(r):
    """GroupContext (RFC 9420 section 8.1)."""
    def fill(r, d):
        d["version"] = r.u16()
        d["cipher_suite"] = r.u16()
        d["group_id"] = r.opaque()
        d["epoch"] = r.u64()
        d["tree_hash"] = r.opaque()
        d["confirmed_transcript_hash"] = r.opaque()
        d["extensions"] = read_extensions(r)
    return _struct(r, fill)


def encode_group_context(d):
    """Encode GroupContext (RFC 9420 section 8.1)."""
    return (enc_u16(d.get("version", MLS10)) + enc_u16(d["cipher_suite"])
            + enc_opaque(d["group_id"]) + enc_u64(d["epoch"])
            + enc_opaque(d["tree_hash"]) + enc_opaque(d["confirmed_transcript_hash"])
            + encode_extensions(d.get("extensions", [])))


def make_group_context(cipher_suite, group_id, epoch, tree_hash,
                       confirmed_transcript_hash, extensions=(), version=MLS10):
    """Build and encode a GroupContext from its fields (RFC 9420 section 8.1)."""
    return encode_group_context({
        "version": version, "cipher_suite": cipher_suite, "group_id": group_id,
        "epoch": epoch, "tree_hash": tree_hash,
        "confirmed_transcript_hash": confirmed_transcript_hash,
        "extensions": list(extensions)})


def parse_group_context(data, offset=0):
    """Top-level GroupContext parser (RFC 9420 section 8.1)."""
    return _top(read_group_context, data, offset)


# ---------------------------------------------------------------------------
# PreSharedKeyID, PSKLabel, KDFLabel (RFC 9420 sections 8.4, 8)
# ---------------------------------------------------------------------------

def read_psk_id(r):
    """PreSharedKeyID: external{psk_id} | resumption{usage,group_id,epoch}; then psk_nonce (RFC 9420 section 8.4)."""
    def fill(r, d):
        d["psktype"] = r.enum_u8((PSK_EXTERNAL, PSK_RESUMPTION), "psktype")
        if d["psktype"] == PSK_EXTERNAL:
            d["psk_id"] = r.opaque()
        else:
            d["usage"] = r.enum_u8((RESUMPTION_APPLICATION, RESUMPTION_REINIT,
                                    RESUMPTION_BRANCH), "resumption psk usage")
            d["psk_group_id"] = r.opaque()
            d["psk_epoch"] = r.u64()
        d["psk_nonce"] = r.opaque()
    return _struct(r, fill)


def encode_psk_id(d):
    """Encode PreSharedKeyID (RFC 9420 section 8.4)."""
    if d["psktype"] == PSK_EXTERNAL:
        body = enc_opaque(d["psk_id"])
    else:
        body = enc_u8(d["usage"]) + enc_opaque(d["psk_group_id"]) + enc_u64(d["psk_epoch"])
    return enc_u8(d["psktype"]) + body + enc_opaque(d["psk_nonce"])


def parse_psk_id(data, offset=0):
    """Top-level PreSharedKeyID parser (RFC 9420 section 8.4)."""
    return _top(read_psk_id, data, offset)


def make_external_psk_id(psk_id, psk_nonce):
    """Dict for an external PreSharedKeyID (RFC 9420 section 8.4)."""
    return {"psktype": PSK_EXTERNAL, "psk_id": psk_id, "psk_nonce": psk_nonce}


def make_resumption_psk_id(usage, psk_group_id, psk_epoch, psk_nonce):
    """Dict for a resumption PreSharedKeyID (RFC 9420 section 8.4)."""
    return {"psktype": PSK_RESUMPTION, "usage": usage, "psk_group_id": psk_group_id,
            "psk_epoch": psk_epoch, "psk_nonce": psk_nonce}


def encode_psk_label(psk_id, index, count):
    """PSKLabel{PreSharedKeyID id; uint16 index; uint16 count} (RFC 9420 section 8.4)."""
    return encode_psk_id(psk_id) + enc_u16(index) + enc_u16(count)


def encode_kdf_label(length, label, context):
    """KDFLabel{uint16 length; opaque label<V> = "MLS 1.0 " + Label; opaque context<V>} (RFC 9420 section 8)."""
    if isinstance(label, str):
        label = label.encode("ascii")
    return enc_u16(length) + enc_opaque(b"MLS 1.0 " + label) + enc_opaque(context)


def encode_ref_hash_input(label, value):
    """RefHashInput{opaque label<V>; opaque value<V>} (RFC 9420 section 5.2)."""
    if isinstance(label, str):
        label = label.encode("ascii")
    return enc_opaque(label) + enc_opaque(value)


# ---------------------------------------------------------------------------
# Proposals, Commit, UpdatePath (RFC 9420 sections 12.1, 12.4, 7.6)
# ---------------------------------------------------------------------------

def read_proposal_body(r, proposal_type, empty_body_types=()):
    """Body of a Proposal of a known type, without the leading u16 (RFC 9420 section 12.1)."""
    def fill(r, d):
        d["proposal_type"] = proposal_type
        if proposal_type == PROPOSAL_ADD:
            d["key_package"] = read_key_package(r)
        elif proposal_type == PROPOSAL_UPDATE:
            d["leaf_node"] = read_leaf_node(r)
        elif proposal_type == PROPOSAL_REMOVE:
            d["removed"] = r.u32()
        elif proposal_type == PROPOSAL_PSK:
            d["psk"] = read_psk_id(r)
        elif proposal_type == PROPOSAL_REINIT:
            d["group_id"] = r.opaque()
            d["version"] = r.u16()
            d["cipher_suite"] = r.u16()
            d["extensions"] = read_extensions(r)
        elif proposal_type == PROPOSAL_EXTERNAL_INIT:
            d["kem_output"] = r.opaque()
        elif proposal_type == PROPOSAL_GROUP_CONTEXT_EXTENSIONS:
            d["extensions"] = read_extensions(r)
        elif proposal_type == 0:
            raise ParseError("reserved proposal type 0 at offset %d" % d["start"])
        elif proposal_type in empty_body_types:
            d["custom"] = True
            d["data"] = b""
        else:
            # mls-rs CustomProposal: u16 type then opaque data<V>.
            d["custom"] = True
            d["data"] = r.opaque()
    return _struct(r, fill)


def read_proposal(r, empty_body_types=()):
    """Proposal: u16 proposal_type then the body; unknown types are mls-rs custom proposals (RFC 9420 section 12.1)."""
    start = r.pos
    proposal_type = r.u16()
    d = read_proposal_body(r, proposal_type, empty_body_types)
    d["start"] = start
    return d


def encode_proposal_body(d, empty_body_types=()):
    """Encode the body of a Proposal without its type (RFC 9420 section 12.1)."""
    t = d["proposal_type"]
    if t == PROPOSAL_ADD:
        return encode_key_package(d["key_package"])
    if t == PROPOSAL_UPDATE:
        return encode_leaf_node(d["leaf_node"])
    if t == PROPOSAL_REMOVE:
        return enc_u32(d["removed"])
    if t == PROPOSAL_PSK:
        return encode_psk_id(d["psk"])
    if t == PROPOSAL_REINIT:
        return (enc_opaque(d["group_id"]) + enc_u16(d["version"]) + enc_u16(d["cipher_suite"])
                + encode_extensions(d["extensions"]))
    if t == PROPOSAL_EXTERNAL_INIT:
        return enc_opaque(d["kem_output"])
    if t == PROPOSAL_GROUP_CONTEXT_EXTENSIONS:
        return encode_extensions(d["extensions"])
    if t in empty_body_types:
        return b""
    return enc_opaque(d["data"])


def encode_proposal(d, empty_body_types=()):
    """Encode Proposal (RFC 9420 section 12.1)."""
    return enc_u16(d["proposal_type"]) + encode_proposal_body(d, empty_body_types)


def parse_proposal(data, offset=0, empty_body_types=()):
    """Top-level Proposal parser (RFC 9420 section 12.1)."""
    return _top(read_proposal, data, offset, empty_body_types)


def parse_proposal_body(data, proposal_type, offset=0):
    """Top-level parser for a bare AddProposal/UpdateProposal/... body (RFC 9420 section 12.1)."""
    return _top(read_proposal_body, data, offset, proposal_type)


def read_proposal_or_ref(r, empty_body_types=()):
    """ProposalOrRef: u8 1 -> Proposal, 2 -> ProposalRef opaque<V> (RFC 9420 section 12.4)."""
    def fill(r, d):
        d["type"] = r.enum_u8((PROPOSAL_OR_REF_PROPOSAL, PROPOSAL_OR_REF_REFERENCE),
                              "ProposalOrRefType")
        if d["type"] == PROPOSAL_OR_REF_PROPOSAL:
            d["proposal"] = read_proposal(r, empty_body_types)
        else:
            d["reference"] = r.opaque()
    return _struct(r, fill)


def encode_proposal_or_ref(d, empty_body_types=()):
    """Encode ProposalOrRef (RFC 9420 section 12.4)."""
    if d["type"] == PROPOSAL_OR_REF_PROPOSAL:
        return enc_u8(1) + encode_proposal(d["proposal"], empty_body_types)
    return enc_u8(2) + enc_opaque(d["reference"])


def parse_proposal_or_ref(data, offset=0, empty_body_types=()):
    """Top-level ProposalOrRef parser (RFC 9420 section 12.4)."""
    return _top(read_proposal_or_ref, data, offset, empty_body_types)


def read_hpke_ciphertext(r):
    """HPKECiphertext{opaque kem_output<V>; opaque ciphertext<V>} (RFC 9420 section 7.6)."""
    def fill(r, d):
        d["kem_output"] = r.opaque()
        d["ciphertext"] = r.opaque()
    return _struct(r, fill)


def encode_hpke_ciphertext(d):
    """Encode HPKECiphertext (RFC 9420 section 7.6)."""
    return enc_opaque(d["kem_output"]) + enc_opaque(d["ciphertext"])


def read_update_path_node(r):
    """UpdatePathNode{encryption_key; HPKECiphertext encrypted_path_secret<V>} (RFC 9420 section 7.6)."""
    def fill(r, d):
        d["encryption_key"] = r.opaque()
        d["encrypted_path_secret"] = r.vector(read_hpke_ciphertext)
    return _struct(r, fill)


def encode_update_path_node(d):
    """Encode UpdatePathNode (RFC 9420 section 7.6)."""
    return (enc_opaque(d["encryption_key"])
            + enc_vector([encode_hpke_ciphertext(c) for c in d["encrypted_path_secret"]]))


def parse_update_path_node(data, offset=0):
    """Top-level UpdatePathNode parser (RFC 9420 section 7.6)."""
    return _top(read_update_path_node, data, offset)


def read_update_path(r):
    """UpdatePath{LeafNode leaf_node; UpdatePathNode nodes<V>} (RFC 9420 section 7.6)."""
    def fill(r, d):
        d["leaf_node"] = read_leaf_node(r)
        d["nodes"] = r.vector(read_update_path_node)
    return _struct(r, fill)


def encode_update_path(d):
    """Encode UpdatePath (RFC 9420 section 7.6)."""
    return (encode_leaf_node(d["leaf_node"])
            + enc_vector([encode_update_path_node(n) for n in d["nodes"]]))


def parse_update_path(data, offset=0):
    """Top-level UpdatePath parser (RFC 9420 section 7.6)."""
    return _top(read_update_path, data, offset)


def read_commit(r, empty_body_types=()):
    """Commit{ProposalOrRef proposals<V>; optional<UpdatePath> path} (RFC 9420 section 12.4)."""
    def fill(r, d):
        d["proposals"] = r.vector(lambda rr: read_proposal_or_ref(rr, empty_body_types))
        d["path"] = r.optional(read_update_path)
    return _struct(r, fill)


def encode_commit(d, empty_body_types=()):
    """Encode Commit (RFC 9420 section 12.4)."""
    return (enc_vector([encode_proposal_or_ref(p, empty_body_types) for p in d["proposals"]])
            + enc_optional(None if d["path"] is None else encode_update_path(d["path"])))


def parse_commit(data, offset=0, empty_body_types=()):
    """Top-level Commit parser (RFC 9420 section 12.4)."""
    return _top(read_commit, data, offset, empty_body_types)


# ---------------------------------------------------------------------------
# Message framing (RFC 9420 section 6)
# ---------------------------------------------------------------------------

def read_sender(r):
    """Sender: u8 type; member -> u32 leaf_index; external -> u32 sender_index (RFC 9420 section 6)."""
    def fill(r, d):
        d["sender_type"] = r.enum_u8(SENDER_TYPE_NAMES, "sender_type")
        if d["sender_type"] == SENDER_MEMBER:
            d["leaf_index"] = r.u32()
        elif d["sender_type"] == SENDER_EXTERNAL:
            d["sender_index"] = r.u32()
    return _struct(r, fill)


def encode_sender(d):
    """Encode Sender (RFC 9420 section 6)."""
    if d["sender_type"] == SENDER_MEMBER:
        return enc_u8(SENDER_MEMBER) + enc_u32(d["leaf_index"])
    if d["sender_type"] == SENDER_EXTERNAL:
        return enc_u8(SENDER_EXTERNAL) + enc_u32(d["sender_index"])
    return enc_u8(d["sender_type"])


def parse_sender(data, offset=0):
    """Top-level Sender parser (RFC 9420 section 6)."""
    return _top(read_sender, data, offset)


def _read_content_body(r, d, content_type, empty_body_types):
    """The select(content_type) arm shared by FramedContent and PrivateMessageContent (RFC 9420 sections 6, 6.3.1)."""
    if content_type == CONTENT_APPLICATION:
        d["application_data"] = r.opaque()
    elif content_type == CONTENT_PROPOSAL:
        d["proposal"] = read_proposal(r, empty_body_types)
    else:
        d["commit"] = read_commit(r, empty_body_types)


def _encode_content_body(d, content_type, empty_body_types):
    """Encode the select(content_type) arm (RFC 9420 section 6)."""
    if content_type == CONTENT_APPLICATION:
        return enc_opaque(d["application_data"])
    if content_type == CONTENT_PROPOSAL:
        return encode_proposal(d["proposal"], empty_body_types)
    return encode_commit(d["commit"], empty_body_types)


def read_framed_content(r, empty_body_types=()):
    """FramedContent (RFC 9420 section 6)."""
    def fill(r, d):
        d["group_id"] = r.opaque()
        d["epoch"] = r.u64()
        d["sender"] = read_sender(r)
        d["authenticated_data"] = r.opaque()
        d["content_type"] = r.enum_u8(CONTENT_TYPE_NAMES, "content_type")
        _read_content_body(r, d, d["content_type"], empty_body_types)
    return _struct(r, fill)


def encode_framed_content(d, empty_body_types=()):
    """Encode FramedContent (RFC 9420 section 6)."""
    return (enc_opaque(d["group_id"]) + enc_u64(d["epoch"]) + encode_sender(d["sender"])
            + enc_opaque(d["authenticated_data"]) + enc_u8(d["content_type"])
            + _encode_content_body(d, d["content_type"], empty_body_types))


def parse_framed_content(data, offset=0, empty_body_types=()):
    """Top-level FramedContent parser (RFC 9420 section 6)."""
    return _top(read_framed_content, data, offset, empty_body_types)


def read_framed_content_auth_data(r, content_type):
    """FramedContentAuthData{signature<V>; commit -> MAC confirmation_tag<V>} (RFC 9420 section 6.1)."""
    def fill(r, d):
        d["signature"] = r.opaque()
        d["confirmation_tag"] = r.opaque() if content_type == CONTENT_COMMIT else None
    return _struct(r, fill)


def encode_framed_content_auth_data(d):
    """Encode FramedContentAuthData (RFC 9420 section 6.1)."""
    out = enc_opaque(d["signature"])
    if d.get("confirmation_tag") is not None:
        out += enc_opaque(d["confirmation_tag"])
    return out


def parse_framed_content_auth_data(data, content_type, offset=0):
    """Top-level FramedContentAuthData parser; needs the content_type (RFC 9420 section 6.1)."""
    return _top(read_framed_content_auth_data, data, offset, content_type)


def read_authenticated_content(r, empty_body_types=()):
    """AuthenticatedContent{u16 wire_format; FramedContent content; FramedContentAuthData auth} (RFC 9420 section 6.1)."""
    def fill(r, d):
        d["wire_format"] = r.enum_u16(WIRE_FORMAT_NAMES, "wire_format")
        d["content"] = read_framed_content(r, empty_body_types)
        d["auth"] = read_framed_content_auth_data(r, d["content"]["content_type"])
    return _struct(r, fill)


def encode_authenticated_content(d, empty_body_types=()):
    """Encode AuthenticatedContent (RFC 9420 section 6.1)."""
    return (enc_u16(d["wire_format"]) + encode_framed_content(d["content"], empty_body_types)
            + encode_framed_content_auth_data(d["auth"]))


def parse_authenticated_content(data, offset=0, empty_body_types=()):
    """Top-level AuthenticatedContent parser (RFC 9420 section 6.1)."""
    return _top(read_authenticated_content, data, offset, empty_body_types)


def encode_framed_content_tbs(wire_format, framed_content_bytes, sender_type,
                              group_context_bytes=None, version=MLS10):
    """FramedContentTBS: version, wire_format, content, and GroupContext for member / new_member_commit senders (RFC 9420 section 6.1)."""
    out = enc_u16(version) + enc_u16(wire_format) + framed_content_bytes
    if sender_type in (SENDER_MEMBER, SENDER_NEW_MEMBER_COMMIT):
        if group_context_bytes is None:
            raise ValueError("GroupContext required for this sender type")
        out += group_context_bytes
    return out


def split_transcript_inputs(authenticated_content_bytes):
    """Split an encoded commit AuthenticatedContent into (ConfirmedTranscriptHashInput, InterimTranscriptHashInput) bytes (RFC 9420 section 8.2)."""
    ac = parse_exact(parse_authenticated_content, authenticated_content_bytes)
    if ac["content"]["content_type"] != CONTENT_COMMIT:
        raise ParseError("transcript hash inputs are only defined for commits")
    auth = ac["auth"]
    # ConfirmedTranscriptHashInput = wire_format, content, signature
    sig_end = auth["start"] + len(enc_opaque(auth["signature"]))
    confirmed_input = authenticated_content_bytes[ac["start"]:sig_end]
    # InterimTranscriptHashInput = MAC confirmation_tag
    interim_input = authenticated_content_bytes[sig_end:ac["end"]]
    if interim_input != enc_opaque(auth["confirmation_tag"]):
        raise ParseError("internal: confirmation_tag slice mismatch")
    return confirmed_input, interim_input


def read_public_message(r, empty_body_types=()):
    """PublicMessage{content; auth; member -> MAC membership_tag} (RFC 9420 section 6.2)."""
    def fill(r, d):
        d["content"] = read_framed_content(r, empty_body_types)
        d["auth"] = read_framed_content_auth_data(r, d["content"]["content_type"])
        if d["content"]["sender"]["sender_type"] == SENDER_MEMBER:
            d["membership_tag"] = r.opaque()
        else:
            d["membership_tag"] = None
    return _struct(r, fill)


def encode_public_message(d, empty_body_types=()):
    """Encode PublicMessage (RFC 9420 section 6.2)."""
    out = (encode_framed_content(d["content"], empty_body_types)
           + encode_framed_content_auth_data(d["auth"]))
    if d.get("membership_tag") is not None:
        out += enc_opaque(d["membership_tag"])
    return out


def parse_public_message(data, offset=0, empty_body_types=()):
    """Top-level PublicMessage parser (RFC 9420 section 6.2)."""
    return _top(read_public_message, data, offset, empty_body_types)


def read_private_message(r):
    """PrivateMessage (RFC 9420 section 6.3)."""
    def fill(r, d):
        d["group_id"] = r.opaque()
        d["epoch"] = r.u64()
        d["content_type"] = r.enum_u8(CONTENT_TYPE_NAMES, "content_type")
        d["authenticated_data"] = r.opaque()
        d["encrypted_sender_data"] = r.opaque()
        d["ciphertext"] = r.opaque()
    return _struct(r, fill)


def encode_private_message(d):
    """Encode PrivateMessage (RFC 9420 section 6.3)."""
    return (enc_opaque(d["group_id"]) + enc_u64(d["epoch"]) + enc_u8(d["content_type"])
            + enc_opaque(d["authenticated_data"]) + enc_opaque(d["encrypted_sender_data"])
            + enc_opaque(d["ciphertext"]))


def parse_private_message(data, offset=0):
    """Top-level PrivateMessage parser (RFC 9420 section 6.3)."""
    return _top(read_private_message, data, offset)


def encode_private_content_aad(group_id, epoch, content_type, authenticated_data):
    """PrivateContentAAD{group_id<V>; epoch; content_type; authenticated_data<V>} (RFC 9420 section 6.3.1)."""
    return (enc_opaque(group_id) + enc_u64(epoch) + enc_u8(content_type)
            + enc_opaque(authenticated_data))


def encode_sender_data_aad(group_id, epoch, content_type):
    """SenderDataAAD{group_id<V>; epoch; content_type} (RFC 9420 section 6.3.2)."""
    return enc_opaque(group_id) + enc_u64(epoch) + enc_u8(content_type)


def read_sender_data(r):
    """SenderData{u32 leaf_index; u32 generation; opaque reuse_guard[4]} (RFC 9420 section 6.3.2)."""
    def fill(r, d):
        d["leaf_index"] = r.u32()
        d["generation"] = r.u32()
        d["reuse_guard"] = r.take(4)
    return _struct(r, fill)


def encode_sender_data(d):
    """Encode SenderData (RFC 9420 section 6.3.2)."""
    return enc_u32(d["leaf_index"]) + enc_u32(d["generation"]) + bytes(d["reuse_guard"])


def parse_sender_data(data, offset=0):
    """Top-level SenderData parser (RFC 9420 section 6.3.2)."""
    return _top(read_sender_data, data, offset)


def parse_private_message_content(data, content_type, offset=0, empty_body_types=()):
    """PrivateMessageContent: content arm, auth, then all-zero padding to the end (RFC 9420 section 6.3.1)."""
    def read(r):
        def fill(r, d):
            if content_type not in CONTENT_TYPE_NAMES:
                raise ParseError("bad content_type %r" % (content_type,))
            d["content_type"] = content_type
            _read_content_body(r, d, content_type, empty_body_types)
            d["auth"] = read_framed_content_auth_data(r, content_type)
            padding = r.take(r.remaining())
            if any(padding):
                raise ParseError("non-zero padding in PrivateMessageContent")
            d["padding_len"] = len(padding)
        return _struct(r, fill)
    return _top(read, data, offset)


# ---------------------------------------------------------------------------
# GroupInfo, GroupSecrets, Welcome (RFC 9420 section 12.4.3)
# ---------------------------------------------------------------------------

def read_group_info(r):
    """GroupInfo{GroupContext; extensions<V>; MAC confirmation_tag; u32 signer; signature<V>} (RFC 9420 section 12.4.3)."""
    def fill(r, d):
        d["group_context"] = read_group_context(r)
        d["extensions"] = read_extensions(r)
        d["confirmation_tag"] = r.opaque()
        d["signer"] = r.u32()
        d["signature"] = r.opaque()
    return _struct(r, fill)


def encode_group_info(d, with_signature=True):
    """Encode GroupInfo; with_signature=False gives GroupInfoTBS (RFC 9420 section 12.4.3)."""
    out = (encode_group_context(d["group_context"]) + encode_extensions(d["extensions"])
           + enc_opaque(d["confirmation_tag"]) + enc_u32(d["signer"]))
    if with_signature:
        out += enc_opaque(d["signature"])
    return out


def parse_group_info(data, offset=0):
    """Top-level GroupInfo parser (RFC 9420 section 12.4.3)."""
    return _top(read_group_info, data, offset)


def read_group_secrets(r):
    """GroupSecrets{joiner_secret<V>; optional<PathSecret>; PreSharedKeyID psks<V>} (RFC 9420 section 12.4.3.1)."""
    def fill(r, d):
        d["joiner_secret"] = r.opaque()
        d["path_secret"] = r.optional(lambda rr: rr.opaque())
        d["psks"] = r.vector(read_psk_id)
    return _struct(r, fill)


def encode_group_secrets(d):
    """Encode GroupSecrets (RFC 9420 section 12.4.3.1)."""
    return (enc_opaque(d["joiner_secret"])
            + enc_optional(None if d["path_secret"] is None else enc_opaque(d["path_secret"]))
            + enc_vector([encode_psk_id(p) for p in d["psks"]]))


def parse_group_secrets(data, offset=0):
    """Top-level GroupSecrets parser (RFC 9420 section 12.4.3.1)."""
    return _top(read_group_secrets, data, offset)


def read_encrypted_group_secrets(r):
    """EncryptedGroupSecrets{KeyPackageRef new_member<V>; HPKECiphertext encrypted_group_secrets} (RFC 9420 section 12.4.3.1)."""
    def fill(r, d):
        d["new_member"] = r.opaque()
        d["encrypted_group_secrets"] = read_hpke_ciphertext(r)
    return _struct(r, fill)


def read_welcome(r):
    """Welcome{cipher_suite; EncryptedGroupSecrets secrets<V>; encrypted_group_info<V>} (RFC 9420 section 12.4.3.1)."""
    def fill(r, d):
        d["cipher_suite"] = r.u16()
        d["secrets"] = r.vector(read_encrypted_group_secrets)
        d["encrypted_group_info"] = r.opaque()
    return _struct(r, fill)


def encode_welcome(d):
    """Encode Welcome (RFC 9420 section 12.4.3.1)."""
    return (enc_u16(d["cipher_suite"])
            + enc_vector([enc_opaque(s["new_member"])
                          + encode_hpke_ciphertext(s["encrypted_group_secrets"])
                          for s in d["secrets"]])
            + enc_opaque(d["encrypted_group_info"]))


def parse_welcome(data, offset=0):
    """Top-level Welcome parser (RFC 9420 section 12.4.3.1)."""
    return _top(read_welcome, data, offset)


# ---------------------------------------------------------------------------
# MLSMessage (RFC 9420 section 6)
# ---------------------------------------------------------------------------

def read_mls_message(r, empty_body_types=()):
    """MLSMessage{u16 version; u16 wire_format; body} (RFC 9420 section 6)."""
    def fill(r, d):
        d["version"] = r.u16()
        d["wire_format"] = r.enum_u16(WIRE_FORMAT_NAMES, "wire_format")
        wf = d["wire_format"]
        if wf == WIRE_PUBLIC_MESSAGE:
            d["public_message"] = read_public_message(r, empty_body_types)
        elif wf == WIRE_PRIVATE_MESSAGE:
            d["private_message"] = read_private_message(r)
        elif wf == WIRE_WELCOME:
            d["welcome"] = read_welcome(r)
        elif wf == WIRE_GROUP_INFO:
            d["group_info"] = read_group_info(r)
        else:
            d["key_package"] = read_key_package(r)
    return _struct(r, fill)


def encode_mls_message(d, empty_body_types=()):
    """Encode MLSMessage (RFC 9420 section 6)."""
    wf = d["wire_format"]
    if wf == WIRE_PUBLIC_MESSAGE:
        body = encode_public_message(d["public_message"], empty_body_types)
    elif wf == WIRE_PRIVATE_MESSAGE:
        body = encode_private_message(d["private_message"])
    elif wf == WIRE_WELCOME:
        body = encode_welcome(d["welcome"])
    elif wf == WIRE_GROUP_INFO:
        body = encode_group_info(d["group_info"])
    else:
        body = encode_key_package(d["key_package"])
    return enc_u16(d["version"]) + enc_u16(wf) + body


def parse_mls_message(data, offset=0, empty_body_types=()):
    """Top-level MLSMessage parser (RFC 9420 section 6)."""
    return _top(read_mls_message, data, offset, empty_body_types)


def public_message_tbs_and_auth(mls_message_bytes, group_context_bytes=None):
    """From an encoded MLSMessage(PublicMessage) return (FramedContentTBS bytes, FramedContentAuthData bytes, parsed message) (RFC 9420 sections 6.1, 6.2)."""
    msg = parse_exact(parse_mls_message, mls_message_bytes)
    if msg["wire_format"] != WIRE_PUBLIC_MESSAGE:
        raise ParseError("not a PublicMessage")
    pm = msg["public_message"]
    content_bytes = raw(mls_message_bytes, pm["content"])
    auth_bytes = raw(mls_message_bytes, pm["auth"])
    tbs = encode_framed_content_tbs(WIRE_PUBLIC_MESSAGE, content_bytes,
                                    pm["content"]["sender"]["sender_type"],
                                    group_context_bytes, msg["version"])
    return tbs, auth_bytes, msg


# ---------------------------------------------------------------------------
# self-test
# ---------------------------------------------------------------------------

def _expect_error(fn, *args):
    """Return True if fn(*args) raises ParseError."""
    try:
        fn(*args)
    except ParseError:
        return True
    return False


def _self_test():
    """Round-trip every applicable vector under /repo/mls-rs/test_data and exercise the strict errors."""
    import json
    import os
    import sys

    base = "/repo/mls-rs/test_data"
    failures = []
    report = []

    def load(name):
        path = os.path.join(base, name)
        if not os.path.exists(path) or os.path.getsize(path) == 0:
            return None
        with open(path) as f:
            return json.load(f)

    def roundtrip(tag, parser, encoder, blob, *args):
        try:
            value = parse_exact(parser, blob, *args)
            again = encoder(value)
        except Exception as e:  # noqa: BLE001 - report anything
            failures.append("%s: %r" % (tag, e))
            return None
        if again != blob:
            failures.append("%s: re-encode differs" % tag)
        return value

    # --- primitives and strictness -------------------------------------
    n = 0
    for v in (0, 1, 63, 64, 16383, 16384, VARINT_MAX):
        enc = write_varint(v)
        assert read_varint(enc) == (v, len(enc)), v
        n += 1
    assert write_varint(63) == b"\x3f" and write_varint(64) == b"\x40\x40"
    assert write_varint(16384) == b"\x80\x00\x40\x00"
    strict = [
        ("non-minimal 2-byte varint", lambda: Reader(b"\x40\x3f").varint()),
        ("non-minimal 4-byte varint", lambda: Reader(b"\x80\x00\x3f\xff").varint()),
        ("varint prefix 0b11", lambda: Reader(b"\xc0\x00\x00\x00").varint()),
        ("truncated varint", lambda: Reader(b"\x40").varint()),
        ("opaque beyond input", lambda: Reader(b"\x05abcd").opaque()),
        ("vector beyond input", lambda: Reader(b"\x05abcd").vector(lambda r: r.u8())),
        ("bad optional octet", lambda: Reader(b"\x02").optional(lambda r: r.u8())),
        ("bad node type", lambda: parse_node(b"\x03\x00")),
        ("bad sender type", lambda: parse_sender(b"\x05")),
        ("bad wire format", lambda: parse_mls_message(b"\x00\x01\x00\x06")),
        ("bad psk type", lambda: parse_psk_id(b"\x03\x00\x00")),
        ("bad ProposalOrRef", lambda: parse_proposal_or_ref(b"\x03\x00")),
        ("duplicate extension", lambda: parse_extensions(b"\x06\x00\x09\x00\x00\x09\x00")),
        ("u32 cut short", lambda: Reader(b"\x00\x00\x01").u32()),
    ]
    for name, fn in strict:
        if not _expect_error(fn):
            failures.append("strictness: %s not rejected" % name)
        n += 1
    # custom proposal = u16 type + opaque<V>
    cp, used = parse_proposal(b"\xf0\x01\x03abc")
    assert used == 6 and cp["custom"] and cp["data"] == b"abc" and cp["proposal_type"] == 0xF001
    assert encode_proposal(cp) == b"\xf0\x01\x03abc"
    cp, used = parse_proposal(b"\xf0\x03", 0, (0xF003,))
    assert used == 2 and cp["data"] == b""
    report.append(("primitives/strictness", n + 2))

    # --- serialization.json (RFC "messages" vector) -----------------------
    cases = load("serialization.json")
    if cases is not None:
        count = 0
        wf_expect = {"mls_welcome": WIRE_WELCOME, "mls_group_info": WIRE_GROUP_INFO,
                     "mls_key_package": WIRE_KEY_PACKAGE,
                     "public_message_application": WIRE_PUBLIC_MESSAGE,
                     "public_message_proposal": WIRE_PUBLIC_MESSAGE,
                     "public_message_commit": WIRE_PUBLIC_MESSAGE,
                     "private_message": WIRE_PRIVATE_MESSAGE}
        bodies = {"add_proposal": PROPOSAL_ADD, "update_proposal": PROPOSAL_UPDATE,
                  "remove_proposal": PROPOSAL_REMOVE,
                  "pre_shared_key_proposal": PROPOSAL_PSK,
                  "re_init_proposal": PROPOSAL_REINIT,
                  "external_init_proposal": PROPOSAL_EXTERNAL_INIT,
                  "group_context_extensions_proposal": PROPOSAL_GROUP_CONTEXT_EXTENSIONS}
        for i, c in enumerate(cases):
            for key, wf in wf_expect.items():
                m = roundtrip("serialization[%d].%s" % (i, key), parse_mls_message,
                              encode_mls_message, bytes.fromhex(c[key]))
                if m is not None and m["wire_format"] != wf:
                    failures.append("serialization[%d].%s: wire_format %d" % (i, key, m["wire_format"]))
                count += 1
            roundtrip("serialization[%d].ratchet_tree" % i, parse_ratchet_tree,
                      encode_ratchet_tree, bytes.fromhex(c["ratchet_tree"]))
            roundtrip("serialization[%d].group_secrets" % i, parse_group_secrets,
                      encode_group_secrets, bytes.fromhex(c["group_secrets"]))
            roundtrip("serialization[%d].commit" % i, parse_commit, encode_commit,
                      bytes.fromhex(c["commit"]))
            count += 3
            for key, ptype in bodies.items():
                blob = bytes.fromhex(c[key])
                tag = "serialization[%d].%s" % (i, key)
                try:
                    body, used = parse_proposal_body(blob, ptype)
                    if used != len(blob):
                        failures.append(tag + ": trailing bytes")
                    if encode_proposal_body(body) != blob:
                        failures.append(tag + ": re-encode differs")
                    # and as a full Proposal with its type prefix
                    full = enc_u16(ptype) + blob
                    p = parse_exact(parse_proposal, full)
                    if encode_proposal(p) != full:
                        failures.append(tag + ": full proposal re-encode differs")
                except Exception as e:  # noqa: BLE001
                    failures.append("%s: %r" % (tag, e))
                count += 1
        report.append(("serialization.json", count))

    # --- passive client vectors: welcome / key package / commits / proposals
    for name in ("interop_passive_client_welcome.json",
                 "interop_passive_client_handle_commit.json",
                 "interop_passive_client_random.json"):
        cases = load(name)
        if cases is None:
            report.append((name + " (empty, skipped)", 0))
            continue
        count = 0
        for i, c in enumerate(cases):
            for key in ("key_package", "welcome"):
                roundtrip("%s[%d].%s" % (name, i, key), parse_mls_message,
                          encode_mls_message, bytes.fromhex(c[key]))
                count += 1
            if c.get("ratchet_tree"):
                roundtrip("%s[%d].ratchet_tree" % (name, i), parse_ratchet_tree,
                          encode_ratchet_tree, bytes.fromhex(c["ratchet_tree"]))
                count += 1
            for j, ep in enumerate(c.get("epochs", [])):
                for k, p in enumerate(ep["proposals"]):
                    roundtrip("%s[%d].epochs[%d].proposals[%d]" % (name, i, j, k),
                              parse_mls_message, encode_mls_message, bytes.fromhex(p))
                    count += 1
                roundtrip("%s[%d].epochs[%d].commit" % (name, i, j), parse_mls_message,
                          encode_mls_message, bytes.fromhex(ep["commit"]))
                count += 1
        report.append((name, count))

    # --- framing.json (RFC "message-protection") ----------------------------
    cases = load("framing.json")
    if cases is not None:
        count = 0
        for i, c in enumerate(cases):
            for key in ("proposal_pub", "commit_pub", "proposal_priv", "commit_priv",
                        "application_priv"):
                roundtrip("framing[%d].%s" % (i, key), parse_mls_message,
                          encode_mls_message, bytes.fromhex(c[key]))
                count += 1
            roundtrip("framing[%d].proposal" % i, parse_proposal, encode_proposal,
                      bytes.fromhex(c["proposal"]))
            roundtrip("framing[%d].commit" % i, parse_commit, encode_commit,
                      bytes.fromhex(c["commit"]))
            count += 2
        report.append(("framing.json", count))

    # --- AuthenticatedContent / KeyPackage inputs of the ref-hash vectors ----
    for name, parser, encoder in (
            ("proposal_ref.json", parse_authenticated_content, encode_authenticated_content),
            ("key_package_ref.json", parse_key_package, encode_key_package)):
        cases = load(name)
        if cases is None:
            continue
        for i, c in enumerate(cases):
            roundtrip("%s[%d].input" % (name, i), parser, encoder, bytes.fromhex(c["input"]))
        report.append((name, len(cases)))

    cases = load("interop_transcript_hashes.json")
    if cases is not None:
        for i, c in enumerate(cases):
            blob = bytes.fromhex(c["authenticated_content"])
            roundtrip("transcript[%d]" % i, parse_authenticated_content,
                      encode_authenticated_content, blob)
            a, b = split_transcript_inputs(blob)
            if a + b != blob:
                failures.append("transcript[%d]: split does not cover input" % i)
        report.append(("interop_transcript_hashes.json", len(cases)))

    # --- ratchet trees -------------------------------------------------------
    for name, keys in (("interop_tree_validation.json", ("tree",)),
                       ("interop_tree_kem.json", ("ratchet_tree",)),
                       ("tree_hash.json", ("tree_data",)),
                       ("parent_hash.json", ("tree_data",)),
                       ("tree_modifications_interop.json", ("tree_before", "tree_after"))):
        cases = load(name)
        if cases is None:
            continue
        count = 0
        for i, c in enumerate(cases):
            for key in keys:
                roundtrip("%s[%d].%s" % (name, i, key), parse_ratchet_tree,
                          encode_ratchet_tree, bytes.fromhex(c[key]))
                count += 1
            if name == "interop_tree_kem.json":
                for j, up in enumerate(c["update_paths"]):
                    roundtrip("%s[%d].update_paths[%d]" % (name, i, j), parse_update_path,
                              encode_update_path, bytes.fromhex(up["update_path"]))
                    count += 1
            if name == "tree_modifications_interop.json":
                roundtrip("%s[%d].proposal" % (name, i), parse_proposal, encode_proposal,
                          bytes.fromhex(c["proposal"]))
                count += 1
        report.append((name, count))

    # --- key schedule GroupContext blobs --------------------------------------
    cases = load("key_schedule_test_vector.json")
    if cases is not None:
        count = 0
        for i, c in enumerate(cases):
            for j, ep in enumerate(c["epochs"]):
                blob = bytes.fromhex(ep["group_context"])
                gc = roundtrip("key_schedule[%d].epochs[%d].group_context" % (i, j),
                               parse_group_context, encode_group_context, blob)
                if gc is not None:
                    rebuilt = make_group_context(c["cipher_suite"], bytes.fromhex(c["group_id"]),
                                                 j, bytes.fromhex(ep["tree_hash"]),
                                                 bytes.fromhex(ep["confirmed_transcript_hash"]))
                    if rebuilt != blob:
                        failures.append("key_schedule[%d].epochs[%d]: GroupContext rebuilt from fields differs" % (i, j))
                count += 1
        report.append(("key_schedule_test_vector.json (GroupContext)", count))

    print("tls.py self-test")
    for name, count in report:
        print("  %-55s %6d items" % (name, count))
    if failures:
        print("FAILURES: %d" % len(failures))
        for f in failures[:40]:
            print("  " + f)
        sys.exit(1)
    print("all passed")


if __name__ == "__main__":
    _self_test()
