#!/usr/bin/env python3
"""Reference key-derivation functions of RFC 9420 (MLS), Python stdlib only.

Everything is computed with hashlib / hmac so that no code is shared with
the crypto providers of the library under test.  All functions take and
return `bytes`; the cipher suite is always the first argument (1..7).

Run this file to check the implementation against the JSON vectors under
/repo/mls-rs/test_data.
"""

import hashlib
import hmac
import os
import struct
import sys

sys.path.insert(0, os.path.dirname(os.path.abspath(__file__)))
import tls  # noqa: E402

# ---------------------------------------------------------------------------
# cipher suites (RFC 9420 section 17.1)
# ---------------------------------------------------------------------------

#  suite: (name, hash name, Nh, AEAD name, Nk, Nn)
SUITES = {
    1: ("MLS_128_DHKEMX25519_AES128GCM_SHA256_Ed25519", "sha256", 32, "AES128GCM", 16, 12),
    2: ("MLS_128_DHKEMP256_AES128GCM_SHA256_P256", "sha256", 32, "AES128GCM", 16, 12),
    3: ("MLS_128_DHKEMX25519_CHACHA20POLY1305_SHA256_Ed25519", "sha256", 32, "CHACHA20POLY1305", 32, 12),
    4: ("MLS_256_DHKEMX448_AES256GCM_SHA512_Ed448", "sha512", 64, "AES256GCM", 32, 12),
    5: ("MLS_256_DHKEMP521_AES256GCM_SHA512_P521", "sha512", 64, "AES256GCM", 32, 12),
    6: ("MLS_256_DHKEMX448_CHACHA20POLY1305_SHA512_Ed448", "sha512", 64, "CHACHA20POLY1305", 32, 12),
    7: ("MLS_256_DHKEMP384_AES256GCM_SHA384_P384", "sha384", 48, "AES256GCM", 32, 12),
}


def _suite(suite):
    """Look up a cipher suite row or fail loudly (RFC 9420 section 17.1)."""
    if suite not in SUITES:
        raise ValueError("unsupported cipher suite %r" % (suite,))
    return SUITES[suite]


def hash_name(suite):
    """hashlib name of the suite hash (RFC 9420 section 17.1)."""
    return _suite(suite)[1]


def nh(suite):
    """KDF.Nh: output size of the suite hash in bytes (RFC 9420 section 5.1)."""
    return _suite(suite)[2]


def aead_nk(suite):
    """AEAD.Nk: AEAD key size in bytes (RFC 9420 section 5.1)."""
    return _suite(suite)[4]


def aead_nn(suite):
    """AEAD.Nn: AEAD nonce size in bytes (RFC 9420 section 5.1)."""
    return _suite(suite)[5]


def hash_bytes(suite, data):
    """Hash(data) with the suite hash (RFC 9420 section 5.1)."""
    return hashlib.new(hash_name(suite), data).digest()


def mac(suite, key, data):
    """MAC(key, data) = HMAC with the suite hash (RFC 9420 section 5.1)."""
    return hmac.new(key, data, hash_name(suite)).digest()


def zeros(suite):
    """The all-zero vector of length KDF.Nh, written "0" in RFC 9420 section 8."""
    return b"\x00" * nh(suite)


# ---------------------------------------------------------------------------
# HKDF (RFC 5869)
# ---------------------------------------------------------------------------

def _hkdf_extract(hname, salt, ikm):
    """HKDF-Extract with an explicit hash name (RFC 5869 section 2.2)."""
    if not salt:
        salt = b"\x00" * hashlib.new(hname).digest_size
    return hmac.new(salt, ikm, hname).digest()


def _hkdf_expand(hname, prk, info, length):
    """HKDF-Expand with an explicit hash name (RFC 5869 section 2.3)."""
    hlen = hashlib.new(hname).digest_size
    if length > 255 * hlen:
        raise ValueError("HKDF-Expand length too large")
    out = b""
    block = b""
    counter = 1
    while len(out) < length:
        block = hmac.new(prk, block + info + bytes([counter]), hname).digest()
        out += block
        counter += 1
    return out[:length]


def kdf_extract(suite, salt, ikm):
    """KDF.Extract(salt, ikm) (RFC 5869 section 2.2, RFC 9420 section 5.1)."""
    return _hkdf_extract(hash_name(suite), salt, ikm)


def kdf_expand(suite, prk, info, length):
    """KDF.Expand(prk, info, L) (RFC 5869 section 2.3, RFC 9420 section 5.1)."""
    return _hkdf_expand(hash_name(suite), prk, info, length)


# ---------------------------------------------------------------------------
# labelled derivations (RFC 9420 section 8)
# ---------------------------------------------------------------------------

def expand_with_label(suite, secret, label, context, length=None):
    """ExpandWithLabel(Secret, Label, Context, Length) with the "MLS 1.0 " label prefix (RFC 9420 section 8)."""
    if length is None:
        length = nh(suite)
    return kdf_expand(suite, secret, tls.encode_kdf_label(length, label, context), length)


def derive_secret(suite, secret, label):
    """DeriveSecret(Secret, Label) = ExpandWithLabel(Secret, Label, "", Nh) (RFC 9420 section 8)."""
    return expand_with_label(suite, secret, label, b"", nh(suite))


def derive_tree_secret(suite, secret, label, generation, length):
    """DeriveTreeSecret(Secret, Label, Generation, Length) with Context = uint32(Generation) (RFC 9420 section 9.1)."""
    return expand_with_label(suite, secret, label, struct.pack(">I", generation), length)


# ---------------------------------------------------------------------------
# hash references (RFC 9420 section 5.2)
# ---------------------------------------------------------------------------

def ref_hash(suite, label, value):
    """RefHash(label, value) = Hash(RefHashInput{label<V>, value<V>}) (RFC 9420 section 5.2)."""
    return hash_bytes(suite, tls.encode_ref_hash_input(label, value))


def make_key_package_ref(suite, key_package_bytes):
    """MakeKeyPackageRef(value) over the encoded KeyPackage (RFC 9420 section 5.2)."""
    return ref_hash(suite, b"MLS 1.0 KeyPackage Reference", key_package_bytes)


def make_proposal_ref(suite, authenticated_content_bytes):
    """MakeProposalRef(value) over the encoded AuthenticatedContent (RFC 9420 section 5.2)."""
    return ref_hash(suite, b"MLS 1.0 Proposal Reference", authenticated_content_bytes)


# ---------------------------------------------------------------------------
# epoch key schedule (RFC 9420 section 8)
# ---------------------------------------------------------------------------

EPOCH_SECRET_LABELS = (
    ("sender_data_secret", "sender data"),
    ("encryption_secret", "encryption"),
    ("exporter_secret", "exporter"),
    ("external_secret", "external"),
    ("confirmation_key", "confirm"),
    ("membership_key", "membership"),
    ("resumption_psk", "resumption"),
    ("epoch_authenticator", "authentication"),
)


def joiner_secret(suite, init_secret_prev, commit_secret, group_context):
    """joiner_secret = ExpandWithLabel(Extract(init_secret[n-1], commit_secret), "joiner", GroupContext[n], Nh) (RFC 9420 section 8)."""
    extracted = kdf_extract(suite, init_secret_prev, commit_secret)
    return expand_with_label(suite, extracted, "joiner", group_context, nh(suite))


def key_schedule_from_joiner(suite, joiner, group_context, psk_secret=None):
    """Everything below joiner_secret in the key schedule figure; this is what a Welcome recipient computes (RFC 9420 section 8)."""
    if psk_secret is None:
        psk_secret = zeros(suite)
    intermediate = kdf_extract(suite, joiner, psk_secret)
    out = {"joiner_secret": joiner}
    out["welcome_secret"] = derive_secret(suite, intermediate, "welcome")
    out["welcome_key"] = expand_with_label(suite, out["welcome_secret"], "key", b"", aead_nk(suite))
    out["welcome_nonce"] = expand_with_label(suite, out["welcome_secret"], "nonce", b"", aead_nn(suite))
    epoch_secret = expand_with_label(suite, intermediate, "epoch", group_context, nh(suite))
    out["epoch_secret"] = epoch_secret
    for name, label in EPOCH_SECRET_LABELS:
        out[name] = derive_secret(suite, epoch_secret, label)
    out["init_secret"] = derive_secret(suite, epoch_secret, "init")
    return out


def key_schedule_epoch(suite, init_secret_prev, commit_secret, group_context, psk_secret=None):
    """Full epoch key schedule from (init_secret[n-1], commit_secret, GroupContext[n], psk_secret) (RFC 9420 section 8)."""
    joiner = joiner_secret(suite, init_secret_prev, commit_secret, group_context)
    return key_schedule_from_joiner(suite, joiner, group_context, psk_secret)


def key_schedule_from_epoch_secret(suite, epoch_secret):
    """Secrets derived from a given epoch_secret; used for epoch 0 where epoch_secret is random (RFC 9420 sections 8, 11)."""
    out = {"epoch_secret": epoch_secret}
    for name, label in EPOCH_SECRET_LABELS:
        out[name] = derive_secret(suite, epoch_secret, label)
    out["init_secret"] = derive_secret(suite, epoch_secret, "init")
    return out


def mls_exporter(suite, exporter_secret, label, context, length):
    """MLS-Exporter(Label, Context, Length) = ExpandWithLabel(DeriveSecret(exporter_secret, Label), "exported", Hash(Context), Length) (RFC 9420 section 8.5)."""
    derived = derive_secret(suite, exporter_secret, label)
    return expand_with_label(suite, derived, "exported", hash_bytes(suite, context), length)


# ---------------------------------------------------------------------------
# pre-shared keys (RFC 9420 section 8.4)
# ---------------------------------------------------------------------------

def psk_secret(suite, psks):
    """psk_secret from an ordered list of (PreSharedKeyID dict, psk bytes) pairs (RFC 9420 section 8.4)."""
    secret = zeros(suite)
    count = len(psks)
    for index, (psk_id, psk) in enumerate(psks):
        psk_extracted = kdf_extract(suite, zeros(suite), psk)
        label = tls.encode_psk_label(psk_id, index, count)
        psk_input = expand_with_label(suite, psk_extracted, "derived psk", label, nh(suite))
        secret = kdf_extract(suite, psk_input, secret)
    return secret


# ---------------------------------------------------------------------------
# array tree math (RFC 9420 appendix C), written as plain interval arithmetic
# ---------------------------------------------------------------------------

def full_leaf_count(n_leaves):
    """Smallest power of two >= n_leaves: leaf count of the full tree (RFC 9420 section 4.1)."""
    if n_leaves < 1:
        raise ValueError("tree needs at least one leaf")
    width = 1
    while width < n_leaves:
        width *= 2
    return width


def node_width(n_leaves):
    """Number of nodes of a tree with n_leaves leaves: 2n - 1 (RFC 9420 appendix C)."""
    return 2 * n_leaves - 1 if n_leaves > 0 else 0


def leaf_count_for_nodes(n_nodes):
    """Full-tree leaf count for an array that holds n_nodes nodes, possibly truncated (RFC 9420 section 7.4.1)."""
    return full_leaf_count((n_nodes + 1 + 1) // 2)


def level(x):
    """Level of node x: leaves (even) are 0; otherwise the number of trailing one bits (RFC 9420 appendix C)."""
    k = 0
    while (x >> k) & 1:
        k += 1
    return k


def root(n_leaves):
    """Index of the root of the full tree with n_leaves (a power of two) leaves: the middle node (RFC 9420 appendix C)."""
    _check_pow2(n_leaves)
    return n_leaves - 1


def _check_pow2(n_leaves):
    """MLS trees are full: leaf count must be a power of two (RFC 9420 section 4.1)."""
    if n_leaves < 1 or (n_leaves & (n_leaves - 1)) != 0:
        raise ValueError("leaf count %r is not a power of two" % (n_leaves,))


def left(x):
    """Left child of parent node x: half a subtree span to the left (RFC 9420 appendix C)."""
    k = level(x)
    if k == 0:
        raise ValueError("leaf node has no children")
    return x - (1 << (k - 1))


def right(x):
    """Right child of parent node x: half a subtree span to the right (RFC 9420 appendix C)."""
    k = level(x)
    if k == 0:
        raise ValueError("leaf node has no children")
    return x + (1 << (k - 1))


def parent(x, n_leaves):
    """Parent of x in the tree with n_leaves leaves, found by walking down from the root (RFC 9420 appendix C)."""
    node = root(n_leaves)
    if x == node:
        raise ValueError("root has no parent")
    if x < 0 or x >= node_width(n_leaves):
        raise ValueError("node %r outside tree" % (x,))
    while True:
        child = left(node) if x < node else right(node)
        if child == x:
            return node
        node = child


def sibling(x, n_leaves):
    """The other child of x's parent (RFC 9420 appendix C)."""
    p = parent(x, n_leaves)
    return right(p) if x < p else left(p)


def direct_path(x, n_leaves):
    """Direct path of x: parent, grandparent, ... up to and including the root (RFC 9420 section 4.1.2)."""
    top = root(n_leaves)
    path = []
    while x != top:
        x = parent(x, n_leaves)
        path.append(x)
    return path


def copath(x, n_leaves):
    """Copath of x: the sibling of each node on x's path to the root, lowest first (RFC 9420 section 4.1.2)."""
    top = root(n_leaves)
    out = []
    while x != top:
        out.append(sibling(x, n_leaves))
        x = parent(x, n_leaves)
    return out


# ---------------------------------------------------------------------------
# secret tree and ratchets (RFC 9420 section 9)
# ---------------------------------------------------------------------------

def secret_tree_node_secret(suite, encryption_secret, n_leaves, node):
    """tree_node_[N]_secret: walk from the root, deriving "tree"/"left" or "tree"/"right" at each step (RFC 9420 section 9)."""
    n = full_leaf_count(n_leaves)
    if node < 0 or node >= node_width(n):
        raise ValueError("node %r outside secret tree" % (node,))
    cur = root(n)
    secret = encryption_secret
    while cur != node:
        if node < cur:
            secret = expand_with_label(suite, secret, "tree", b"left", nh(suite))
            cur = left(cur)
        else:
            secret = expand_with_label(suite, secret, "tree", b"right", nh(suite))
            cur = right(cur)
    return secret


def secret_tree_leaf_secret(suite, encryption_secret, n_leaves, leaf_index):
    """Secret of leaf L = tree node 2*L of the secret tree (RFC 9420 section 9)."""
    return secret_tree_node_secret(suite, encryption_secret, n_leaves, 2 * leaf_index)


def ratchet_initial_secret(suite, leaf_secret, ratchet):
    """handshake/application ratchet_secret_[N]_[0] = ExpandWithLabel(leaf_secret, ratchet, "", Nh) (RFC 9420 section 9)."""
    if ratchet not in ("handshake", "application"):
        raise ValueError("ratchet must be 'handshake' or 'application'")
    return expand_with_label(suite, leaf_secret, ratchet, b"", nh(suite))


def ratchet_step(suite, secret, generation):
    """From ratchet_secret_[j] return (key_[j], nonce_[j], ratchet_secret_[j+1]) (RFC 9420 section 9.1)."""
    key = derive_tree_secret(suite, secret, "key", generation, aead_nk(suite))
    nonce = derive_tree_secret(suite, secret, "nonce", generation, aead_nn(suite))
    nxt = derive_tree_secret(suite, secret, "secret", generation, nh(suite))
    return key, nonce, nxt


def ratchet_key_nonce(suite, leaf_secret, ratchet, generation):
    """(key, nonce) of the given ratchet at `generation`, stepping from generation 0 (RFC 9420 section 9.1)."""
    secret = ratchet_initial_secret(suite, leaf_secret, ratchet)
    for j in range(generation):
        secret = derive_tree_secret(suite, secret, "secret", j, nh(suite))
    key, nonce, _ = ratchet_step(suite, secret, generation)
    return key, nonce


def message_key_nonce(suite, encryption_secret, n_leaves, leaf_index, ratchet, generation):
    """(key, nonce) for sender leaf_index / ratchet / generation straight from encryption_secret (RFC 9420 section 9)."""
    leaf_secret = secret_tree_leaf_secret(suite, encryption_secret, n_leaves, leaf_index)
    return ratchet_key_nonce(suite, leaf_secret, ratchet, generation)


def apply_reuse_guard(nonce, reuse_guard):
    """XOR the 4-byte reuse_guard into the first four bytes of the nonce (RFC 9420 section 6.3.1)."""
    if len(reuse_guard) != 4:
        raise ValueError("reuse_guard must be 4 bytes")
    head = bytes(a ^ b for a, b in zip(nonce[:4], reuse_guard))
    return head + nonce[4:]


# ---------------------------------------------------------------------------
# sender data (RFC 9420 section 6.3.2)
# ---------------------------------------------------------------------------

def sender_data_key_nonce(suite, sender_data_secret, ciphertext):
    """(sender_data_key, sender_data_nonce) from the first Nh bytes of the content ciphertext (RFC 9420 section 6.3.2)."""
    sample = ciphertext[:nh(suite)]
    key = expand_with_label(suite, sender_data_secret, "key", sample, aead_nk(suite))
    nonce = expand_with_label(suite, sender_data_secret, "nonce", sample, aead_nn(suite))
    return key, nonce


# ---------------------------------------------------------------------------
# transcript hashes and tags (RFC 9420 sections 8.2, 6.1, 6.2)
# ---------------------------------------------------------------------------

def confirmed_transcript_hash(suite, interim_transcript_hash_prev, confirmed_input):
    """confirmed_transcript_hash[n] = Hash(interim[n-1] || ConfirmedTranscriptHashInput[n]) (RFC 9420 section 8.2)."""
    return hash_bytes(suite, interim_transcript_hash_prev + confirmed_input)


def interim_transcript_hash(suite, confirmed_transcript_hash_now, interim_input):
    """interim_transcript_hash[n] = Hash(confirmed[n] || InterimTranscriptHashInput[n]) (RFC 9420 section 8.2)."""
    return hash_bytes(suite, confirmed_transcript_hash_now + interim_input)


def interim_transcript_hash_from_tag(suite, confirmed_transcript_hash_now, confirmation_tag_bytes):
    """Same, building InterimTranscriptHashInput{MAC confirmation_tag} from the raw tag (RFC 9420 section 8.2)."""
    return interim_transcript_hash(suite, confirmed_transcript_hash_now,
                                   tls.enc_opaque(confirmation_tag_bytes))


def transcript_hashes_after_commit(suite, interim_transcript_hash_prev, authenticated_content_bytes):
    """(confirmed[n], interim[n]) from interim[n-1] and the encoded commit AuthenticatedContent (RFC 9420 section 8.2)."""
    confirmed_input, interim_input = tls.split_transcript_inputs(authenticated_content_bytes)
    confirmed = confirmed_transcript_hash(suite, interim_transcript_hash_prev, confirmed_input)
    return confirmed, interim_transcript_hash(suite, confirmed, interim_input)


def confirmation_tag(suite, confirmation_key, confirmed_transcript_hash_now):
    """confirmation_tag = MAC(confirmation_key, confirmed_transcript_hash) (RFC 9420 section 6.1)."""
    return mac(suite, confirmation_key, confirmed_transcript_hash_now)


def initial_interim_transcript_hash(suite, confirmation_key):
    """Interim hash of a new group: confirmed hash is empty, tag is MAC over the empty string (RFC 9420 section 11)."""
    tag = confirmation_tag(suite, confirmation_key, b"")
    return interim_transcript_hash_from_tag(suite, b"", tag)


def membership_tag(suite, membership_key, framed_content_tbs, framed_content_auth_data):
    """membership_tag = MAC(membership_key, AuthenticatedContentTBM{FramedContentTBS, FramedContentAuthData}) (RFC 9420 section 6.2)."""
    return mac(suite, membership_key, framed_content_tbs + framed_content_auth_data)


def public_message_membership_tag(suite, membership_key, mls_message_bytes, group_context_bytes):
    """Recompute the membership tag of an encoded MLSMessage(PublicMessage) from a member (RFC 9420 section 6.2)."""
    tbs, auth, _msg = tls.public_message_tbs_and_auth(mls_message_bytes, group_context_bytes)
    return membership_tag(suite, membership_key, tbs, auth)


# ---------------------------------------------------------------------------
# path secrets (RFC 9420 section 7.4)
# ---------------------------------------------------------------------------

def next_path_secret(suite, path_secret):
    """path_secret[n+1] = DeriveSecret(path_secret[n], "path"); at the root this gives commit_secret (RFC 9420 section 7.4)."""
    return derive_secret(suite, path_secret, "path")


def node_secret(suite, path_secret):
    """node_secret[n] = DeriveSecret(path_secret[n], "node"), input of KEM.DeriveKeyPair (RFC 9420 section 7.4)."""
    return derive_secret(suite, path_secret, "node")


# ---------------------------------------------------------------------------
# DHKEM(X25519) DeriveKeyPair, suites 1 and 3 only (RFC 9180 section 7.1.3, RFC 7748)
# ---------------------------------------------------------------------------

_P25519 = 2 ** 255 - 19


def x25519(scalar_bytes, u_bytes):
    """X25519 scalar multiplication by Montgomery ladder (RFC 7748 section 5)."""
    k = bytearray(scalar_bytes)
    k[0] &= 248
    k[31] &= 127
    k[31] |= 64
    k = int.from_bytes(k, "little")
    u = int.from_bytes(u_bytes, "little") & ((1 << 255) - 1)
    x1, x2, z2, x3, z3, swap = u, 1, 0, u, 1, 0
    for t in range(254, -1, -1):
        bit = (k >> t) & 1
        swap ^= bit
        if swap:
            x2, x3, z2, z3 = x3, x2, z3, z2
        swap = bit
        a = (x2 + z2) % _P25519
        aa = a * a % _P25519
        b = (x2 - z2) % _P25519
        bb = b * b % _P25519
        e = (aa - bb) % _P25519
        c = (x3 + z3) % _P25519
        d = (x3 - z3) % _P25519
        da = d * a % _P25519
        cb = c * b % _P25519
        x3 = (da + cb) ** 2 % _P25519
        z3 = x1 * (da - cb) ** 2 % _P25519
        x2 = aa * bb % _P25519
        z2 = e * (aa + 121665 * e) % _P25519
    if swap:
        x2, x3, z2, z3 = x3, x2, z3, z2
    out = x2 * pow(z2, _P25519 - 2, _P25519) % _P25519
    return out.to_bytes(32, "little")


def kem_derive_key_pair_x25519(ikm):
    """DHKEM(X25519, HKDF-SHA256).DeriveKeyPair(ikm) -> (sk, pk) (RFC 9180 section 7.1.3)."""
    suite_id = b"KEM" + struct.pack(">H", 0x0020)
    dkp_prk = _hkdf_extract("sha256", b"", b"HPKE-v1" + suite_id + b"dkp_prk" + ikm)
    info = struct.pack(">H", 32) + b"HPKE-v1" + suite_id + b"sk"
    sk = _hkdf_expand("sha256", dkp_prk, info, 32)
    pk = x25519(sk, (9).to_bytes(32, "little"))
    return sk, pk


def kem_derive_public_key(suite, ikm):
    """Public key of KEM.DeriveKeyPair(ikm) for X25519 suites (1, 3); None for the other KEMs (RFC 9420 sections 7.4, 8)."""
    if suite in (1, 3):
        return kem_derive_key_pair_x25519(ikm)[1]
    return None


def _hpke_labeled_extract(suite_id, salt, label, ikm):
    return _hkdf_extract("sha256", salt, b"HPKE-v1" + suite_id + label + ikm)


def _hpke_labeled_expand(suite_id, prk, label, info, length):
    return _hkdf_expand("sha256", prk, struct.pack(">H", length) + b"HPKE-v1" + suite_id + label + info, length)


def hpke_base_export_x25519(suite, sk_r, pk_r, enc, info, exporter_context, length):
    """SetupBaseR(enc, skR, info).Export(exporter_context, L) for DHKEM(X25519, HKDF-SHA256) with
    HKDF-SHA256 (RFC 9180 sections 4.1, 5.1, 5.3); suites 1 and 3 of RFC 9420. Independent of the
    library: Montgomery ladder and HMAC only."""
    aead_id = {1: 0x0001, 3: 0x0003}[suite]
    kem_suite = b"KEM" + struct.pack(">H", 0x0020)
    dh = x25519(sk_r, enc)
    kem_context = enc + pk_r
    eae_prk = _hpke_labeled_extract(kem_suite, b"", b"eae_prk", dh)
    shared_secret = _hpke_labeled_expand(kem_suite, eae_prk, b"shared_secret", kem_context, 32)
    hpke_suite = b"HPKE" + struct.pack(">HHH", 0x0020, 0x0001, aead_id)
    psk_id_hash = _hpke_labeled_extract(hpke_suite, b"", b"psk_id_hash", b"")
    info_hash = _hpke_labeled_extract(hpke_suite, b"", b"info_hash", info)
    ks_context = b"\x00" + psk_id_hash + info_hash
    secret = _hpke_labeled_extract(hpke_suite, shared_secret, b"secret", b"")
    exporter_secret = _hpke_labeled_expand(hpke_suite, secret, b"exp", ks_context, 32)
    return _hpke_labeled_expand(hpke_suite, exporter_secret, b"sec", exporter_context, length)


def external_init_secret(suite, external_secret, kem_output):
    """init_secret of an external commit as the members compute it (RFC 9420 section 8.3):
    SetupBaseR(kem_output, DeriveKeyPair(external_secret), "").Export("MLS 1.0 external init secret", Nh).
    None for suites whose KEM is not X25519."""
    if suite not in (1, 3):
        return None
    sk, pk = kem_derive_key_pair_x25519(external_secret)
    return hpke_base_export_x25519(suite, sk, pk, kem_output, b"", b"MLS 1.0 external init secret", nh(suite))


# ---------------------------------------------------------------------------
# self-test against /repo/mls-rs/test_data
# ---------------------------------------------------------------------------

VECTOR_DIR = "/repo/mls-rs/test_data"


class _Tally:
    """Pass/fail bookkeeping for one vector file."""

    def __init__(self, name):
        self.name = name
        self.passed = 0
        self.failed = 0
        self.notes = []

    def check(self, what, got, want):
        """Compare and record."""
        if got == want:
            self.passed += 1
        else:
            self.failed += 1
            if len(self.notes) < 5:
                self.notes.append("%s: got %s want %s" % (
                    what, got.hex() if isinstance(got, bytes) else got,
                    want.hex() if isinstance(want, bytes) else want))


def load_vectors(name):
    """Load a JSON vector file, or None when absent or empty."""
    import json
    path = os.path.join(VECTOR_DIR, name)
    if not os.path.exists(path) or os.path.getsize(path) == 0:
        return None
    with open(path) as f:
        return json.load(f)


def _h(s):
    """hex -> bytes."""
    return bytes.fromhex(s)


def _test_basic_crypto(t, cases):
    """crypto-basics: RefHash, ExpandWithLabel, DeriveSecret, DeriveTreeSecret."""
    for c in cases:
        s = c["cipher_suite"]
        v = c["ref_hash"]
        t.check("ref_hash/%d" % s, ref_hash(s, v["label"], _h(v["value"])), _h(v["out"]))
        v = c["expand_with_label"]
        t.check("expand_with_label/%d" % s,
                expand_with_label(s, _h(v["secret"]), v["label"], _h(v["context"]), v["length"]),
                _h(v["out"]))
        v = c["derive_secret"]
        t.check("derive_secret/%d" % s, derive_secret(s, _h(v["secret"]), v["label"]), _h(v["out"]))
        v = c["derive_tree_secret"]
        t.check("derive_tree_secret/%d" % s,
                derive_tree_secret(s, _h(v["secret"]), v["label"], v["generation"], v["length"]),
                _h(v["out"]))


def _test_key_schedule(t, cases):
    """key-schedule: every secret of every epoch, the exporter, and external_pub for X25519 suites."""
    names = ("joiner_secret", "welcome_secret", "init_secret", "sender_data_secret",
             "encryption_secret", "exporter_secret", "external_secret", "confirmation_key",
             "membership_key", "resumption_psk", "epoch_authenticator")
    for c in cases:
        s = c["cipher_suite"]
        init = _h(c["initial_init_secret"])
        for n, ep in enumerate(c["epochs"]):
            gc = tls.make_group_context(s, _h(c["group_id"]), n, _h(ep["tree_hash"]),
                                        _h(ep["confirmed_transcript_hash"]))
            t.check("group_context/%d/%d" % (s, n), gc, _h(ep["group_context"]))
            ks = key_schedule_epoch(s, init, _h(ep["commit_secret"]), gc, _h(ep["psk_secret"]))
            for name in names:
                t.check("%s/%d/%d" % (name, s, n), ks[name], _h(ep[name]))
            ex = ep["exporter"]
            t.check("exporter/%d/%d" % (s, n),
                    # the vector's label is a text string (that happens to look like hex)
                    mls_exporter(s, ks["exporter_secret"], ex["label"].encode("ascii"),
                                 _h(ex["context"]), ex["length"]),
                    _h(ex["secret"]))
            pk = kem_derive_public_key(s, ks["external_secret"])
            if pk is not None:
                t.check("external_pub/%d/%d" % (s, n), pk, _h(ep["external_pub"]))
            # joiner path must agree with the committer path
            ks2 = key_schedule_from_joiner(s, ks["joiner_secret"], gc, _h(ep["psk_secret"]))
            t.check("joiner-path/%d/%d" % (s, n), ks2, ks)
            init = ks["init_secret"]


def _test_psk_secret(t, cases):
    """psk_secret: chained external PSKs."""
    for i, c in enumerate(cases):
        s = c["cipher_suite"]
        psks = [(tls.make_external_psk_id(_h(p["id"]), _h(p["nonce"])), _h(p["psk"]))
                for p in c["psks"]]
        t.check("psk_secret[%d]" % i, psk_secret(s, psks), _h(c["psk_secret"]))


def _test_secret_tree_interop(t, cases):
    """secret-tree: sender data key/nonce and per-leaf ratchet keys at the listed generations."""
    for i, c in enumerate(cases):
        s = c["cipher_suite"]
        sd = c["sender_data"]
        key, nonce = sender_data_key_nonce(s, _h(sd["sender_data_secret"]), _h(sd["ciphertext"]))
        t.check("sender_data key[%d]" % i, key, _h(sd["key"]))
        t.check("sender_data nonce[%d]" % i, nonce, _h(sd["nonce"]))
        n_leaves = len(c["leaves"])
        enc = _h(c["encryption_secret"])
        for leaf, gens in enumerate(c["leaves"]):
            for g in gens:
                for ratchet in ("handshake", "application"):
                    key, nonce = message_key_nonce(s, enc, n_leaves, leaf, ratchet, g["generation"])
                    t.check("%s key[%d] leaf %d gen %d" % (ratchet, i, leaf, g["generation"]),
                            key, _h(g[ratchet + "_key"]))
                    t.check("%s nonce[%d] leaf %d gen %d" % (ratchet, i, leaf, g["generation"]),
                            nonce, _h(g[ratchet + "_nonce"]))


def _test_secret_tree_internal(t, cases):
    """mls-rs secret_tree.json: 16 leaves; both lists come from the *handshake* ratchet (generations 0..19, 20..39)."""
    for c in cases:
        s = c["cipher_suite"]
        enc = _h(c["encryption_secret"])
        for leaf, r in enumerate(c["ratchets"]):
            leaf_secret = secret_tree_leaf_secret(s, enc, 16, leaf)
            secret = ratchet_initial_secret(s, leaf_secret, "handshake")
            stream = list(r["application_keys"]) + list(r["handshake_keys"])
            for gen, blob in enumerate(stream):
                key, nonce, secret = ratchet_step(s, secret, gen)
                # MessageKeyData{opaque nonce<V>; opaque key<V>; uint32 generation}
                want = tls.enc_opaque(nonce) + tls.enc_opaque(key) + struct.pack(">I", gen)
                t.check("suite %d leaf %d gen %d" % (s, leaf, gen), want, bytes(blob))


def _test_sender_data_key(t, cases):
    """mls-rs sender_data_key_test_vector.json: key and nonce only (ciphertext needs an AEAD)."""
    for i, c in enumerate(cases):
        s = c["cipher_suite"]
        key, nonce = sender_data_key_nonce(s, _h(c["secret"]), _h(c["ciphertext_bytes"]))
        t.check("key[%d]" % i, key, _h(c["expected_key"]))
        t.check("nonce[%d]" % i, nonce, _h(c["expected_nonce"]))


def _test_transcript(t, cases):
    """transcript-hashes: confirmed/interim hashes and the confirmation tag inside the commit."""
    for c in cases:
        s = c["cipher_suite"]
        blob = _h(c["authenticated_content"])
        confirmed, interim = transcript_hashes_after_commit(
            s, _h(c["interim_transcript_hash_before"]), blob)
        t.check("confirmed/%d" % s, confirmed, _h(c["confirmed_transcript_hash_after"]))
        t.check("interim/%d" % s, interim, _h(c["interim_transcript_hash_after"]))
        ac = tls.parse_exact(tls.parse_authenticated_content, blob)
        t.check("confirmation_tag/%d" % s,
                confirmation_tag(s, _h(c["confirmation_key"]), confirmed),
                ac["auth"]["confirmation_tag"])
        t.check("interim-from-tag/%d" % s,
                interim_transcript_hash_from_tag(s, confirmed, ac["auth"]["confirmation_tag"]),
                _h(c["interim_transcript_hash_after"]))


def _test_refs(t, cases, fn):
    """key_package_ref.json / proposal_ref.json."""
    for i, c in enumerate(cases):
        t.check("ref[%d]" % i, fn(c["cipher_suite"], _h(c["input"])), _h(c["output"]))


def _test_framing(t, cases):
    """message-protection: membership tags of proposal_pub and commit_pub."""
    for c in cases:
        s = c["cipher_suite"]
        gc = tls.make_group_context(s, _h(c["group_id"]), c["epoch"], _h(c["tree_hash"]),
                                    _h(c["confirmed_transcript_hash"]))
        for key in ("proposal_pub", "commit_pub"):
            blob = _h(c[key])
            msg = tls.parse_exact(tls.parse_mls_message, blob)
            t.check("%s/%d" % (key, s),
                    public_message_membership_tag(s, _h(c["membership_key"]), blob, gc),
                    msg["public_message"]["membership_tag"])
        commit = tls.parse_exact(tls.parse_mls_message, _h(c["commit_pub"]))
        t.check("commit_pub carries confirmation_tag/%d" % s,
                commit["public_message"]["auth"]["confirmation_tag"], _h(c["confirmation_tag"]))


def _test_membership_tag_internal(t, cases):
    """mls-rs membership_tag.json: fixed test fixture (empty commit from member 1, key b"membership_key")."""
    for c in cases:
        s = c["cipher_suite"]
        gc = tls.make_group_context(s, b"group", 1, hash_bytes(s, bytes([1, 2, 3])),
                                    hash_bytes(s, bytes([3, 2, 1])))
        content = tls.encode_framed_content({
            "group_id": b"", "epoch": 0,
            "sender": {"sender_type": tls.SENDER_MEMBER, "leaf_index": 1},
            "authenticated_data": b"", "content_type": tls.CONTENT_COMMIT,
            "commit": {"proposals": [], "path": None}})
        tbs = tls.encode_framed_content_tbs(tls.WIRE_PUBLIC_MESSAGE, content, tls.SENDER_MEMBER, gc)
        auth = tls.encode_framed_content_auth_data({"signature": b"", "confirmation_tag": None})
        t.check("tag/%d" % s, membership_tag(s, b"membership_key", tbs, auth), _h(c["tag"]))


def _test_path_secret(t, cases):
    """mls-rs path_secret.json: each generation is DeriveSecret(previous, "path")."""
    for c in cases:
        s = c["cipher_suite"]
        gens = [_h(g) for g in c["generations"]]
        for i in range(1, len(gens)):
            t.check("suite %d gen %d" % (s, i), next_path_secret(s, gens[i - 1]), gens[i])


def _test_tree_math(t, cases):
    """tree-math: root, left, right, parent, sibling for every node."""
    for c in cases:
        n = c["n_leaves"]
        t.check("n_nodes/%d" % n, node_width(n), c["n_nodes"])
        t.check("root/%d" % n, root(n), c["root"])

        def attempt(fn, *args):
            try:
                return fn(*args)
            except ValueError:
                return None
        for x in range(c["n_nodes"]):
            t.check("left/%d/%d" % (n, x), attempt(left, x), c["left"][x])
            t.check("right/%d/%d" % (n, x), attempt(right, x), c["right"][x])
            t.check("parent/%d/%d" % (n, x), attempt(parent, x, n), c["parent"][x])
            t.check("sibling/%d/%d" % (n, x), attempt(sibling, x, n), c["sibling"][x])


def _test_reuse_guard(t, cases):
    """mls-rs reuse_guard.json."""
    for i, c in enumerate(cases):
        t.check("guard[%d]" % i, apply_reuse_guard(bytes(c["nonce"]), bytes(c["guard"])),
                bytes(c["result"]))


def _test_hkdf_rfc5869(t):
    """RFC 5869 appendix A test case 1 (SHA-256) as a sanity anchor."""
    ikm = bytes.fromhex("0b" * 22)
    salt = bytes.fromhex("000102030405060708090a0b0c")
    info = bytes.fromhex("f0f1f2f3f4f5f6f7f8f9")
    prk = kdf_extract(1, salt, ikm)
    t.check("prk", prk, _h("077709362c2e32df0ddc3f0dc47bba6390b6c73bb50f9c3122ec844ad7c2b3e5"))
    t.check("okm", kdf_expand(1, prk, info, 42),
            _h("3cb25f25faacd57a90434f64d0362f2a2d2d0a90cf1a5a4c5db02d56ecc4c5bf34007208d5b887185865"))
    # RFC 7748 section 6.1 X25519 public key of Alice
    t.check("x25519", x25519(_h("77076d0a7318a57d3c16c17251b26645df4c2f87ebc0992ab177fba51db92c2a"),
                             (9).to_bytes(32, "little")),
            _h("8520f0098930a754748b7ddcb43ef75a0dbf3a0d26381af4eba4a98eaa9b4e6a"))


def _self_test():
    """Run every applicable non-empty vector file; exit non-zero on any mismatch."""
    plan = [
        ("basic_crypto.json", _test_basic_crypto),
        ("key_schedule_test_vector.json", _test_key_schedule),
        ("psk_secret.json", _test_psk_secret),
        ("secret_tree_interop.json", _test_secret_tree_interop),
        ("secret_tree.json", _test_secret_tree_internal),
        ("sender_data_key_test_vector.json", _test_sender_data_key),
        ("interop_transcript_hashes.json", _test_transcript),
        ("key_package_ref.json", lambda t, c: _test_refs(t, c, make_key_package_ref)),
        ("proposal_ref.json", lambda t, c: _test_refs(t, c, make_proposal_ref)),
        ("framing.json", _test_framing),
        ("membership_tag.json", _test_membership_tag_internal),
        ("path_secret.json", _test_path_secret),
        ("tree_math.json", _test_tree_math),
        ("reuse_guard.json", _test_reuse_guard),
    ]
    tallies = []
    t = _Tally("(built-in) RFC 5869 A.1 + RFC 7748 6.1")
    _test_hkdf_rfc5869(t)
    tallies.append(t)
    for name, fn in plan:
        cases = load_vectors(name)
        t = _Tally(name)
        if cases is None:
            t.notes.append("absent or empty, skipped")
        else:
            try:
                fn(t, cases)
            except Exception as e:  # noqa: BLE001
                t.failed += 1
                t.notes.append("exception: %r" % (e,))
        tallies.append(t)

    print("kdfref.py self-test (vectors from %s)" % VECTOR_DIR)
    bad = 0
    for t in tallies:
        print("  %-45s pass %6d  fail %3d" % (t.name, t.passed, t.failed))
        for n in t.notes:
            print("      " + n)
        bad += t.failed
    print("not covered here (need signature / HPKE / AEAD primitives outside the stdlib): "
          "signatures.json, basic_crypto.json sign_with_label+encrypt_with_label, "
          "framing.json *_priv decryption, sender_data_key expected_ciphertext, "
          "key_schedule external_pub for non-X25519 suites; "
          "epoch_secret_exporter_test_vector.json is not referenced by any mls-rs test")
    if bad:
        print("FAILED: %d mismatches" % bad)
        sys.exit(1)
    print("all passed")


if __name__ == "__main__":
    _self_test()
