"""C02 offline oracle: every HPKE encryption performed while a commit was built went to an
entitled key. Recipients are recomputed independently (resolution.py) from the exported trees."""
from collections import Counter

import resolution
import tls


def _label(info: bytes) -> str:
    r = tls.Reader(info)
    return r.opaque().decode("latin1")


def run(outs, extra, ctx):
    viol, samples, inc = [], [], []
    distinct = set()
    n = 0
    stats = Counter()
    for shard_events in extra.get("c02_commits", []):
        for ev in shard_events:
            try:
                v = _one(ev, stats, samples)
            except Exception as e:
                inc.append(f"c02_post: checker error on the commit of epoch {ev.get('epoch')}: {e!r}")
                continue
            n += 1
            distinct.add((ev["epoch"], ev["committer_leaf"], len(ev["seals"]), ev["new_tree"][:24]))
            viol.extend(v)
    for k, c in stats.items():
        ctx["counters"]["offline_" + k] = c
    return viol, n, {str(x) for x in distinct}, samples, inc


def _one(ev, stats, samples):
    viol = []
    new_nodes = tls.parse_exact(tls.parse_ratchet_tree, bytes.fromhex(ev["new_tree"]))
    old_nodes = tls.parse_exact(tls.parse_ratchet_tree, bytes.fromhex(ev["old_tree"]))
    path_rcpt, welcome_rcpt, other = [], [], []
    for s in ev["seals"]:
        lab = _label(bytes.fromhex(s["info"]))
        if lab == "MLS 1.0 UpdatePathNode":
            path_rcpt.append(bytes.fromhex(s["pk"]))
        elif lab == "MLS 1.0 Welcome":
            welcome_rcpt.append(bytes.fromhex(s["pk"]))
        else:
            other.append(lab)
    # leaves added by this very commit: those of the new tree that carry the leaf node of one of
    # the added key packages (recomputed here, not taken from the harness' bookkeeping of who
    # managed to join)
    kps = [tls.parse_exact(tls.parse_key_package, bytes.fromhex(k)) for k in ev["added_kps"]]
    kp_leaf_keys = {k["leaf_node"]["encryption_key"] for k in kps}
    full_new = resolution.full_tree(new_nodes)
    added = [i // 2 for i in range(0, len(full_new), 2)
             if full_new[i] is not None and tls.node_encryption_key(full_new[i]) in kp_leaf_keys]
    ev = dict(ev, added_leaves=added)
    stats["commits_checked"] += 1
    where = f"epoch {ev['epoch']} committer leaf {ev['committer_leaf']} external={ev['external']}"
    if ev["has_path"]:
        exp_levels = resolution.expected_path_recipients(new_nodes, ev["committer_leaf"], ev["added_leaves"])
        exp = [k for lvl in exp_levels for k in lvl]
        stats["path_seals_checked"] += len(path_rcpt)
        if Counter(exp) != Counter(path_rcpt):
            extra = list((Counter(path_rcpt) - Counter(exp)).elements())
            missing = list((Counter(exp) - Counter(path_rcpt)).elements())
            what = "path_secret_sealed_to_unentitled_key" if extra else "entitled_key_missing_from_path"
            viol.append(dict(prop="C02", sig=f"C02|{what}",
                             detail=f"{where}: sealed to {len(path_rcpt)} keys, expected {len(exp)}; unexpected={[k.hex()[:16] for k in extra]} missing={[k.hex()[:16] for k in missing]}"))
        # the ciphertext counts announced in the commit's UpdatePath, per level
        msg = tls.parse_exact(tls.parse_mls_message, bytes.fromhex(ev["commit"]))
        pm = msg.get("public_message")
        if pm is not None and pm["content"].get("commit") and pm["content"]["commit"]["path"]:
            counts = [len(n["encrypted_path_secret"]) for n in pm["content"]["commit"]["path"]["nodes"]]
            stats["update_path_levels_checked"] += len(counts)
            if counts != [len(l) for l in exp_levels]:
                viol.append(dict(prop="C02", sig="C02|update_path_ciphertext_counts_differ_from_resolutions",
                                 detail=f"{where}: counts {counts}, resolutions {[len(l) for l in exp_levels]}"))
        # nothing goes to a key that a removed party knew in the old tree
        for r in ev["removed_leaves"]:
            known = set(resolution.keys_known_to_leaf(old_nodes, r))
            stats["removed_members_checked"] += 1
            bad = [k for k in path_rcpt if k in known]
            if bad:
                viol.append(dict(prop="C02", sig="C02|path_secret_sealed_to_key_of_removed_member",
                                 detail=f"{where}: removed leaf {r} knew {[k.hex()[:16] for k in bad]}"))
        # nothing goes to a leaf added in this very commit
        added_keys = {tls.node_encryption_key(resolution.full_tree(new_nodes)[2 * l]) for l in ev["added_leaves"]}
        bad = [k for k in path_rcpt if k in added_keys]
        if bad:
            viol.append(dict(prop="C02", sig="C02|path_secret_sealed_to_newly_added_leaf", detail=f"{where}: {[k.hex()[:16] for k in bad]}"))
    elif path_rcpt:
        viol.append(dict(prop="C02", sig="C02|path_seals_without_path", detail=where))
    # joiner secrets go to the init keys of exactly the added key packages
    init_keys = [k["init_key"] for k in kps]
    stats["welcome_seals_checked"] += len(welcome_rcpt)
    if Counter(init_keys) != Counter(welcome_rcpt):
        viol.append(dict(prop="C02", sig="C02|joiner_secrets_not_sealed_to_exactly_the_added_key_packages",
                         detail=f"{where}: {len(welcome_rcpt)} Welcome seals, {len(init_keys)} added key packages; "
                                f"unexpected={[k.hex()[:16] for k in (Counter(welcome_rcpt) - Counter(init_keys)).elements()]}"))
    if other:
        stats["other_hpke_labels"] += len(other)
    if len(samples) < 2 and ev["has_path"] and path_rcpt:
        samples.append(dict(kind="commit_recipients", epoch=ev["epoch"], committer_leaf=ev["committer_leaf"],
                            path_recipients=len(path_rcpt), welcome_recipients=len(welcome_rcpt),
                            removed_leaves=ev["removed_leaves"], added_leaves=ev["added_leaves"]))
    return viol
