"""C05 offline oracle over the recorded aead_seal events of each history: no two content
encryptions use the same (key, nonce); a key used for application content is never used for
handshake content. Classification is by the AAD structure (RFC 9420 section 6.3):
PrivateContentAAD = group_id<V> epoch(8) content_type(1) authenticated_data<V>,
SenderDataAAD = group_id<V> epoch(8) content_type(1); no AAD = Welcome / GroupInfo encryption."""
import tls


def classify(aad: bytes):
    if not aad:
        return ("welcome", None)
    try:
        r = tls.Reader(aad)
        r.opaque()
        epoch = r.u64()
        ct = r.u8()
        if r.remaining() == 0:
            return ("sender_data", ct)
        r.opaque()
        if r.remaining() == 0 and ct in (1, 2, 3):
            return ("content", (epoch, ct))
    except Exception:
        pass
    return ("other", None)


def run(outs, extra, ctx):
    viol, samples, inc = [], [], []
    distinct = set()
    n = 0
    stats = dict(content_seals=0, sender_data_seals=0, welcome_seals=0, other_seals=0, histories=0,
                 repeated_keys_with_distinct_nonce=0, application_keys=0, handshake_keys=0)
    for shard_events in extra.get("c05_seals", []):
        for hist in shard_events:
            stats["histories"] += 1
            pairs = {}
            key_types = {}
            keys_seen = {}
            for key_h, nonce_h, aad_h, who in hist["seals"]:
                kind, info = classify(bytes.fromhex(aad_h))
                if kind == "sender_data":
                    stats["sender_data_seals"] += 1
                    continue
                if kind == "welcome":
                    stats["welcome_seals"] += 1
                    continue
                if kind != "content":
                    stats["other_seals"] += 1
                    continue
                stats["content_seals"] += 1
                n += 1
                epoch, ct = info
                typ = "application" if ct == 1 else "handshake"
                distinct.add((hist["shard"], hist["history"], epoch, typ, who))
                pk = (key_h, nonce_h)
                if pk in pairs:
                    viol.append(dict(prop="C05", sig=f"C05|key_nonce_pair_reused|{typ}",
                                     detail=f"shard {hist['shard']} history {hist['history']} epoch {epoch}: member {who} sealed with a (key, nonce) "
                                            f"pair already used by member {pairs[pk][0]} in epoch {pairs[pk][1]} (key {key_h[:16]}.. nonce {nonce_h})"))
                pairs[pk] = (who, epoch)
                if key_h in keys_seen:
                    stats["repeated_keys_with_distinct_nonce"] += 1
                keys_seen[key_h] = True
                prev = key_types.setdefault(key_h, typ)
                if prev != typ:
                    viol.append(dict(prop="C05", sig="C05|key_shared_between_application_and_handshake",
                                     detail=f"shard {hist['shard']} history {hist['history']} epoch {epoch}: key {key_h[:16]}.. used for both"))
            stats["application_keys"] += sum(1 for v in key_types.values() if v == "application")
            stats["handshake_keys"] += sum(1 for v in key_types.values() if v == "handshake")
            if len(samples) < 2 and hist["seals"]:
                k, nn, aad, who = hist["seals"][-1]
                samples.append(dict(kind="aead_seal_event", member=who, key_prefix=k[:16], nonce=nn, aad_class=classify(bytes.fromhex(aad))[0]))
    for k, v in stats.items():
        ctx["counters"]["offline_" + k] = v
    return viol, n, {str(x) for x in distinct}, samples, inc
