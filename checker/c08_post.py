"""C08 offline oracle: the tree hash in the group context equals the hash recomputed from scratch
from the exported nodes by an independent implementation (treehash.py), and the exported tree
passes the independent structural and parent-hash checks."""
import tls
import treehash


def run(outs, extra, ctx):
    viol, samples, inc = [], [], []
    distinct = set()
    n = 0
    for shard_events in extra.get("c08_trees", []):
        for ev in shard_events:
            n += 1
            tree = bytes.fromhex(ev["tree"])
            suite = ev["suite"]
            try:
                want, _ = tls.read_varint(bytes.fromhex(ev["tree_hash_enc"]))
                enc = bytes.fromhex(ev["tree_hash_enc"])
                r = tls.Reader(enc)
                want = r.opaque()
                got, problems = treehash.check_tree(tree, suite)
            except Exception as e:  # the checker itself failed: not a verdict about the library
                inc.append(f"c08_post: checker error on a tree of epoch {ev.get('epoch')}: {e!r}")
                continue
            distinct.add("tree:" + ev["tree"][:32] + str(len(tree)))
            if got != want:
                viol.append(dict(prop="C08", sig=f"C08|context_tree_hash_differs_from_independent_recomputation|{ev['role']}",
                                 detail=f"epoch {ev['epoch']} suite {suite}: context {want.hex()} recomputed {got.hex() if got else None} tree={ev['tree'][:400]}"))
            for p in problems:
                kind = p.split(":")[0][:60].replace(" ", "_")
                viol.append(dict(prop="C08", sig=f"C08|independent_tree_check|{kind}",
                                 detail=f"epoch {ev['epoch']} suite {suite} ({ev['role']}): {p}; tree={ev['tree'][:400]}"))
            if len(samples) < 2:
                samples.append(dict(kind="tree_hash_recomputed", suite=suite, epoch=ev["epoch"], nodes_bytes=len(tree),
                                    tree_hash=want.hex(), equal=(got == want)))
    ctx["counters"]["offline_tree_hashes_recomputed"] = n
    return viol, n, distinct, samples, inc
