#!/usr/bin/env python3
"""Resolution, direct path, copath and filtered direct path of RFC 9420.

All functions work on a *parsed ratchet tree*: the list produced by
tls.parse_ratchet_tree (None for a blank node, otherwise a Node dict).
The list may be the truncated export (no trailing blanks); every function
pads it to the full 2^k-leaf array first.  Node indices are array indices
(leaf L is node 2*L) as in RFC 9420 appendix C.
"""

import os
import sys

sys.path.insert(0, os.path.dirname(os.path.abspath(__file__)))
import tls  # noqa: E402
import kdfref  # noqa: E402  (only the tree math is used)


def leaf_count(nodes):
    """Leaf count of the full tree that holds this (possibly truncated) node list (RFC 9420 section 7.4.1)."""
    if len(nodes) == 0:
        raise ValueError("empty ratchet tree")
    return kdfref.leaf_count_for_nodes(len(nodes))


def full_tree(nodes):
    """Copy of the node list extended with blanks to the full 2n-1 width (RFC 9420 section 12.4.3.3)."""
    width = kdfref.node_width(leaf_count(nodes))
    return list(nodes) + [None] * (width - len(nodes))


def is_leaf_index(x):
    """Leaves sit at even array positions (RFC 9420 appendix C)."""
    return x % 2 == 0


def subtree_leaves(x):
    """Leaf indices (not node indices) below node x, in order (RFC 9420 appendix C)."""
    span = (1 << kdfref.level(x)) - 1
    return list(range((x - span) // 2, (x + span) // 2 + 1))


def unmerged_leaves_of(node):
    """unmerged_leaves of a parsed Node; empty for leaves and blanks (RFC 9420 section 7.1)."""
    if node is None or node["node_type"] != tls.NODE_PARENT:
        return []
    return list(node["parent_node"]["unmerged_leaves"])


def resolution(nodes, x, excluded_leaves=()):
    """Resolution of node x as an ordered list of node indices, optionally dropping some leaves (RFC 9420 section 4.1.1)."""
    tree = full_tree(nodes)
    excluded_nodes = set(2 * leaf for leaf in excluded_leaves)
    return [i for i in resolution_in_full_tree(tree, x) if i not in excluded_nodes]


def resolution_in_full_tree(tree, x):
    """Recursive resolution on an already padded tree (RFC 9420 section 4.1.1)."""
    node = tree[x]
    if node is not None:
        return [x] + [2 * leaf for leaf in unmerged_leaves_of(node)]
    if is_leaf_index(x):
        return []
    return resolution_in_full_tree(tree, kdfref.left(x)) + resolution_in_full_tree(tree, kdfref.right(x))


def direct_path(nodes, leaf):
    """Direct path of a leaf: node indices from its parent up to the root (RFC 9420 section 4.1.2)."""
    return kdfref.direct_path(2 * leaf, leaf_count(nodes))


def copath(nodes, leaf):
    """Copath of a leaf: sibling of the leaf, then sibling of each direct-path node below the root (RFC 9420 section 4.1.2)."""
    return kdfref.copath(2 * leaf, leaf_count(nodes))


def filtered_direct_path(nodes, leaf):
    """Filtered direct path as (path_node, copath_node) pairs: drop levels whose copath child has an empty resolution (RFC 9420 sections 4.1.2, 7.5)."""
    tree = full_tree(nodes)
    n = leaf_count(nodes)
    pairs = zip(kdfref.direct_path(2 * leaf, n), kdfref.copath(2 * leaf, n))
    return [(p, c) for p, c in pairs if len(resolution_in_full_tree(tree, c)) > 0]


def expected_path_recipients(new_tree_nodes, committer_leaf, excluded_leaves=()):
    """Per filtered-path level, the HPKE public keys the committer must encrypt the path secret to (RFC 9420 sections 7.5, 12.4.2)."""
    tree = full_tree(new_tree_nodes)
    excluded_nodes = set(2 * leaf for leaf in excluded_leaves)
    out = []
    for _path_node, copath_node in filtered_direct_path(tree, committer_leaf):
        keys = []
        for i in resolution_in_full_tree(tree, copath_node):
            if i in excluded_nodes:
                continue
            keys.append(tls.node_encryption_key(tree[i]))
        out.append(keys)
    return out


def expected_path_recipient_nodes(new_tree_nodes, committer_leaf, excluded_leaves=()):
    """Same as expected_path_recipients but returning (path_node, copath_node, [resolution node indices]) (RFC 9420 section 12.4.2)."""
    tree = full_tree(new_tree_nodes)
    excluded_nodes = set(2 * leaf for leaf in excluded_leaves)
    out = []
    for path_node, copath_node in filtered_direct_path(tree, committer_leaf):
        res = [i for i in resolution_in_full_tree(tree, copath_node) if i not in excluded_nodes]
        out.append((path_node, copath_node, res))
    return out


def keys_known_to_leaf(tree_nodes, leaf):
    """Public keys whose private halves the member at `leaf` should hold: its own leaf key and each non-blank direct-path node that does not list it as unmerged (RFC 9420 sections 4.2, 7.1)."""
    tree = full_tree(tree_nodes)
    if tree[2 * leaf] is None:
        return []
    keys = [tls.node_encryption_key(tree[2 * leaf])]
    for p in direct_path(tree, leaf):
        node = tree[p]
        if node is None:
            continue
        if leaf in unmerged_leaves_of(node):
            continue
        keys.append(tls.node_encryption_key(node))
    return keys


def non_blank_leaves(nodes):
    """Leaf indices of all occupied leaves (RFC 9420 section 4.1)."""
    return [i // 2 for i in range(0, len(nodes), 2) if nodes[i] is not None]


# ---------------------------------------------------------------------------
# self-test
# ---------------------------------------------------------------------------

def _figure_tree():
    """A hand-made 8-leaf tree mirroring RFC 9420 figure 11 style: blanks, an unmerged leaf."""
    def leaf(tag):
        return {"node_type": tls.NODE_LEAF,
                "leaf_node": {"encryption_key": b"L" + tag}}

    def par(tag, unmerged=()):
        return {"node_type": tls.NODE_PARENT,
                "parent_node": {"encryption_key": b"P" + tag, "parent_hash": b"",
                                "unmerged_leaves": list(unmerged)}}
    #         7
    #     3       11(blank)
    #   1   5(b)  9(b)  13
    #  0 2  4 6  8 10  12 14       leaf 1 (node 2) blank, leaf 3 (node 6) unmerged at 3
    tree = [None] * 15
    tree[0] = leaf(b"0")
    tree[4] = leaf(b"2")
    tree[6] = leaf(b"3")
    tree[8] = leaf(b"4")
    tree[12] = leaf(b"6")
    tree[14] = leaf(b"7")
    tree[1] = par(b"1")
    tree[3] = par(b"3", [3])
    tree[7] = par(b"7", [3])
    tree[13] = par(b"13")
    return tree


def _self_test():
    """Hand-made cases plus the resolutions / update paths of the interop vectors."""
    failures = []
    report = []

    def check(what, got, want):
        if got != want:
            failures.append("%s: got %r want %r" % (what, got, want))

    tree = _figure_tree()
    check("res 7", resolution(tree, 7), [7, 6])
    check("res 3", resolution(tree, 3), [3, 6])
    check("res 5", resolution(tree, 5), [4, 6])
    check("res 2", resolution(tree, 2), [])
    check("res 11", resolution(tree, 11), [8, 13])
    check("res 9", resolution(tree, 9), [8])
    check("res 10", resolution(tree, 10), [])
    check("res 11 minus leaf 4", resolution(tree, 11, [4]), [13])
    check("dp leaf 0", direct_path(tree, 0), [1, 3, 7])
    check("cp leaf 0", copath(tree, 0), [2, 5, 11])
    check("fdp leaf 0", filtered_direct_path(tree, 0), [(3, 5), (7, 11)])
    check("fdp leaf 4", filtered_direct_path(tree, 4), [(11, 13), (7, 3)])
    check("recipients leaf 0", expected_path_recipients(tree, 0),
          [[b"L2", b"L3"], [b"L4", b"P13"]])
    check("recipients leaf 0 excl 3,4", expected_path_recipients(tree, 0, [3, 4]),
          [[b"L2"], [b"P13"]])
    check("known leaf 3", keys_known_to_leaf(tree, 3), [b"L3"])
    check("known leaf 0", keys_known_to_leaf(tree, 0), [b"L0", b"P1", b"P3", b"P7"])
    check("known leaf 6", keys_known_to_leaf(tree, 6), [b"L6", b"P13", b"P7"])
    check("known blank leaf", keys_known_to_leaf(tree, 1), [])
    check("truncated tree pads", leaf_count(tree[:9]), 8)
    check("subtree leaves 11", subtree_leaves(11), [4, 5, 6, 7])
    report.append(("hand-made 8-leaf tree", 20))

    cases = kdfref.load_vectors("interop_tree_validation.json")
    if cases is not None:
        count = 0
        for i, c in enumerate(cases):
            nodes = tls.parse_exact(tls.parse_ratchet_tree, bytes.fromhex(c["tree"]))
            width = kdfref.node_width(leaf_count(nodes))
            check("tree_validation[%d] width" % i, width, len(c["resolutions"]))
            for x, want in enumerate(c["resolutions"]):
                check("tree_validation[%d] resolution(%d)" % (i, x), resolution(nodes, x), want)
                count += 1
        report.append(("interop_tree_validation.json resolutions", count))

    cases = kdfref.load_vectors("interop_tree_kem.json")
    if cases is not None:
        count = 0
        secrets_checked = 0
        for i, c in enumerate(cases):
            suite = c["cipher_suite"]
            nodes = tls.parse_exact(tls.parse_ratchet_tree, bytes.fromhex(c["ratchet_tree"]))
            n = leaf_count(nodes)
            for j, up in enumerate(c["update_paths"]):
                path = tls.parse_exact(tls.parse_update_path, bytes.fromhex(up["update_path"]))
                sender = up["sender"]
                want = expected_path_recipients(nodes, sender)
                tag = "tree_kem[%d].update_paths[%d]" % (i, j)
                check(tag + " filtered path length", len(path["nodes"]), len(want))
                check(tag + " ciphertext counts",
                      [len(pn["encrypted_path_secret"]) for pn in path["nodes"]],
                      [len(keys) for keys in want])
                count += 1
                # path secrets: the secret a leaf learns sits at the first filtered path node
                # above it; walking up the *filtered* path and one step more gives commit_secret.
                fdp = [p for p, _c in filtered_direct_path(nodes, sender)]
                for leaf, ps in enumerate(up["path_secrets"]):
                    if ps is None:
                        continue
                    secret = bytes.fromhex(ps)
                    ancestors = set(kdfref.direct_path(2 * leaf, n))
                    at = [k for k, p in enumerate(fdp) if p in ancestors]
                    if not at:
                        failures.append(tag + " leaf %d has no common filtered ancestor" % leaf)
                        continue
                    pk = kdfref.kem_derive_public_key(suite, kdfref.node_secret(suite, secret))
                    if pk is not None:
                        check(tag + " node key from path secret (leaf %d)" % leaf,
                              pk, path["nodes"][at[0]]["encryption_key"])
                    for _ in range(at[0], len(fdp)):
                        secret = kdfref.next_path_secret(suite, secret)
                    check(tag + " commit_secret via leaf %d" % leaf,
                          secret, bytes.fromhex(up["commit_secret"]))
                    secrets_checked += 1
        report.append(("interop_tree_kem.json update-path shapes", count))
        report.append(("interop_tree_kem.json path-secret -> commit_secret chains", secrets_checked))

    print("resolution.py self-test")
    for name, count in report:
        print("  %-60s %6d checks" % (name, count))
    if failures:
        print("FAILURES: %d" % len(failures))
        for f in failures[:30]:
            print("  " + f)
        sys.exit(1)
    print("all passed")


if __name__ == "__main__":
    _self_test()
