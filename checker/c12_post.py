"""C12 confirmation step: inputs that a shard found slow twice (more than 2 s of CPU for at most
64 KiB) are decoded again, alone, after all shards have finished. Only a slowness that reproduces
on the otherwise idle machine is a violation; a re-measurement that cannot be carried out is
inconclusive."""
import os
import re
import subprocess

ROOT = os.path.dirname(os.path.dirname(os.path.abspath(__file__)))
BIN = os.path.join(ROOT, "harness", "target", "release", "mlsverif")
WORK = os.path.join(ROOT, "work")
LIMIT = 2.0


def run(outs, extra, ctx):
    viol, samples, inc = [], [], []
    seen = set()
    n = 0
    for shard_list in extra.get("c12_slow_candidates", []):
        for c in shard_list:
            key = (c["kind"], c["input"][:200], len(c["input"]))
            if key in seen or len(seen) >= 24:
                continue
            seen.add(key)
            path = os.path.join(WORK, f"C12.slow.{len(seen)}.hex")
            with open(path, "w") as f:
                f.write(c["input"])
            try:
                p = subprocess.run([BIN, "PROBE", c["kind"], path], stdout=subprocess.PIPE, stderr=subprocess.PIPE, text=True, timeout=300)
            except subprocess.TimeoutExpired:
                inc.append(f"c12_post: re-measuring a slow {c['kind']} input ({len(c['input']) // 2} bytes) did not finish in 300 s")
                continue
            times = [float(x) for x in re.findall(r": ([0-9.]+) s,", p.stdout)]
            if p.returncode != 0 or not times:
                inc.append(f"c12_post: re-measurement failed rc={p.returncode}: {p.stderr[-200:]}")
                continue
            n += 1
            if min(times) > LIMIT:
                viol.append(dict(prop="C12", sig=f"C12|slow|{c['kind']}",
                                 detail=f"decoding {len(c['input']) // 2} bytes as {c['kind']} ({c['class']}) takes {min(times):.2f} s "
                                        f"alone on the idle machine (in the shard: {c['secs']:.2f} s twice); input={c['input'][:4000]}"))
            else:
                ctx["counters"]["slow_candidates_not_confirmed"] = ctx["counters"].get("slow_candidates_not_confirmed", 0) + 1
                if len(samples) < 1:
                    samples.append(dict(kind="slow_candidate_not_confirmed", wire_type=c["kind"], bytes=len(c["input"]) // 2,
                                        in_shard_secs=round(c["secs"], 2), alone_secs=min(times)))
    return viol, n, {f"slow-recheck-{i}" for i in range(n)}, samples, inc
