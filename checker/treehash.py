#!/usr/bin/env python3
"""Tree hash, parent hash and structural checks of RFC 9420 section 7.

Works on the parsed ratchet tree produced by tls.parse_ratchet_tree (list of
None / Node dict).  The list may be the truncated export produced by the
library (ExportedTree::to_bytes() is `optional<Node> nodes<V>` with the
trailing blanks stripped); it is padded with blanks to the full 2^k-leaf
width before hashing.  Hashing uses hashlib only and re-encodes every node
with the encoders of tls.py (it never reuses the input byte ranges).
"""

import os
import sys

sys.path.insert(0, os.path.dirname(os.path.abspath(__file__)))
import tls  # noqa: E402
import kdfref  # noqa: E402
import resolution as res  # noqa: E402


# ---------------------------------------------------------------------------
# tree hash (RFC 9420 section 7.8)
# ---------------------------------------------------------------------------

def leaf_node_hash_input(leaf_index, leaf_node):
    """TreeHashInput{leaf; LeafNodeHashInput{uint32 leaf_index; optional<LeafNode>}} (RFC 9420 section 7.8)."""
    body = None if leaf_node is None else tls.encode_leaf_node(leaf_node)
    return tls.enc_u8(tls.NODE_LEAF) + tls.enc_u32(leaf_index) + tls.enc_optional(body)


def parent_node_hash_input(parent_node, left_hash, right_hash):
    """TreeHashInput{parent; ParentNodeHashInput{optional<ParentNode>; left_hash<V>; right_hash<V>}} (RFC 9420 section 7.8)."""
    body = None if parent_node is None else tls.encode_parent_node(parent_node)
    return (tls.enc_u8(tls.NODE_PARENT) + tls.enc_optional(body)
            + tls.enc_opaque(left_hash) + tls.enc_opaque(right_hash))


def _check_kind(tree, x):
    """A leaf position must hold a leaf node and a parent position a parent node (RFC 9420 appendix C)."""
    node = tree[x]
    if node is None:
        return
    want = tls.NODE_LEAF if res.is_leaf_index(x) else tls.NODE_PARENT
    if node["node_type"] != want:
        raise ValueError("node %d has node_type %d at a %s position"
                         % (x, node["node_type"], "leaf" if want == tls.NODE_LEAF else "parent"))


def _subtree_hash(tree, x, suite, excluded, out):
    """Hash of the subtree rooted at x of a padded tree; `excluded` leaves are treated as blank and unmerged-list entries for them dropped (RFC 9420 sections 7.8, 7.9)."""
    _check_kind(tree, x)
    node = tree[x]
    if res.is_leaf_index(x):
        leaf_index = x // 2
        leaf = None
        if node is not None and leaf_index not in excluded:
            leaf = node["leaf_node"]
        digest = kdfref.hash_bytes(suite, leaf_node_hash_input(leaf_index, leaf))
    else:
        left_hash = _subtree_hash(tree, kdfref.left(x), suite, excluded, out)
        right_hash = _subtree_hash(tree, kdfref.right(x), suite, excluded, out)
        parent = None
        if node is not None:
            parent = dict(node["parent_node"])
            parent["unmerged_leaves"] = [u for u in parent["unmerged_leaves"] if u not in excluded]
        digest = kdfref.hash_bytes(suite, parent_node_hash_input(parent, left_hash, right_hash))
    if out is not None:
        out[x] = digest
    return digest


def subtree_hash(nodes, x, suite, excluded_leaves=()):
    """Tree hash of the subtree rooted at node x, optionally with some leaves removed (RFC 9420 sections 7.8, 7.9)."""
    return _subtree_hash(res.full_tree(nodes), x, suite, frozenset(excluded_leaves), None)


def all_tree_hashes(nodes, suite):
    """List with the tree hash of every node of the padded tree, indexed by node index (RFC 9420 section 7.8)."""
    tree = res.full_tree(nodes)
    out = {}
    _subtree_hash(tree, kdfref.root(res.leaf_count(tree)), suite, frozenset(), out)
    return [out[i] for i in range(len(tree))]


def tree_hash_of_nodes(nodes, suite):
    """Tree hash of the whole tree = hash of its root node (RFC 9420 section 7.8)."""
    tree = res.full_tree(nodes)
    return _subtree_hash(tree, kdfref.root(res.leaf_count(tree)), suite, frozenset(), None)


def tree_hash(nodes_bytes, suite):
    """Tree hash from exported-tree bytes (`optional<Node> ratchet_tree<V>`, e.g. mls-rs ExportedTree::to_bytes()) (RFC 9420 sections 7.8, 12.4.3.3)."""
    nodes = tls.parse_exact(tls.parse_ratchet_tree, nodes_bytes)
    return tree_hash_of_nodes(nodes, suite)


# ---------------------------------------------------------------------------
# parent hash (RFC 9420 section 7.9)
# ---------------------------------------------------------------------------

def parent_hash_input(encryption_key, parent_hash, original_sibling_tree_hash):
    """ParentHashInput{HPKEPublicKey encryption_key; opaque parent_hash<V>; opaque original_sibling_tree_hash<V>} (RFC 9420 section 7.9)."""
    return (tls.enc_opaque(encryption_key) + tls.enc_opaque(parent_hash)
            + tls.enc_opaque(original_sibling_tree_hash))


def parent_hash_of(nodes, p, s, suite):
    """Parent hash of parent node p with copath child s: sibling hash taken with p's unmerged leaves removed (RFC 9420 section 7.9)."""
    tree = res.full_tree(nodes)
    parent = tree[p]["parent_node"]
    sibling_hash = _subtree_hash(tree, s, suite, frozenset(parent["unmerged_leaves"]), None)
    return kdfref.hash_bytes(suite, parent_hash_input(parent["encryption_key"],
                                                     parent["parent_hash"], sibling_hash))


def stored_parent_hash(node):
    """parent_hash carried by a node: ParentNode.parent_hash, or LeafNode.parent_hash for commit-sourced leaves, else None (RFC 9420 sections 7.1, 7.2)."""
    if node is None:
        return None
    if node["node_type"] == tls.NODE_PARENT:
        return node["parent_node"]["parent_hash"]
    leaf = node["leaf_node"]
    if leaf["leaf_node_source"] == tls.LEAF_SOURCE_COMMIT:
        return leaf["parent_hash"]
    return None


def verify_parent_hashes(nodes, suite):
    """Check that every non-blank parent node is parent-hash valid w.r.t. some descendant; returns a list of problem strings (RFC 9420 section 7.9.2)."""
    problems = []
    tree = res.full_tree(nodes)
    for p in range(1, len(tree), 2):
        node = tree[p]
        if node is None:
            continue
        if node["node_type"] != tls.NODE_PARENT:
            problems.append("node %d: leaf node stored at a parent position" % p)
            continue
        unmerged = set(node["parent_node"]["unmerged_leaves"])
        valid = False
        for c, s in ((kdfref.left(p), kdfref.right(p)), (kdfref.right(p), kdfref.left(p))):
            # candidate chain goes down through child c; s is the copath child
            resolution_c = res.resolution_in_full_tree(tree, c)
            if not resolution_c:
                continue
            expected = parent_hash_of(tree, p, s, suite)
            under_c = set(2 * leaf for leaf in res.subtree_leaves(c) if leaf in unmerged)
            for d in resolution_c:
                if stored_parent_hash(tree[d]) != expected:
                    continue
                # D in resolution(C), and P.unmerged under C == resolution(C) minus D
                if set(resolution_c) - {d} == under_c:
                    valid = True
                    break
            if valid:
                break
        if not valid:
            problems.append("node %d: not parent-hash valid with respect to any descendant" % p)
    return problems


# ---------------------------------------------------------------------------
# structural checks (RFC 9420 sections 7.1, 7.3, 12.4.3.3)
# ---------------------------------------------------------------------------

def structural_problems(nodes, check_unique_keys=True):
    """Structural checks on an exported tree: no trailing blank, node kinds by position, well-formed unmerged_leaves, unique leaf keys (RFC 9420 sections 7.3, 12.4.3.3)."""
    problems = []
    if len(nodes) == 0:
        return ["tree is empty"]
    if nodes[-1] is None:
        problems.append("last node of the exported tree is blank (trailing blanks must be stripped)")
    tree = res.full_tree(nodes)
    for x, node in enumerate(tree):
        if node is None:
            continue
        if res.is_leaf_index(x) and node["node_type"] != tls.NODE_LEAF:
            problems.append("node %d: parent node at an even (leaf) position" % x)
        if not res.is_leaf_index(x) and node["node_type"] != tls.NODE_PARENT:
            problems.append("node %d: leaf node at an odd (parent) position" % x)
    n = res.leaf_count(tree)
    for p in range(1, len(tree), 2):
        node = tree[p]
        if node is None or node["node_type"] != tls.NODE_PARENT:
            continue
        unmerged = node["parent_node"]["unmerged_leaves"]
        for a, b in zip(unmerged, unmerged[1:]):
            if a == b:
                problems.append("node %d: duplicate unmerged leaf %d" % (p, a))
            elif a > b:
                problems.append("node %d: unmerged_leaves not sorted (%d before %d)" % (p, a, b))
        below = set(res.subtree_leaves(p))
        for leaf in unmerged:
            if leaf not in below:
                problems.append("node %d: unmerged leaf %d is not a descendant" % (p, leaf))
                continue
            held = tree[2 * leaf]
            if held is None or held["node_type"] != tls.NODE_LEAF:
                problems.append("node %d: unmerged leaf %d is blank" % (p, leaf))
                continue
            # every non-blank parent between the leaf and p must list the leaf too
            for mid in kdfref.direct_path(2 * leaf, n):
                if mid == p:
                    break
                between = tree[mid]
                if between is not None and between["node_type"] == tls.NODE_PARENT \
                        and leaf not in between["parent_node"]["unmerged_leaves"]:
                    problems.append("node %d: unmerged leaf %d missing from intermediate node %d"
                                    % (p, leaf, mid))
    if check_unique_keys:
        seen_enc = {}
        seen_sig = {}
        for x in range(0, len(tree), 2):
            node = tree[x]
            if node is None or node["node_type"] != tls.NODE_LEAF:
                continue
            leaf = node["leaf_node"]
            if leaf["encryption_key"] in seen_enc:
                problems.append("leaves %d and %d share an encryption_key"
                                % (seen_enc[leaf["encryption_key"]], x // 2))
            seen_enc.setdefault(leaf["encryption_key"], x // 2)
            if leaf["signature_key"] in seen_sig:
                problems.append("leaves %d and %d share a signature_key"
                                % (seen_sig[leaf["signature_key"]], x // 2))
            seen_sig.setdefault(leaf["signature_key"], x // 2)
    return problems


def check_tree(nodes_bytes, suite, check_unique_keys=True):
    """Parse exported-tree bytes and return (tree_hash, problems) from all checks in this module (RFC 9420 section 12.4.3.3)."""
    nodes = tls.parse_exact(tls.parse_ratchet_tree, nodes_bytes)
    problems = structural_problems(nodes, check_unique_keys)
    kinds_ok = not any("position" in p for p in problems)
    if not kinds_ok:
        return None, problems
    problems += verify_parent_hashes(nodes, suite)
    return tree_hash_of_nodes(nodes, suite), problems


# ---------------------------------------------------------------------------
# applying an UpdatePath to the public tree (RFC 9420 sections 7.5, 7.9, 12.4.2)
# ---------------------------------------------------------------------------

def apply_update_path(nodes, sender_leaf, update_path, suite):
    """Public-tree effect of a commit path: returns (new padded tree, expected leaf parent_hash); `nodes` must already have the commit's proposals applied (RFC 9420 sections 7.5, 7.9, 12.4.2)."""
    tree = res.full_tree(nodes)
    n = res.leaf_count(tree)
    filtered = res.filtered_direct_path(tree, sender_leaf)
    if len(filtered) != len(update_path["nodes"]):
        raise ValueError("UpdatePath has %d nodes, filtered direct path has %d"
                         % (len(update_path["nodes"]), len(filtered)))
    # blank the whole direct path, then fill the filtered nodes with the new keys
    for p in kdfref.direct_path(2 * sender_leaf, n):
        tree[p] = None
    for (p, _c), path_node in zip(filtered, update_path["nodes"]):
        tree[p] = {"node_type": tls.NODE_PARENT,
                   "parent_node": {"encryption_key": path_node["encryption_key"],
                                   "parent_hash": b"", "unmerged_leaves": []}}
    # parent hashes run from the root end of the filtered path down to the leaf
    carried = b""
    for p, c in reversed(filtered):
        tree[p]["parent_node"]["parent_hash"] = carried
        carried = parent_hash_of(tree, p, c, suite)
    tree[2 * sender_leaf] = {"node_type": tls.NODE_LEAF, "leaf_node": update_path["leaf_node"]}
    return tree, carried


def strip_trailing_blanks(tree):
    """Exported form of a padded tree: drop blank nodes after the last non-blank one (RFC 9420 section 12.4.3.3)."""
    end = len(tree)
    while end > 0 and tree[end - 1] is None:
        end -= 1
    return list(tree[:end])


# ---------------------------------------------------------------------------
# self-test
# ---------------------------------------------------------------------------

def _self_test():
    """Tree-hash, parent-hash and update-path vectors under /repo/mls-rs/test_data."""
    import copy

    tallies = []

    class Tally:
        def __init__(self, name):
            self.name, self.passed, self.failed, self.notes = name, 0, 0, []
            tallies.append(self)

        def check(self, what, got, want):
            if got == want:
                self.passed += 1
            else:
                self.failed += 1
                if len(self.notes) < 6:
                    show = lambda v: v.hex() if isinstance(v, bytes) else repr(v)  # noqa: E731
                    self.notes.append("%s: got %s want %s" % (what, show(got), show(want)))

    h = bytes.fromhex

    cases = kdfref.load_vectors("tree_hash.json")
    t = Tally("tree_hash.json")
    if cases is None:
        t.notes.append("absent or empty, skipped")
    else:
        for c in cases:
            s = c["cipher_suite"]
            t.check("tree_hash/%d" % s, tree_hash(h(c["tree_data"]), s), h(c["tree_hash"]))
            digest, problems = check_tree(h(c["tree_data"]), s)
            t.check("check_tree digest/%d" % s, digest, h(c["tree_hash"]))
            # The fixture (get_test_tree_fig_12) has hand-set unmerged lists and key_package
            # leaves, so it is *not* parent-hash valid; only structure is expected to be clean.
            t.check("structure/%d" % s, [p for p in problems if "parent-hash" not in p], [])
            t.check("fixture is reported parent-hash invalid/%d" % s,
                    any("parent-hash" in p for p in problems), True)

    cases = kdfref.load_vectors("parent_hash.json")
    t = Tally("parent_hash.json (same fixture; structure only)")
    if cases is None:
        t.notes.append("absent or empty, skipped")
    else:
        for c in cases:
            s = c["cipher_suite"]
            nodes = tls.parse_exact(tls.parse_ratchet_tree, h(c["tree_data"]))
            t.check("structure/%d" % s, structural_problems(nodes), [])

    cases = kdfref.load_vectors("interop_tree_validation.json")
    t = Tally("interop_tree_validation.json")
    tn = Tally("interop_tree_validation.json (tamper detection)")
    if cases is None:
        t.notes.append("absent or empty, skipped")
    else:
        for i, c in enumerate(cases):
            s = c["cipher_suite"]
            blob = h(c["tree"])
            nodes = tls.parse_exact(tls.parse_ratchet_tree, blob)
            hashes = all_tree_hashes(nodes, s)
            t.check("[%d] hash count" % i, len(hashes), len(c["tree_hashes"]))
            for x, want in enumerate(c["tree_hashes"]):
                t.check("[%d] tree_hashes[%d]" % (i, x), hashes[x], h(want))
            t.check("[%d] root via tree_hash()" % i, tree_hash(blob, s),
                    h(c["tree_hashes"][kdfref.root(res.leaf_count(nodes))]))
            t.check("[%d] parent hashes" % i, verify_parent_hashes(nodes, s), [])
            t.check("[%d] structure" % i, structural_problems(nodes), [])
            # negative: corrupt one parent node's key / one commit leaf's parent_hash
            parents = [x for x in range(1, len(nodes), 2) if nodes[x] is not None]
            if parents:
                bad = copy.deepcopy(nodes)
                pn = bad[parents[0]]["parent_node"]
                pn["encryption_key"] = bytes([pn["encryption_key"][0] ^ 1]) + pn["encryption_key"][1:]
                tn.check("[%d] flipped key of node %d detected" % (i, parents[0]),
                         len(verify_parent_hashes(bad, s)) > 0, True)
                bad = copy.deepcopy(nodes)
                bad[parents[-1]]["parent_node"]["unmerged_leaves"] = \
                    list(reversed(sorted(set(bad[parents[-1]]["parent_node"]["unmerged_leaves"] + [0, 1]))))
                tn.check("[%d] unsorted unmerged list detected" % i,
                         any("sorted" in p for p in structural_problems(bad)), True)
            tn.check("[%d] trailing blank detected" % i,
                     any("trailing" in p for p in structural_problems(list(nodes) + [None])), True)

    cases = kdfref.load_vectors("interop_tree_kem.json")
    t = Tally("interop_tree_kem.json")
    if cases is None:
        t.notes.append("absent or empty, skipped")
    else:
        for i, c in enumerate(cases):
            s = c["cipher_suite"]
            nodes = tls.parse_exact(tls.parse_ratchet_tree, h(c["ratchet_tree"]))
            t.check("[%d] parent hashes of start tree" % i, verify_parent_hashes(nodes, s), [])
            t.check("[%d] structure of start tree" % i, structural_problems(nodes), [])
            for j, up in enumerate(c["update_paths"]):
                path = tls.parse_exact(tls.parse_update_path, h(up["update_path"]))
                new_tree, leaf_ph = apply_update_path(nodes, up["sender"], path, s)
                t.check("[%d][%d] leaf parent_hash" % (i, j), leaf_ph,
                        path["leaf_node"].get("parent_hash"))
                t.check("[%d][%d] tree_hash_after" % (i, j),
                        tree_hash_of_nodes(new_tree, s), h(up["tree_hash_after"]))
                t.check("[%d][%d] new tree parent-hash valid" % (i, j),
                        verify_parent_hashes(new_tree, s), [])

    cases = kdfref.load_vectors("tree_modifications_interop.json")
    t = Tally("tree_modifications_interop.json (structure only)")
    if cases is None:
        t.notes.append("absent or empty, skipped")
    else:
        for i, c in enumerate(cases):
            for key in ("tree_before", "tree_after"):
                nodes = tls.parse_exact(tls.parse_ratchet_tree, h(c[key]))
                t.check("[%d] %s structure" % (i, key),
                        structural_problems(nodes, check_unique_keys=False), [])

    print("treehash.py self-test (vectors from %s)" % kdfref.VECTOR_DIR)
    bad = 0
    for t in tallies:
        print("  %-55s pass %6d  fail %3d" % (t.name, t.passed, t.failed))
        for n in t.notes:
            print("      " + n)
        bad += t.failed
    if bad:
        print("FAILED: %d mismatches" % bad)
        sys.exit(1)
    print("all passed")


if __name__ == "__main__":
    _self_test()
