"""C13 offline oracle: every value the library derived (pure wrappers and in-situ member state)
equals what the independent reference (kdfref.py: hashlib/hmac, labels typed from RFC 9420)
computes from the same inputs."""
import kdfref
import tls

H = bytes.fromhex


def _psk_id(p, nonce=None):
    if p["external"]:
        return tls.make_external_psk_id(H(p["id"]), H(p["nonce"]))
    return tls.make_resumption_psk_id(p["usage"], H(p["id"]), p["epoch"], H(p["nonce"]))


def _pure(case, viol, stats):
    suite = case["suite"]
    who = f"{case['provider']} suite {suite}"

    def bad(what, exp, got):
        viol.append(dict(prop="C13", sig=f"C13|pure|{what}",
                         detail=f"{who}: {what}: reference {exp.hex() if exp is not None else None} library {got}; "
                                f"init={case['init']} commit_secret={case['commit_secret']} ctx={case['ctx']} psks={case['psks']}"))

    f = case["ctx_fields"]
    ctx = tls.make_group_context(suite, H(f["group_id"]), int(f["epoch"]), H(f["tree_hash"]), H(f["cth"]),
                                 [{"extension_type": t, "extension_data": H(d)} for t, d in f["extensions"]])
    if ctx != H(case["ctx"]):
        # the harness' own encoding of the inputs is wrong: not a verdict about the library
        raise RuntimeError("harness GroupContext encoding differs from the reference encoding")
    psks = [(_psk_id(p), H(p["value"])) for p in case["psks"]]
    psk_secret = kdfref.psk_secret(suite, psks)
    o = case["out"]
    stats["pure_values"] += 1
    if psk_secret.hex() != o["psk_secret"]:
        bad("psk_secret", psk_secret, o["psk_secret"])
    ks = kdfref.key_schedule_epoch(suite, H(case["init"]), H(case["commit_secret"]), ctx, psk_secret)
    pairs = [("joiner", "joiner_secret"), ("welcome_key", "welcome_key"), ("welcome_nonce", "welcome_nonce"),
             ("confirmation_key", "confirmation_key"), ("exporter", "exporter_secret"), ("authentication", "epoch_authenticator"),
             ("external", "external_secret"), ("membership", "membership_key"), ("init", "init_secret"),
             ("sender_data", "sender_data_secret"), ("resumption", "resumption_psk")]
    for lib, ref in pairs:
        stats["pure_values"] += 1
        if ks[ref].hex() != o[lib]:
            bad(lib, ks[ref], o[lib])
    # what WelcomeSecret::encrypt really handed to the AEAD
    for lib, ref in (("welcome_key_used", "welcome_key"), ("welcome_nonce_used", "welcome_nonce")):
        if o.get(lib) is None:
            raise RuntimeError("the Welcome AEAD call was not observed")
        stats["pure_values"] += 1
        if ks[ref].hex() != o[lib]:
            bad(lib, ks[ref], o[lib])
    pub = kdfref.kem_derive_public_key(suite, ks["external_secret"])
    if pub is not None:
        stats["pure_values"] += 1
        if pub.hex() != o["external_pub"]:
            bad("external_pub", pub, o["external_pub"])
    for t in case["tree_probes"]:
        k, n = kdfref.message_key_nonce(suite, ks["encryption_secret"], case["n_leaves"], t["leaf"],
                                        "handshake" if t["handshake"] else "application", t["generation"])
        stats["pure_values"] += 2
        if k.hex() != t["key"]:
            bad(f"secret_tree_key|{'handshake' if t['handshake'] else 'application'}", k, t["key"])
        if n.hex() != t["nonce"]:
            bad(f"secret_tree_nonce|{'handshake' if t['handshake'] else 'application'}", n, t["nonce"])
    e = case["export"]
    if e["out"] is not None:
        exp = kdfref.mls_exporter(suite, ks["exporter_secret"], H(e["label"]), H(e["context"]), e["len"])
        stats["pure_values"] += 1
        if exp.hex() != e["out"]:
            bad("exported_secret", exp, e["out"])
    t = case.get("transcript")
    if t is not None:
        if t["confirmed"] is None:
            stats["pure_transcript_probe_none"] += 1
        else:
            confirmed, interim = kdfref.transcript_hashes_after_commit(suite, H(t["interim_prev"]), H(t["ac"]))
            stats["pure_values"] += 2
            stats["pure_transcript_wire_format_%d" % t["wire_format"]] += 1
            if confirmed.hex() != t["confirmed"]:
                bad("confirmed_transcript_hash_wire_format_%d" % t["wire_format"], confirmed, t["confirmed"])
            if interim.hex() != t["interim"]:
                bad("interim_transcript_hash_wire_format_%d" % t["wire_format"], interim, t["interim"])
    x = case["expand"]
    if x["expanded"] is not None:
        exp = kdfref.expand_with_label(suite, H(x["secret"]), H(x["label"]), H(x["context"]), x["len"])
        stats["pure_values"] += 1
        if exp.hex() != x["expanded"]:
            bad("expand_with_label", exp, x["expanded"])
    if x["derived"] is not None:
        exp = kdfref.derive_secret(suite, H(x["secret"]), H(x["label"]))
        stats["pure_values"] += 1
        if exp.hex() != x["derived"]:
            bad("derive_secret", exp, x["derived"])


def _insitu(ev, viol, stats):
    suite = ev["suite"]
    where = f"suite {suite} epoch {ev['epoch']} external={ev['external']}"

    def bad(what, detail):
        viol.append(dict(prop="C13", sig=f"C13|insitu|{what}", detail=f"{where}: {detail}"))

    if not ev["prev"] or not ev["views"]:
        return
    prev = ev["prev"]["view"]
    ctx_prev = H(ev["prev"]["ctx"])
    commit = H(ev["commit"])
    msg = tls.parse_exact(tls.parse_mls_message, commit)
    pm = msg.get("public_message")
    if pm is None:
        return
    if tls.parse_exact(tls.parse_group_context, ctx_prev)["epoch"] != pm["content"]["epoch"]:
        # the harness' "previous epoch" snapshot is not the epoch this commit was built in
        stats["insitu_skipped_stale_prev"] += 1
        return
    stats["insitu_epochs"] += 1
    if ev["external"]:
        stats["insitu_external_epochs"] += 1
    new = ev["views"][0]
    ctx_new = H(new["ctx"])
    # every member holds the same values (that is C01's business, but a mismatch would make the
    # comparison below meaningless)
    # (a) transcript hashes from the commit on the wire
    ac = tls.encode_authenticated_content({"wire_format": tls.WIRE_PUBLIC_MESSAGE, "content": pm["content"], "auth": pm["auth"]})
    confirmed, interim = kdfref.transcript_hashes_after_commit(suite, H(prev["interim_transcript_hash"]), ac)
    gc = tls.parse_exact(tls.parse_group_context, ctx_new)
    stats["insitu_values"] += 2
    if gc["confirmed_transcript_hash"] != confirmed:
        bad("confirmed_transcript_hash", f"reference {confirmed.hex()} context {gc['confirmed_transcript_hash'].hex()}")
    if interim.hex() != new["view"]["interim_transcript_hash"]:
        bad("interim_transcript_hash", f"reference {interim.hex()} member {new['view']['interim_transcript_hash']}")
    # the re-encoded context equals the member's bytes (independent encoder)
    if tls.encode_group_context(gc) != ctx_new:
        bad("group_context_encoding", "reference re-encoding differs")
    # (b) membership tag of the commit: previous epoch's key and context
    if pm["membership_tag"] is not None:
        tag = kdfref.public_message_membership_tag(suite, H(prev["membership"]), commit, ctx_prev)
        stats["insitu_values"] += 1
        if tag != pm["membership_tag"]:
            bad("membership_tag", f"reference {tag.hex()} wire {pm['membership_tag'].hex()}")
    # (c) the PSK secret from the applied PSK proposals
    ext_tab = {k: H(v) for k, v in ev["psk_table"]}
    res_tab = {int(e): H(v) for e, v in ev["resumption_table"]}
    psks = []
    for idh in ev["applied_psk_ids"]:
        pid = tls.parse_exact(tls.parse_psk_id, H(idh))
        if pid["psktype"] == tls.PSK_EXTERNAL:
            val = ext_tab.get(pid["psk_id"].hex())
        else:
            val = res_tab.get(pid["psk_epoch"])
        if val is None:
            stats["insitu_psk_value_unknown"] += 1
            return
        psks.append((pid, val))
    psk_secret = kdfref.psk_secret(suite, psks)
    if psks:
        stats["insitu_epochs_with_psk"] += 1
    # (d) commit secret candidates from the recorded HKDF-Extract calls
    cands = []
    for salt, ikm, who in ev["extracts"]:
        if ev["external"] or salt == prev["init"]:
            cands.append((H(salt), H(ikm)))
    want = new["view"]
    hit = None
    hit_salt = None
    for salt, ikm in cands:
        ks = kdfref.key_schedule_epoch(suite, salt, ikm, ctx_new, psk_secret)
        if ks["init_secret"].hex() == want["init"]:
            hit = ks
            hit_salt = salt
            break
    if hit is None:
        bad("no_recorded_commit_secret_reproduces_the_epoch",
            f"{len(cands)} candidate (init, commit secret) pairs, {len(psks)} PSKs; member init {want['init']}")
        return
    # external commit: the init secret the epoch was derived from is the HPKE export of RFC 9420
    # section 8.3, recomputed here with an independent X25519 / HPKE key schedule (suites 1 and 3)
    if ev["external"]:
        kem_outputs = [p["proposal"]["kem_output"] for p in pm["content"]["commit"]["proposals"]
                       if p.get("type") == 1 and p["proposal"].get("proposal_type") == tls.PROPOSAL_EXTERNAL_INIT]
        ref_init = kdfref.external_init_secret(suite, H(prev["external"]), kem_outputs[0]) if kem_outputs else None
        if ref_init is not None:
            stats["insitu_values"] += 1
            stats["insitu_external_init_checked"] += 1
            if ref_init != hit_salt:
                bad("external_init_secret", f"reference {ref_init.hex()} library {hit_salt.hex()}")
    pairs = [("exporter", "exporter_secret"), ("authentication", "epoch_authenticator"), ("external", "external_secret"),
             ("membership", "membership_key"), ("sender_data", "sender_data_secret"), ("resumption", "resumption_psk")]
    for v in ev["views"]:
        for lib, ref in pairs:
            stats["insitu_values"] += 1
            if hit[ref].hex() != v["view"][lib]:
                bad(lib, f"member {v['member']}: reference {hit[ref].hex()} member {v['view'][lib]}")
        if hit["epoch_authenticator"].hex() != v["authenticator"]:
            bad("epoch_authenticator_api", f"member {v['member']}")
    tag = kdfref.confirmation_tag(suite, hit["confirmation_key"], confirmed)
    stats["insitu_values"] += 2
    if tag.hex() != want["confirmation_tag"]:
        bad("confirmation_tag_state", f"reference {tag.hex()} member {want['confirmation_tag']}")
    if pm["auth"].get("confirmation_tag") is not None and tag != pm["auth"]["confirmation_tag"]:
        bad("confirmation_tag_wire", f"reference {tag.hex()} wire {pm['auth']['confirmation_tag'].hex()}")
    # the Welcome of this commit was encrypted under the reference welcome key and nonce
    if ev.get("n_welcomes", 0) > 0 and not ev["external"]:
        stats["insitu_welcome_epochs"] += 1
        wk, wn = hit["welcome_key"].hex(), hit["welcome_nonce"].hex()
        with_key = [s for s in ev.get("commit_seals", []) if s[0] == wk]
        if not with_key:
            bad("welcome_key_used", f"{ev['n_welcomes']} Welcome message(s) but no AEAD seal under the reference welcome key among {len(ev.get('commit_seals', []))} seals of the commit")
        elif not any(s[1] == wn for s in with_key):
            bad("welcome_nonce_used", f"reference {wn} used {with_key[0][1]}")
    for e in ev["exports"]:
        exp = kdfref.mls_exporter(suite, hit["exporter_secret"], H(e["label"]), H(e["context"]), e["len"])
        stats["insitu_values"] += 1
        if exp.hex() != e["out"]:
            bad("export_secret", f"label {e['label']}: reference {exp.hex()} member {e['out']}")
    n_leaves = want["n_leaves"]
    for s in ev["seals"]:
        k, n = kdfref.message_key_nonce(suite, hit["encryption_secret"], n_leaves, s["leaf"], "application", s["generation"])
        stats["insitu_values"] += 2
        if k.hex() != s["key"]:
            bad("application_message_key", f"leaf {s['leaf']} generation {s['generation']}: reference {k.hex()} used {s['key']}")
        if n.hex()[8:] != s["nonce"][8:]:
            bad("application_message_nonce", f"leaf {s['leaf']}: reference ..{n.hex()[8:]} used ..{s['nonce'][8:]}")
        # sender data: key and nonce from the sender data secret and the ciphertext sample
        if s.get("msg"):
            m = tls.parse_exact(tls.parse_mls_message, H(s["msg"]))
            pv = m.get("private_message")
            if pv is not None:
                sk, sn = kdfref.sender_data_key_nonce(suite, hit["sender_data_secret"], pv["ciphertext"])
                stats["insitu_values"] += 2
                stats["insitu_sender_data_checked"] += 1
                if [sk.hex(), sn.hex()] not in s.get("all", []):
                    bad("sender_data_key_nonce", f"leaf {s['leaf']}: no AEAD seal of the message used the reference sender-data key/nonce ({sk.hex()}, {sn.hex()}); seals: {s.get('all')}")


def run(outs, extra, ctx):
    viol, samples, inc = [], [], []
    distinct = set()
    from collections import Counter
    stats = Counter()
    n = 0
    for shard_cases in extra.get("c13_pure", []):
        for case in shard_cases:
            try:
                _pure(case, viol, stats)
            except Exception as e:
                inc.append(f"c13_post: checker error on a pure case ({case['provider']} suite {case['suite']}): {e!r}")
                continue
            n += 1
            distinct.add(("pure", case["provider"], case["suite"], case["init"][:12]))
            if len(samples) < 1:
                samples.append(dict(kind="pure_key_schedule", provider=case["provider"], suite=case["suite"], psks=len(case["psks"]),
                                    n_leaves=case["n_leaves"], init=case["init"], joiner=case["out"]["joiner"]))
    for shard_events in extra.get("c13_insitu", []):
        for ev in shard_events:
            try:
                _insitu(ev, viol, stats)
            except Exception as e:
                inc.append(f"c13_post: checker error on an in-situ epoch {ev.get('epoch')}: {e!r}")
                continue
            n += 1
            distinct.add(("insitu", ev["suite"], ev["epoch"], ev["commit"][:24]))
            if len(samples) < 2:
                samples.append(dict(kind="insitu_epoch", suite=ev["suite"], epoch=ev["epoch"], external=ev["external"],
                                    psks=len(ev["applied_psk_ids"]), members=len(ev["views"]), extract_calls=len(ev["extracts"])))
    for k, v in stats.items():
        ctx["counters"]["offline_" + k] = v
    return viol, n, {str(x) for x in distinct}, samples, inc
