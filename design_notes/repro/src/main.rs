use mls_rs::client_builder::{ClientBuilder, MlsConfig};
use mls_rs::identity::basic::BasicIdentityProvider;
use mls_rs::identity::SigningIdentity;
use mls_rs::storage_provider::in_memory::InMemoryGroupStateStorage;
use mls_rs::test_utils::get_test_basic_credential;
use mls_rs::{CipherSuite, Client, CryptoProvider, Group, GroupStateStorage, MlsMessage, ProtocolVersion};
use mls_rs_core::crypto::CipherSuiteProvider;
use mls_rs_core::group::{EpochRecord, GroupState};
use mls_rs_crypto_openssl::OpensslCryptoProvider;
use std::panic::catch_unwind;
use std::sync::atomic::{AtomicI64, Ordering};
use std::sync::Arc;

const CS: CipherSuite = CipherSuite::CURVE25519_AES128;

#[derive(Clone)]
struct Faulty {
    inner: InMemoryGroupStateStorage,
    // number of calls until failure; negative = never
    fail_at: Arc<AtomicI64>,
}
#[derive(Debug)]
struct Boom;
impl std::fmt::Display for Boom { fn fmt(&self, f: &mut std::fmt::Formatter<'_>) -> std::fmt::Result { write!(f, "boom") } }
impl std::error::Error for Boom {}
impl mls_rs::error::IntoAnyError for Boom {
    fn into_dyn_error(self) -> Result<Box<dyn std::error::Error + Send + Sync>, Self> { Ok(Box::new(self)) }
}
impl Faulty {
    fn tick(&self) -> Result<(), Boom> {
        let v = self.fail_at.load(Ordering::SeqCst);
        if v == 0 { self.fail_at.store(-1, Ordering::SeqCst); return Err(Boom); }
        if v > 0 { self.fail_at.store(v - 1, Ordering::SeqCst); }
        Ok(())
    }
}
impl GroupStateStorage for Faulty {
    type Error = Boom;
    fn state(&self, g: &[u8]) -> Result<Option<zeroize::Zeroizing<Vec<u8>>>, Boom> { self.tick()?; Ok(self.inner.state(g).unwrap()) }
    fn epoch(&self, g: &[u8], e: u64) -> Result<Option<zeroize::Zeroizing<Vec<u8>>>, Boom> { self.tick()?; Ok(self.inner.epoch(g, e).unwrap()) }
    fn write(&mut self, s: GroupState, i: Vec<EpochRecord>, u: Vec<EpochRecord>) -> Result<(), Boom> { self.tick()?; self.inner.write(s, i, u).unwrap(); Ok(()) }
    fn max_epoch_id(&self, g: &[u8]) -> Result<Option<u64>, Boom> { self.tick()?; Ok(self.inner.max_epoch_id(g).unwrap()) }
}

fn client(id: usize, st: Faulty) -> Client<impl MlsConfig> {
    let crypto = OpensslCryptoProvider::default();
    let cs = crypto.cipher_suite_provider(CS).unwrap();
    let (sk, pk) = cs.signature_key_generate().unwrap();
    let ident = SigningIdentity::new(get_test_basic_credential(format!("{id}").into_bytes()), pk);
    ClientBuilder::new()
        .crypto_provider(crypto)
        .identity_provider(BasicIdentityProvider::new())
        .group_state_storage(st)
        .signing_identity(ident, sk, CS)
        .build()
}

fn mk(n: usize) -> (Vec<Group<impl MlsConfig>>, Vec<Faulty>) {
    let sts: Vec<Faulty> = (0..n).map(|_| Faulty { inner: InMemoryGroupStateStorage::new().with_max_epoch_retention(2).unwrap(), fail_at: Arc::new(AtomicI64::new(-1)) }).collect();
    let clients: Vec<_> = (0..n).map(|i| client(i, sts[i].clone())).collect();
    let mut g0 = clients[0].create_group(Default::default(), Default::default(), None).unwrap();
    let mut b = g0.commit_builder();
    for c in &clients[1..] {
        b = b.add_member(c.generate_key_package_message(Default::default(), Default::default(), None).unwrap()).unwrap();
    }
    let out = b.build().unwrap();
    g0.apply_pending_commit().unwrap();
    let mut gs = vec![g0];
    for c in &clients[1..] {
        gs.push(c.join_group(None, &out.welcome_messages[0], None).unwrap().0);
    }
    (gs, sts)
}

fn exp_c15() {
    println!("== C15 apply_pending_commit with failing storage");
    let (mut g, sts) = mk(2);
    g[0].write_to_storage().unwrap();
    let c = g[0].commit(vec![]).unwrap().commit_message;
    println!("has pending: {}", g[0].has_pending_commit());
    sts[0].fail_at.store(0, Ordering::SeqCst);
    let r = g[0].apply_pending_commit();
    println!("apply with fault -> {:?}; has pending now: {}; epoch {}", r.map(|_| ()).map_err(|e| format!("{e:?}")), g[0].has_pending_commit(), g[0].current_epoch());
    let r = g[0].apply_pending_commit();
    println!("retry -> {:?}", r.map(|_| ()).map_err(|e| format!("{e:?}")));
    let r = g[0].process_incoming_message(c);
    println!("own commit echoed back -> {:?}", r.map(|_| ()).map_err(|e| format!("{e:?}")));
}

fn exp_c15_reinit_marker() {
    println!("== C15/C04 reinit marker left behind on storage failure");
    let (mut g, sts) = mk(2);
    g[1].write_to_storage().unwrap();
    let c = g[0].commit_builder().reinit(Some(b"new".to_vec()), ProtocolVersion::MLS_10, CS, Default::default()).unwrap().build().unwrap().commit_message;
    sts[1].fail_at.store(0, Ordering::SeqCst);
    let r = g[1].process_incoming_message(c.clone());
    println!("receive reinit commit with fault -> {:?}; epoch {}", r.map(|_| ()).map_err(|e| format!("{e:?}")), g[1].current_epoch());
    let r = g[1].process_incoming_message(c);
    println!("retry -> {:?}", r.map(|_| ()).map_err(|e| format!("{e:?}")));
}

fn exp_c04_private_tree_b() {
    println!("== C04 scenario B: rejected path+PSK commit from A, then group proceeds with commit from B (other half of tree)");
    let (mut g, _sts) = mk(6);
    for _ in 0..4 {
        let c = g[0].commit(vec![]).unwrap().commit_message;
        g[0].apply_pending_commit().unwrap();
        for i in 1..6 { g[i].process_incoming_message(c.clone()).unwrap(); }
        g[3].write_to_storage().unwrap();
    }
    // A (0) commit: resumption psk epoch 1 + remove member 5 (forces path); m3 rejects it (epoch trimmed).
    let ca = g[0].commit_builder().add_resumption_psk(1).unwrap().remove_member(5).unwrap().build().unwrap();
    println!("A commit has path: {}", ca.contains_update_path);
    let r = g[3].process_incoming_message(ca.commit_message);
    println!("m3 rejects A's commit -> {:?}", r.map(|_| ()).map_err(|e| format!("{e:?}")));
    g[0].clear_pending_commit();
    let cb = g[4].commit(vec![]).unwrap().commit_message;
    g[4].apply_pending_commit().unwrap();
    for i in [0usize,1,2,3,5] {
        println!("m{i} processes B(4)'s commit -> {:?}", g[i].process_incoming_message(cb.clone()).map(|_| ()).map_err(|e| format!("{e:?}")));
    }
}


#[derive(Clone)]
struct FaultyKp { inner: mls_rs::storage_provider::in_memory::InMemoryKeyPackageStorage, fail_delete: Arc<AtomicI64> }
impl mls_rs::KeyPackageStorage for FaultyKp {
    type Error = Boom;
    fn delete(&mut self, id: &[u8]) -> Result<(), Boom> {
        if self.fail_delete.load(Ordering::SeqCst) > 0 { self.fail_delete.fetch_sub(1, Ordering::SeqCst); return Err(Boom); }
        self.inner.delete(id); Ok(())
    }
    fn insert(&mut self, id: Vec<u8>, pkg: mls_rs::storage_provider::KeyPackageData) -> Result<(), Boom> { self.inner.insert(id, pkg); Ok(()) }
    fn get(&self, id: &[u8]) -> Result<Option<mls_rs::storage_provider::KeyPackageData>, Boom> { Ok(self.inner.get(id)) }
}

fn exp_d11() {
    println!("== D11 key package delete fails after group write");
    let crypto = OpensslCryptoProvider::default();
    let mk_client = |id: usize, kp: FaultyKp, st: InMemoryGroupStateStorage| {
        let cs = crypto.cipher_suite_provider(CS).unwrap();
        let (sk, pk) = cs.signature_key_generate().unwrap();
        let ident = SigningIdentity::new(get_test_basic_credential(format!("{id}").into_bytes()), pk);
        ClientBuilder::new().crypto_provider(crypto.clone()).identity_provider(BasicIdentityProvider::new())
            .group_state_storage(st).key_package_repo(kp).signing_identity(ident, sk, CS).build()
    };
    let kp0 = FaultyKp { inner: Default::default(), fail_delete: Arc::new(AtomicI64::new(0)) };
    let kp1 = FaultyKp { inner: Default::default(), fail_delete: Arc::new(AtomicI64::new(0)) };
    let st1 = InMemoryGroupStateStorage::new().with_max_epoch_retention(5).unwrap();
    let a = mk_client(0, kp0, InMemoryGroupStateStorage::new());
    let b = mk_client(1, kp1.clone(), st1.clone());
    let mut ga = a.create_group(Default::default(), Default::default(), None).unwrap();
    let out = ga.commit_builder().add_member(b.generate_key_package_message(Default::default(), Default::default(), None).unwrap()).unwrap().build().unwrap();
    ga.apply_pending_commit().unwrap();
    let (mut gb, _) = b.join_group(None, &out.welcome_messages[0], None).unwrap();
    // two epochs so that there are pending inserts
    for _ in 0..2 {
        let c = ga.commit(vec![]).unwrap().commit_message; ga.apply_pending_commit().unwrap();
        gb.process_incoming_message(c).unwrap();
    }
    kp1.fail_delete.store(1, Ordering::SeqCst);
    let r = gb.write_to_storage();
    println!("write with kp delete fault -> {:?}", r.map_err(|e| format!("{e:?}")));
    let r = gb.write_to_storage();
    println!("retry write -> {:?}", r.map_err(|e| format!("{e:?}")));
    let gid = gb.group_id().to_vec();
    let ids: Vec<_> = (0..6u64).map(|e| st1.epoch(&gid, e).unwrap().map(|d| {
        // decode epoch id from the record: context epoch sits after version/cs/group id; just report len
        d.len()
    })).collect();
    println!("stored epochs by id 0..5 (Some=len): {:?}; max_epoch_id {:?}", ids, st1.max_epoch_id(&gid).unwrap());
    // next epoch + write
    let c = ga.commit(vec![]).unwrap().commit_message; ga.apply_pending_commit().unwrap();
    println!("process next -> {:?}", gb.process_incoming_message(c).map(|_| ()).map_err(|e| format!("{e:?}")));
    println!("write -> {:?}", gb.write_to_storage().map_err(|e| format!("{e:?}")));
    println!("max_epoch_id {:?}", st1.max_epoch_id(&gid).unwrap());
}

fn exp_d3_signer() {
    println!("== D3 signer swapped by rejected commit");
    let (mut g, _sts) = mk(6);
    for _ in 0..4 {
        let c = g[0].commit(vec![]).unwrap().commit_message;
        g[0].apply_pending_commit().unwrap();
        for i in 1..6 { g[i].process_incoming_message(c.clone()).unwrap(); }
        g[3].write_to_storage().unwrap();
    }
    // m3 proposes an identity update with new signer (same basic identity name, new key)
    let crypto = OpensslCryptoProvider::default();
    let cs = crypto.cipher_suite_provider(CS).unwrap();
    let (sk, pk) = cs.signature_key_generate().unwrap();
    let ident = SigningIdentity::new(get_test_basic_credential(b"3".to_vec()), pk);
    let p = g[3].propose_update_with_identity(sk, ident, vec![]).unwrap();
    for i in [0usize,1,2,4,5] { g[i].process_incoming_message(p.clone()).unwrap(); }
    // A commits it together with a resumption psk m3 cannot resolve
    let ca = g[0].commit_builder().add_resumption_psk(1).unwrap().build().unwrap();
    println!("A commit has path: {}", ca.contains_update_path);
    let r = g[3].process_incoming_message(ca.commit_message);
    println!("m3 rejects A's commit -> {:?}", r.map(|_| ()).map_err(|e| format!("{e:?}")));
    g[0].clear_pending_commit();
    // now everybody clears proposals? They still have m3's update cached. m3 sends an application message? commit required. m3 itself commits:
    g[3].clear_proposal_cache();
    for i in [0usize,1,2,4,5] { g[i].clear_proposal_cache(); }
    let m = g[3].encrypt_application_message(b"hi", vec![]).unwrap();
    println!("m1 reads m3's app message -> {:?}", g[1].process_incoming_message(m).map(|_| ()).map_err(|e| format!("{e:?}")));
}

fn exp_stale_pending_after_detached() {
    println!("== C11b pending commit survives apply_detached_commit");
    let (mut g, _s) = mk(2);
    let (_o, sec) = g[0].commit_detached(vec![]).unwrap();
    let r = g[0].commit(vec![]);
    println!("second (non-detached) commit while detached outstanding -> {:?}", r.as_ref().map(|_| ()).map_err(|e| format!("{e:?}")));
    g[0].apply_detached_commit(sec).unwrap();
    println!("after applying detached: epoch {}, has_pending {}", g[0].current_epoch(), g[0].has_pending_commit());
    let r = g[0].apply_pending_commit();
    println!("apply stale pending -> {:?}; epoch {}", r.map(|_| ()).map_err(|e| format!("{e:?}")), g[0].current_epoch());
}


fn exp_c11_stale_detached() {
    println!("== D6 (C11) stale detached commit applied on a newer epoch");
    let (mut g, _s) = mk(3);
    let (_out, secrets) = g[0].commit_detached(vec![]).unwrap();
    let c = g[1].commit(vec![]).unwrap().commit_message;
    g[1].apply_pending_commit().unwrap();
    g[0].process_incoming_message(c.clone()).unwrap();
    g[2].process_incoming_message(c).unwrap();
    println!("A epoch before stale apply: {}", g[0].current_epoch());
    let r = g[0].apply_detached_commit(secrets);
    println!(
        "apply stale detached -> {:?}; A epoch now {}; A==B authenticator: {}",
        r.map(|_| ()).map_err(|e| format!("{e:?}")),
        g[0].current_epoch(),
        g[0].epoch_authenticator().unwrap().as_bytes() == g[1].epoch_authenticator().unwrap().as_bytes()
    );
}

fn exp_c04_tail_flip() {
    println!("== D1 (C04/C05) ciphertext tail flip burns the message key");
    let (mut g, _s) = mk(2);
    let m = g[0].encrypt_application_message(b"hello world, this is a long enough message to have a tail beyond the sample", vec![]).unwrap();
    let mut bytes = m.to_bytes().unwrap();
    let n = bytes.len();
    bytes[n - 1] ^= 1;
    let bad = MlsMessage::from_bytes(&bytes).unwrap();
    println!("tampered -> {:?}", g[1].process_incoming_message(bad).map(|_| ()).map_err(|e| format!("{e:?}")));
    println!("genuine after tampered -> {:?}", g[1].process_incoming_message(m).map(|_| ()).map_err(|e| format!("{e:?}")));
}

fn exp_c10_remove_update() {
    println!("== D9 (C10) by-ref Remove(X)+Update(X)+Update(Y): honest commit rejected by all receivers");
    let (mut g, _s) = mk(5);
    let p_rm = g[3].propose_remove(1, vec![]).unwrap();
    let p_ux = g[1].propose_update(vec![]).unwrap();
    let p_uy = g[2].propose_update(vec![]).unwrap();
    for (s, p) in [(3usize, p_rm), (1, p_ux), (2, p_uy)] {
        for i in 0..5 { if i != s { g[i].process_incoming_message(p.clone()).unwrap(); } }
    }
    match g[0].commit(vec![]) {
        Err(e) => println!("commit build failed: {e:?}"),
        Ok(out) => {
            println!("commit built; unused={}", out.unused_proposals.len());
            for i in [2usize, 3, 4] {
                println!(" receiver {i} -> {:?}", g[i].process_incoming_message(out.commit_message.clone()).map(|_| ()).map_err(|e| format!("{e:?}")));
            }
        }
    }
}

fn exp_c17_reinit_blank() {
    println!("== D8 (C17) reinit with interior blank leaf");
    let (mut g, _s) = mk(3);
    let c = g[0].commit_builder().remove_member(1).unwrap().build().unwrap().commit_message;
    g[0].apply_pending_commit().unwrap();
    g[2].process_incoming_message(c).unwrap();
    let c = g[0].commit_builder().reinit(Some(b"newgroup".to_vec()), ProtocolVersion::MLS_10, CS, Default::default()).unwrap().build().unwrap().commit_message;
    g[0].apply_pending_commit().unwrap();
    g[2].process_incoming_message(c).unwrap();
    let mut it = g.into_iter();
    let g0 = it.next().unwrap();
    let _g1 = it.next().unwrap();
    let g2 = it.next().unwrap();
    let rc0 = g0.get_reinit_client(None, None).unwrap();
    let rc2 = g2.get_reinit_client(None, None).unwrap();
    let kp2 = rc2.generate_key_package(None).unwrap();
    println!("reinit commit with the same 2 identities -> {:?}", rc0.commit(vec![kp2], Default::default(), None).map(|_| ()).map_err(|e| format!("{e:?}")));
}

fn exp_c16_jitter() {
    println!("== D7 (C16) observer max_epoch_jitter > epoch");
    use mls_rs::external_client::builder::ExternalClientBuilder;
    let (mut g, _s) = mk(2);
    let gi = g[0].group_info_message(true).unwrap();
    let ext = ExternalClientBuilder::new().crypto_provider(OpensslCryptoProvider::default()).identity_provider(BasicIdentityProvider::new()).max_epoch_jitter(5).build();
    let mut eg = ext.observe_group(gi, None, None).unwrap();
    println!("observer epoch {}", eg.group_context().epoch);
    let m = g[0].encrypt_application_message(b"x", vec![]).unwrap();
    let r = catch_unwind(std::panic::AssertUnwindSafe(|| eg.process_incoming_message(m).map(|_| ()).map_err(|e| format!("{e:?}"))));
    println!("observer process ciphertext -> {:?}", r.map_err(|_| "PANIC"));
}

fn main() {
    std::panic::set_hook(Box::new(|i| eprintln!("panic: {i}")));
    for (name, f) in [
        ("d1", exp_c04_tail_flip as fn()), ("d2", exp_c04_private_tree_b), ("d3", exp_d3_signer), ("d4", exp_c15_reinit_marker),
        ("d5", exp_c15), ("d6", exp_c11_stale_detached), ("d6b", exp_stale_pending_after_detached), ("d7", exp_c16_jitter),
        ("d8", exp_c17_reinit_blank), ("d9", exp_c10_remove_update), ("d11", exp_d11),
    ] {
        if catch_unwind(f).is_err() { println!("!! experiment {name} panicked"); }
    }
}
